//! `UnitVM<P>`: a family of VM bindings for *unit-level* checks (C17, C18).  No `MMTK` instance is
//! ever created for them; they exist so that the real generic functions of mmtk-core
//! (`object_forwarding::*::<VM>`, `MarkState::test_and_mark::<VM>`, `ObjectBarrier<S>` ...), which take
//! their metadata specs from `VM::VMObjectModel` constants, can be driven under several metadata
//! placements in one build.  `P` selects the placement:
//!
//! | P        | mark / log / pin bit                     | forwarding bits          | forwarding pointer |
//! |----------|-------------------------------------------|--------------------------|--------------------|
//! | 0..=15   | in header, bit offset `ONE_BIT_OFFSETS[P]` | header bit 0 (shared)    | header word 0      |
//! | 16       | on side                                   | header bit 0 (shared)    | header word 0      |
//! | 100      | side                                      | header bit 0  (in ptr word, shift 0)  | header word 0 |
//! | 101      | side                                      | header bit 56 (in ptr word, shift 56) | header word 0 |
//! | 102      | side                                      | header bit 64 (next word)             | header word 0 |
//! | 103      | side                                      | header bit -8 (byte before)           | header word 0 |
//! | 104      | side                                      | side                                  | header word 0 |
//! | 105      | side                                      | header bit 64 (word 1)                | side          |
//! | 106      | side                                      | side                                  | side          |
//! | 200      | side; object reference = object start + 8, size from `UNIT_OBJECT_SIZE` (C34)                    |
//!
//! The header of an object is at its address (`ref_to_header(o) == o`); objects are scratch
//! memory supplied by the check.  `ObjectModel::copy` is the harness-supplied "copy" of C17: it
//! returns a fresh address from the thread's [`CopyCtx`] and counts the call.

use mmtk::util::copy::{CopySemantics, GCWorkerCopyContext};
use mmtk::util::opaque_pointer::*;
use mmtk::util::{Address, ObjectReference};
use mmtk::vm::*;
use mmtk::Mutator;
use std::cell::Cell;
use std::ops::Range;
use std::sync::atomic::{AtomicUsize, Ordering};

#[derive(Default)]
pub struct UnitVM<const P: usize>;

/// Bit offsets of the one-bit specs for placements 0..=15.
pub const ONE_BIT_OFFSETS: [isize; 16] = [0, 1, 2, 3, 4, 5, 6, 7, -1, -2, -3, -4, -5, -6, -7, -8];
pub const P_SIDE: usize = 16;
/// Placement 200: everything on side as in 16, but the object reference points `REF_OFFSET` bytes
/// past the object start (a header word before the reference) and the object size is whatever
/// the check put into `UNIT_OBJECT_SIZE` (C34, line marking).
pub const P_REF_OFFSET: usize = 200;
pub const REF_OFFSET: usize = 8;
/// Placement 201: as 200 (size from `UNIT_OBJECT_SIZE`) but object reference = object start.
pub const P_SIZED: usize = 201;
pub const FWD_PLACEMENTS: [usize; 7] = [100, 101, 102, 103, 104, 105, 106];

pub fn placement_name(p: usize) -> String {
    match p {
        0..=15 => format!("header-bit{}", ONE_BIT_OFFSETS[p]),
        16 => "side".into(),
        100 => "fwd:bits-in-pointer-word-shift0".into(),
        101 => "fwd:bits-in-pointer-word-shift56".into(),
        102 => "fwd:header-separate-word-after".into(),
        103 => "fwd:header-separate-byte-before".into(),
        104 => "fwd:bits-side,pointer-header".into(),
        105 => "fwd:bits-header,pointer-side".into(),
        106 => "fwd:both-side".into(),
        _ => format!("P{}", p),
    }
}

// Side chains.  All offsets lie inside the side-metadata range reserved for `VerifVM` (whose local
// VM specs are mark / LOS / pin): the mark bit keeps VerifVM's slot, the forwarding bits take the
// LOS slot's start and the side forwarding pointer (1:1 with the data, used only for the low
// scratch window) starts where the mark bits start; for the scratch window the three never share a
// metadata byte (asserted by `c18::init_scratch`).
const S_MARK: VMLocalMarkBitSpec = VMLocalMarkBitSpec::side_first();
const S_LOS: VMLocalLOSMarkNurserySpec = VMLocalLOSMarkNurserySpec::side_after(S_MARK.as_spec());
#[cfg(feature = "pinning")]
const S_PIN: VMLocalPinningBitSpec = VMLocalPinningBitSpec::side_after(S_LOS.as_spec());
const S_FWD_BITS: VMLocalForwardingBitsSpec = VMLocalForwardingBitsSpec::side_after(S_MARK.as_spec());
const S_FWD_PTR: VMLocalForwardingPointerSpec = VMLocalForwardingPointerSpec::side_first();
const S_LOG: VMGlobalLogBitSpec = VMGlobalLogBitSpec::side_first();

const fn one_bit_offset(p: usize) -> Option<isize> {
    if p < 16 {
        Some(ONE_BIT_OFFSETS[p])
    } else {
        None
    }
}

const fn mark_spec(p: usize) -> VMLocalMarkBitSpec {
    match one_bit_offset(p) {
        Some(o) => VMLocalMarkBitSpec::in_header(o),
        None => S_MARK,
    }
}
const fn log_spec(p: usize) -> VMGlobalLogBitSpec {
    match one_bit_offset(p) {
        Some(o) => VMGlobalLogBitSpec::in_header(o),
        None => S_LOG,
    }
}
#[cfg(feature = "pinning")]
const fn pin_spec(p: usize) -> VMLocalPinningBitSpec {
    match one_bit_offset(p) {
        Some(o) => VMLocalPinningBitSpec::in_header(o),
        None => S_PIN,
    }
}
const fn fwd_bits_spec(p: usize) -> VMLocalForwardingBitsSpec {
    match p {
        101 => VMLocalForwardingBitsSpec::in_header(56),
        102 | 105 => VMLocalForwardingBitsSpec::in_header(64),
        103 => VMLocalForwardingBitsSpec::in_header(-8),
        104 | 106 => S_FWD_BITS,
        _ => VMLocalForwardingBitsSpec::in_header(0),
    }
}
const fn fwd_ptr_spec(p: usize) -> VMLocalForwardingPointerSpec {
    match p {
        105 | 106 => S_FWD_PTR,
        _ => VMLocalForwardingPointerSpec::in_header(0),
    }
}

impl<const P: usize> VMBinding for UnitVM<P> {
    type VMObjectModel = UnitVM<P>;
    type VMScanning = UnitVM<P>;
    type VMCollection = UnitVM<P>;
    type VMActivePlan = UnitVM<P>;
    type VMReferenceGlue = UnitVM<P>;
    type VMSlot = Address;
    type VMMemorySlice = Range<Address>;

    const MIN_ALIGNMENT: usize = 8;
    const MAX_ALIGNMENT: usize = 64;
}

/// Per-thread state of the harness-supplied copy function.
pub struct CopyCtx {
    /// address returned by the next copy
    pub next: AtomicUsize,
    /// number of copies performed
    pub calls: AtomicUsize,
}

thread_local! {
    /// Size reported by `get_current_size` for placement `P_REF_OFFSET`.
    pub static UNIT_OBJECT_SIZE: Cell<usize> = const { Cell::new(32) };
    /// Set by the scenario body before it calls `forward_object`.
    pub static COPY_CTX: Cell<*const CopyCtx> = const { Cell::new(std::ptr::null()) };
    /// Number of copies performed by this OS thread.
    pub static COPIES_BY_THIS_THREAD: Cell<usize> = const { Cell::new(0) };
}

impl<const P: usize> ObjectModel<UnitVM<P>> for UnitVM<P> {
    const GLOBAL_LOG_BIT_SPEC: VMGlobalLogBitSpec = log_spec(P);
    const LOCAL_FORWARDING_POINTER_SPEC: VMLocalForwardingPointerSpec = fwd_ptr_spec(P);
    const LOCAL_FORWARDING_BITS_SPEC: VMLocalForwardingBitsSpec = fwd_bits_spec(P);
    const LOCAL_MARK_BIT_SPEC: VMLocalMarkBitSpec = mark_spec(P);
    const LOCAL_LOS_MARK_NURSERY_SPEC: VMLocalLOSMarkNurserySpec = S_LOS;
    #[cfg(feature = "pinning")]
    const LOCAL_PINNING_BIT_SPEC: VMLocalPinningBitSpec = pin_spec(P);

    const UNIFIED_OBJECT_REFERENCE_ADDRESS: bool = P != P_REF_OFFSET;
    const OBJECT_REF_OFFSET_LOWER_BOUND: isize = if P == P_REF_OFFSET { REF_OFFSET as isize } else { 0 };

    fn copy(_from: ObjectReference, _semantics: CopySemantics, _copy_context: &mut GCWorkerCopyContext<UnitVM<P>>) -> ObjectReference {
        let p = COPY_CTX.with(|c| c.get());
        assert!(!p.is_null(), "UnitVM::copy without a CopyCtx");
        let ctx = unsafe { &*p };
        ctx.calls.fetch_add(1, Ordering::SeqCst);
        COPIES_BY_THIS_THREAD.with(|c| c.set(c.get() + 1));
        let a = ctx.next.fetch_add(64, Ordering::SeqCst);
        ObjectReference::from_raw_address(unsafe { Address::from_usize(a) }).unwrap()
    }

    fn copy_to(_from: ObjectReference, _to: ObjectReference, _region: Address) -> Address {
        unimplemented!()
    }
    fn get_reference_when_copied_to(_from: ObjectReference, to: Address) -> ObjectReference {
        ObjectReference::from_raw_address(to).unwrap()
    }
    fn get_current_size(_object: ObjectReference) -> usize {
        if P >= P_REF_OFFSET {
            UNIT_OBJECT_SIZE.with(|c| c.get())
        } else {
            32
        }
    }
    fn get_size_when_copied(_object: ObjectReference) -> usize {
        32
    }
    fn get_align_when_copied(_object: ObjectReference) -> usize {
        8
    }
    fn get_align_offset_when_copied(_object: ObjectReference) -> usize {
        0
    }
    fn get_type_descriptor(_reference: ObjectReference) -> &'static [i8] {
        unimplemented!()
    }
    fn ref_to_object_start(object: ObjectReference) -> Address {
        if P == P_REF_OFFSET {
            object.to_raw_address() - REF_OFFSET
        } else {
            object.to_raw_address()
        }
    }
    fn ref_to_header(object: ObjectReference) -> Address {
        object.to_raw_address()
    }
    fn dump_object(object: ObjectReference) {
        eprintln!("unit object {}", object);
    }
}

impl<const P: usize> ActivePlan<UnitVM<P>> for UnitVM<P> {
    fn is_mutator(_tls: VMThread) -> bool {
        unimplemented!()
    }
    fn mutator(_tls: VMMutatorThread) -> &'static mut Mutator<UnitVM<P>> {
        unimplemented!()
    }
    fn mutators<'a>() -> Box<dyn Iterator<Item = &'a mut Mutator<UnitVM<P>>> + 'a> {
        unimplemented!()
    }
    fn number_of_mutators() -> usize {
        unimplemented!()
    }
}

impl<const P: usize> Collection<UnitVM<P>> for UnitVM<P> {
    fn stop_all_mutators<F>(_tls: VMWorkerThread, _mutator_visitor: F)
    where
        F: FnMut(&'static mut Mutator<UnitVM<P>>),
    {
        unimplemented!()
    }
    fn resume_mutators(_tls: VMWorkerThread) {
        unimplemented!()
    }
    fn block_for_gc(_tls: VMMutatorThread) {
        unimplemented!()
    }
    fn spawn_gc_thread(_tls: VMThread, _ctx: GCThreadContext<UnitVM<P>>) {
        unimplemented!()
    }
}

impl<const P: usize> Scanning<UnitVM<P>> for UnitVM<P> {
    fn scan_object<SV: SlotVisitor<Address>>(_tls: VMWorkerThread, _object: ObjectReference, _slot_visitor: &mut SV) {
        unimplemented!()
    }
    fn notify_initial_thread_scan_complete(_partial_scan: bool, _tls: VMWorkerThread) {
        unimplemented!()
    }
    fn scan_roots_in_mutator_thread(_tls: VMWorkerThread, _mutator: &'static mut Mutator<UnitVM<P>>, _factory: impl RootsWorkFactory<Address>) {
        unimplemented!()
    }
    fn scan_vm_specific_roots(_tls: VMWorkerThread, _factory: impl RootsWorkFactory<Address>) {
        unimplemented!()
    }
    fn supports_return_barrier() -> bool {
        false
    }
    fn prepare_for_roots_re_scanning() {
        unimplemented!()
    }
}

impl<const P: usize> ReferenceGlue<UnitVM<P>> for UnitVM<P> {
    type FinalizableType = ObjectReference;
    fn clear_referent(_new_reference: ObjectReference) {
        unimplemented!()
    }
    fn get_referent(_object: ObjectReference) -> Option<ObjectReference> {
        unimplemented!()
    }
    fn set_referent(_reff: ObjectReference, _referent: ObjectReference) {
        unimplemented!()
    }
    fn enqueue_references(_references: &[ObjectReference], _tls: VMWorkerThread) {
        unimplemented!()
    }
}

/// Dispatch a run-time placement number to the const-generic binding: `with_unit_vm!(p, VM, { ... })`.
#[macro_export]
macro_rules! with_unit_vm {
    ($p:expr, $vm:ident, $body:expr) => {
        match $p {
            0 => { type $vm = $crate::unitvm::UnitVM<0>; $body }
            1 => { type $vm = $crate::unitvm::UnitVM<1>; $body }
            2 => { type $vm = $crate::unitvm::UnitVM<2>; $body }
            3 => { type $vm = $crate::unitvm::UnitVM<3>; $body }
            4 => { type $vm = $crate::unitvm::UnitVM<4>; $body }
            5 => { type $vm = $crate::unitvm::UnitVM<5>; $body }
            6 => { type $vm = $crate::unitvm::UnitVM<6>; $body }
            7 => { type $vm = $crate::unitvm::UnitVM<7>; $body }
            8 => { type $vm = $crate::unitvm::UnitVM<8>; $body }
            9 => { type $vm = $crate::unitvm::UnitVM<9>; $body }
            10 => { type $vm = $crate::unitvm::UnitVM<10>; $body }
            11 => { type $vm = $crate::unitvm::UnitVM<11>; $body }
            12 => { type $vm = $crate::unitvm::UnitVM<12>; $body }
            13 => { type $vm = $crate::unitvm::UnitVM<13>; $body }
            14 => { type $vm = $crate::unitvm::UnitVM<14>; $body }
            15 => { type $vm = $crate::unitvm::UnitVM<15>; $body }
            16 => { type $vm = $crate::unitvm::UnitVM<16>; $body }
            100 => { type $vm = $crate::unitvm::UnitVM<100>; $body }
            101 => { type $vm = $crate::unitvm::UnitVM<101>; $body }
            102 => { type $vm = $crate::unitvm::UnitVM<102>; $body }
            103 => { type $vm = $crate::unitvm::UnitVM<103>; $body }
            104 => { type $vm = $crate::unitvm::UnitVM<104>; $body }
            105 => { type $vm = $crate::unitvm::UnitVM<105>; $body }
            106 => { type $vm = $crate::unitvm::UnitVM<106>; $body }
            other => $crate::common::machinery_failure(&format!("unknown UnitVM placement {}", other)),
        }
    };
}
