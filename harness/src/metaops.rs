//! Shared subject for C20 (side metadata) and C23 (header metadata): a set of metadata *fields*
//! living in real memory, driven through the real accessors, against a shadow byte image kept by
//! an independent bit encoder.  After every operation the returned value must be the field's
//! previous value and the real memory windows must equal the shadow byte for byte (so any write
//! outside the field, into a neighbour sharing the byte or word, is caught).

use crate::seqx::Subject;
use mmtk::util::Address;
use serde_json::{json, Value};

#[derive(Clone, Copy, Debug)]
pub struct FieldLoc {
    pub byte: Address,
    pub shift: u32,
    pub bits: u32,
}

#[derive(Clone, Copy, Debug, PartialEq, Eq)]
pub enum Fetch {
    Add,
    Sub,
    And,
    Or,
}

pub trait Access {
    fn describe(&self) -> Value;
    fn nfields(&self) -> usize;
    /// Where field `f` lives, computed independently of the code under test.
    fn loc(&self, f: usize) -> FieldLoc;
    /// Optional mask used by the masked variants of load/store/compare-exchange on field `f`.
    fn mask(&self, _f: usize) -> Option<u64> {
        None
    }
    fn supports_set_zero(&self) -> bool {
        false
    }
    fn supports_nonatomic(&self) -> bool {
        true
    }
    /// Memory windows compared with the shadow after every operation.
    fn windows(&self) -> Vec<(Address, usize)>;
    fn background(&self) -> u8;
    fn load(&self, f: usize, atomic: bool, masked: bool) -> u64;
    fn store(&self, f: usize, v: u64, atomic: bool, masked: bool);
    fn cas(&self, f: usize, old: u64, new: u64, masked: bool) -> Result<u64, u64>;
    fn fetch(&self, f: usize, kind: Fetch, v: u64) -> u64;
    fn fetch_update(&self, f: usize, new: Option<u64>) -> Result<u64, u64>;
    fn set_zero(&self, _f: usize, _atomic: bool) {
        unreachable!()
    }
}

#[derive(Clone, Debug, PartialEq, Eq)]
pub enum Op {
    Load { f: usize, atomic: bool, masked: bool },
    Store { f: usize, v: u64, atomic: bool, masked: bool },
    Cas { f: usize, old: u64, new: u64, masked: bool },
    Fetch { f: usize, kind: Fetch, v: u64 },
    FetchUpdate { f: usize, new: Option<u64> },
    SetZero { f: usize, atomic: bool },
}

pub fn max_of(bits: u32) -> u64 {
    if bits >= 64 {
        u64::MAX
    } else {
        (1u64 << bits) - 1
    }
}

pub struct MetaSubject<A: Access> {
    pub a: A,
    pub name: String,
    windows: Vec<(Address, usize)>,
}

pub struct St {
    pub shadow: Vec<Vec<u8>>,
}

impl<A: Access> MetaSubject<A> {
    pub fn new(a: A, name: &str) -> Self {
        let windows = a.windows();
        MetaSubject { a, name: name.to_string(), windows }
    }
    fn shadow_byte<'a>(&self, st: &'a mut St, addr: Address) -> &'a mut u8 {
        for (i, (s, n)) in self.windows.iter().enumerate() {
            if addr >= *s && addr < *s + *n {
                return &mut st.shadow[i][addr - *s];
            }
        }
        panic!("field byte {} outside every watch window", addr);
    }
    /// value of field f according to the shadow image
    pub fn get(&self, st: &St, f: usize) -> u64 {
        let l = self.a.loc(f);
        let nbytes = ((l.shift + l.bits + 7) / 8) as usize;
        let mut raw: u128 = 0;
        for k in 0..nbytes {
            let addr = l.byte + k;
            let mut b = 0u8;
            for (i, (s, n)) in self.windows.iter().enumerate() {
                if addr >= *s && addr < *s + *n {
                    b = st.shadow[i][addr - *s];
                }
            }
            raw |= (b as u128) << (8 * k);
        }
        ((raw >> l.shift) as u64) & max_of(l.bits)
    }
    pub fn set(&self, st: &mut St, f: usize, v: u64) {
        let l = self.a.loc(f);
        let v = v & max_of(l.bits);
        let nbytes = ((l.shift + l.bits + 7) / 8) as usize;
        let field_mask: u128 = (max_of(l.bits) as u128) << l.shift;
        let val: u128 = (v as u128) << l.shift;
        for k in 0..nbytes {
            let m = ((field_mask >> (8 * k)) & 0xff) as u8;
            let x = ((val >> (8 * k)) & 0xff) as u8;
            let b = self.shadow_byte(st, l.byte + k);
            *b = (*b & !m) | (x & m);
        }
    }
    /// closed value domain of field f (see DESIGN C20/C23)
    pub fn domain(&self, f: usize) -> Vec<u64> {
        let l = self.a.loc(f);
        let max = max_of(l.bits);
        let mut d = match self.a.mask(f) {
            Some(m) => vec![0, max, m & max, !m & max],
            None => vec![0, 1 & max, max, 0xA5A5_A5A5_A5A5_A5A5u64 & max],
        };
        d.sort();
        d.dedup();
        d
    }
}

impl<A: Access> Subject for MetaSubject<A> {
    type Op = Op;
    type State = St;
    type Snap = Vec<Vec<u8>>;
    fn name(&self) -> String {
        format!("{}[{}]", self.name, self.a.describe())
    }
    fn fresh(&self) -> St {
        let bg = self.a.background();
        let st = St { shadow: self.windows.iter().map(|(_, n)| vec![bg; *n]).collect() };
        self.write_back(&st);
        st
    }
    fn snapshot(&self, st: &St) -> Option<Self::Snap> {
        Some(st.shadow.clone())
    }
    fn restore(&self, snap: &Self::Snap) -> St {
        let st = St { shadow: snap.clone() };
        self.write_back(&st);
        st
    }
    fn enabled(&self, st: &St) -> Vec<Op> {
        let mut ops = vec![];
        for f in 0..self.a.nfields() {
            let cur = self.get(st, f);
            let d = self.domain(f);
            let masked_opts: &[bool] = if self.a.mask(f).is_some() { &[false, true] } else { &[false] };
            let atomics: &[bool] = if self.a.supports_nonatomic() { &[true, false] } else { &[true] };
            for &masked in masked_opts {
                for &atomic in atomics {
                    ops.push(Op::Load { f, atomic, masked });
                    for &v in &d {
                        ops.push(Op::Store { f, v, atomic, masked });
                    }
                }
                // masked compare-exchange: the values passed must lie inside the mask (the bits
                // outside it are taken from the current contents by the accessor)
                let inside = |x: u64| !masked || x & !self.a.mask(f).unwrap() == 0;
                let cur_old = if masked { cur & self.a.mask(f).unwrap() } else { cur };
                let other = d.iter().copied().find(|x| *x != cur_old && inside(*x));
                for &new in d.iter().filter(|x| inside(**x)) {
                    ops.push(Op::Cas { f, old: cur_old, new, masked });
                    if let Some(o) = other {
                        ops.push(Op::Cas { f, old: o, new, masked });
                    }
                }
            }
            let max = max_of(self.a.loc(f).bits);
            for &target in &d {
                ops.push(Op::Fetch { f, kind: Fetch::Add, v: target.wrapping_sub(cur) & max });
                ops.push(Op::Fetch { f, kind: Fetch::Sub, v: cur.wrapping_sub(target) & max });
                ops.push(Op::Fetch { f, kind: Fetch::And, v: target });
                ops.push(Op::Fetch { f, kind: Fetch::Or, v: target });
                ops.push(Op::FetchUpdate { f, new: Some(target) });
            }
            ops.push(Op::FetchUpdate { f, new: None });
            if self.a.supports_set_zero() {
                ops.push(Op::SetZero { f, atomic: true });
                ops.push(Op::SetZero { f, atomic: false });
            }
        }
        ops
    }
    fn apply(&self, st: &mut St, op: &Op) -> Result<bool, String> {
        // non-trivial: the operation ran on a field whose neighbourhood (same byte / adjacent
        // bytes inside the watch window) holds non-zero bits of another field or background
        let nontrivial = |s: &Self, st: &St, f: usize| -> bool {
            let l = s.a.loc(f);
            let lo = l.byte - 1usize;
            let hi = l.byte + ((l.shift + l.bits + 7) / 8) as usize;
            let mut any = false;
            for (i, (w, n)) in s.windows.iter().enumerate() {
                for a in [lo, l.byte, hi] {
                    if a >= *w && a < *w + *n {
                        let b = st.shadow[i][a - *w];
                        let own: u8 = if a == l.byte && l.bits < 8 { ((max_of(l.bits) as u8) << l.shift) as u8 } else { 0 };
                        if a == l.byte && l.bits >= 8 {
                            continue;
                        }
                        if b & !own != 0 {
                            any = true;
                        }
                    }
                }
            }
            any
        };
        match *op {
            Op::Load { f, atomic, masked } => {
                let cur = self.get(st, f);
                let want = if masked { cur & self.a.mask(f).unwrap() } else { cur };
                let got = self.a.load(f, atomic, masked);
                if got != want {
                    return Err(format!("load returned {:#x}, field holds {:#x}", got, want));
                }
                Ok(nontrivial(self, st, f))
            }
            Op::Store { f, v, atomic, masked } => {
                let cur = self.get(st, f);
                let new = if masked {
                    let m = self.a.mask(f).unwrap();
                    (cur & !m) | (v & m)
                } else {
                    v
                };
                self.a.store(f, v, atomic, masked);
                self.set(st, f, new);
                Ok(nontrivial(self, st, f))
            }
            Op::Cas { f, old, new, masked } => {
                let cur = self.get(st, f);
                let (matches, newval) = if masked {
                    let m = self.a.mask(f).unwrap();
                    ((cur & m) == (old & m), (cur & !m) | (new & m))
                } else {
                    (cur == old, new)
                };
                let got = self.a.cas(f, old, new, masked);
                let want: Result<u64, u64> = if matches { Ok(cur) } else { Err(cur) };
                if matches {
                    self.set(st, f, newval);
                }
                if got != want {
                    return Err(format!("compare_exchange({:#x} -> {:#x}) on field holding {:#x} returned {:x?}, expected {:x?}", old, new, cur, got, want));
                }
                Ok(nontrivial(self, st, f))
            }
            Op::Fetch { f, kind, v } => {
                let cur = self.get(st, f);
                let max = max_of(self.a.loc(f).bits);
                let new = match kind {
                    Fetch::Add => cur.wrapping_add(v) & max,
                    Fetch::Sub => cur.wrapping_sub(v) & max,
                    Fetch::And => cur & v,
                    Fetch::Or => cur | v,
                };
                let got = self.a.fetch(f, kind, v);
                self.set(st, f, new);
                if got != cur {
                    return Err(format!("fetch_{:?}({:#x}) returned {:#x}, field held {:#x}", kind, v, got, cur));
                }
                Ok(nontrivial(self, st, f))
            }
            Op::FetchUpdate { f, new } => {
                let cur = self.get(st, f);
                let got = self.a.fetch_update(f, new);
                let want: Result<u64, u64> = if new.is_some() { Ok(cur) } else { Err(cur) };
                if let Some(n) = new {
                    self.set(st, f, n);
                }
                if got != want {
                    return Err(format!("fetch_update returned {:x?}, expected {:x?}", got, want));
                }
                Ok(nontrivial(self, st, f))
            }
            Op::SetZero { f, atomic } => {
                self.a.set_zero(f, atomic);
                self.set(st, f, 0);
                Ok(nontrivial(self, st, f))
            }
        }
    }
    fn check(&self, st: &St) -> Result<(), String> {
        for (i, (s, n)) in self.windows.iter().enumerate() {
            let real = unsafe { std::slice::from_raw_parts(s.to_ptr::<u8>(), *n) };
            if real != st.shadow[i].as_slice() {
                let k = (0..*n).find(|k| real[*k] != st.shadow[i][*k]).unwrap();
                return Err(format!("memory at {} (window {} + {}) is {:#04x}, expected {:#04x}: a bit outside the field changed or the field holds the wrong value", *s + k, s, k, real[k], st.shadow[i][k]));
            }
        }
        Ok(())
    }
    fn key(&self, st: &St) -> Vec<u8> {
        let mut k = vec![];
        for f in 0..self.a.nfields() {
            k.extend_from_slice(&self.get(st, f).to_le_bytes());
        }
        k
    }
    fn op_json(&self, op: &Op) -> Value {
        match *op {
            Op::Load { f, atomic, masked } => json!({"op": "load", "f": f, "atomic": atomic, "masked": masked}),
            Op::Store { f, v, atomic, masked } => json!({"op": "store", "f": f, "v": v, "atomic": atomic, "masked": masked}),
            Op::Cas { f, old, new, masked } => json!({"op": "cas", "f": f, "old": old, "new": new, "masked": masked}),
            Op::Fetch { f, kind, v } => json!({"op": "fetch", "f": f, "kind": format!("{:?}", kind), "v": v}),
            Op::FetchUpdate { f, new } => json!({"op": "fetch_update", "f": f, "new": new}),
            Op::SetZero { f, atomic } => json!({"op": "set_zero", "f": f, "atomic": atomic}),
        }
    }
    fn signature(&self, op: &Op, _msg: &str) -> String {
        let bits = match op {
            Op::Load { f, .. } | Op::Store { f, .. } | Op::Cas { f, .. } | Op::Fetch { f, .. } | Op::FetchUpdate { f, .. } | Op::SetZero { f, .. } => self.a.loc(*f).bits,
        };
        let w = if bits < 8 { "subbyte" } else { "wide" };
        match op {
            Op::Load { masked, .. } => format!("load{}:{}", if *masked { "_masked" } else { "" }, w),
            Op::Store { atomic, masked, .. } => format!("store{}{}:{}", if *atomic { "_atomic" } else { "" }, if *masked { "_masked" } else { "" }, w),
            Op::Cas { masked, .. } => format!("compare_exchange{}:{}", if *masked { "_masked" } else { "" }, w),
            Op::Fetch { kind, .. } => format!("fetch_{:?}:{}", kind, w).to_lowercase(),
            Op::FetchUpdate { .. } => format!("fetch_update:{}", w),
            Op::SetZero { .. } => format!("set_zero:{}", w),
        }
    }
}

impl<A: Access> MetaSubject<A> {
    fn write_back(&self, st: &St) {
        for (i, (s, n)) in self.windows.iter().enumerate() {
            unsafe { std::ptr::copy_nonoverlapping(st.shadow[i].as_ptr(), s.to_mut_ptr::<u8>(), *n) };
        }
    }
}

pub fn op_from_json(v: &Value) -> Op {
    let f = v["f"].as_u64().unwrap_or(0) as usize;
    let b = |k: &str| v[k].as_bool().unwrap_or(false);
    let u = |k: &str| v[k].as_u64().unwrap_or(0);
    match v["op"].as_str().unwrap_or("") {
        "load" => Op::Load { f, atomic: b("atomic"), masked: b("masked") },
        "store" => Op::Store { f, v: u("v"), atomic: b("atomic"), masked: b("masked") },
        "cas" => Op::Cas { f, old: u("old"), new: u("new"), masked: b("masked") },
        "fetch" => Op::Fetch {
            f,
            kind: match v["kind"].as_str().unwrap_or("") {
                "Add" => Fetch::Add,
                "Sub" => Fetch::Sub,
                "And" => Fetch::And,
                _ => Fetch::Or,
            },
            v: u("v"),
        },
        "fetch_update" => Op::FetchUpdate { f, new: v["new"].as_u64() },
        _ => Op::SetZero { f, atomic: b("atomic") },
    }
}
