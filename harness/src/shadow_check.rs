//! Generic driver for `shadowvm` properties: the parent spawns one child process per plan
//! (an `MMTK` instance exists once per process), each child enumerates the profile's programs
//! and runs them back to back on its instance; results are merged into the parent's `Run`.

use crate::common::{catch, emit_child_result, machinery_failure, run_children, Run, Tier};
use crate::progs::{enumerate, prog_from_json, prog_json, run_program, Alphabet, Op, ProgFacts};
use crate::shadowvm::{install_crash_handlers, set_current_case, worker_panic_to_crash, BootCfg, World};
use serde_json::{json, Value};
use std::collections::HashSet;
use std::hash::{Hash, Hasher};

pub struct Profile {
    pub id: &'static str,
    pub plans: fn(Tier) -> Vec<&'static str>,
    /// variants of the alphabet explored in separate child processes per plan (so that a failure
    /// that stops one variant does not stop the others); "" = the only variant
    pub variants: fn(&str, Tier) -> Vec<&'static str>,
    pub alphabet: fn(&str, &str, Tier) -> Alphabet,
    pub depth: fn(&str, &str, Tier) -> usize,
    pub boot: fn(&str, &str, Tier) -> BootCfg,
    /// which failure classes (signature prefixes) are violations of *this* property
    pub owns: fn(&str) -> bool,
    /// which programs count as non-trivial for this property
    pub nontrivial: fn(&ProgFacts) -> bool,
    pub filter: fn(&str, &[Op]) -> bool,
    pub rule: &'static str,
    /// extra per-program oracle, run after the program's closing collection
    pub post: Option<fn(&mut World, &[Op]) -> Result<(), crate::shadowvm::Fail>>,
    /// run every program of depth <= this in a fresh process as well (0 = never)
    pub timeout_s: fn(Tier) -> u64,
}

/// Additional integer counters that a profile's oracles (`post`, `post_gc_hook`) want in the
/// evidence; `child` adds them to its result (summed over the children by the parent).
pub static EXTRA_COUNTERS: std::sync::Mutex<std::collections::BTreeMap<String, u64>> = std::sync::Mutex::new(std::collections::BTreeMap::new());

pub fn count(key: &str, n: u64) {
    *EXTRA_COUNTERS.lock().unwrap_or_else(|p| p.into_inner()).entry(key.to_string()).or_insert(0) += n;
}

/// A stable name for a panic: source file name + the first words of the message (numbers and
/// addresses dropped), e.g. `helper.rs:vo_bit_not_set`.  Line numbers are deliberately left out.
pub fn panic_slug(text: &str) -> String {
    // text = "<file>:<line>:<col>: <message>"
    let file = text.split(':').next().unwrap_or("");
    let file = file.rsplit('/').next().unwrap_or(file);
    let msg = text.splitn(4, ':').nth(3).unwrap_or("");
    let words: Vec<String> = msg
        .split(|c: char| !c.is_alphanumeric())
        .filter(|w| !w.is_empty() && !w.chars().next().unwrap().is_ascii_digit() && !(w.len() >= 6 && w.chars().all(|c| c.is_ascii_hexdigit())))
        .take(5)
        .map(|w| w.to_lowercase())
        .collect();
    format!(":{}:{}", file, words.join("_"))
}

/// Debugging aid: attribute every failure class to the running check.
fn own_all() -> bool {
    std::env::var("VERIF_OWN_ALL").is_ok()
}

pub fn canonical_shadow(w: &World) -> u64 {
    // graph shape up to renaming: DFS from the roots in slot order, numbering objects on first
    // visit; per object: size, semantics, age class, pinned, field targets (numbers)
    let mut num: std::collections::HashMap<u64, usize> = std::collections::HashMap::new();
    let mut out: Vec<u64> = vec![];
    let mut stack: Vec<u64> = vec![];
    for r in w.shadow.roots.iter() {
        match r {
            None => out.push(u64::MAX - 1),
            Some(r) => {
                for s in r.iter().take(crate::progs::SLOTS) {
                    match s {
                        None => out.push(u64::MAX),
                        Some(id) => {
                            let n = num.len();
                            let k = *num.entry(*id).or_insert_with(|| {
                                stack.push(*id);
                                n
                            });
                            out.push(k as u64);
                            while let Some(x) = stack.pop() {
                                let o = &w.shadow.objs[&x];
                                out.push(o.size as u64);
                                out.push(o.sem as u64);
                                out.push(o.age.min(2) as u64);
                                out.push(o.pinned as u64);
                                for f in &o.fields {
                                    match f {
                                        None => out.push(u64::MAX),
                                        Some(t) => {
                                            let n = num.len();
                                            let k = *num.entry(*t).or_insert_with(|| {
                                                stack.push(*t);
                                                n
                                            });
                                            out.push(k as u64);
                                        }
                                    }
                                }
                            }
                        }
                    }
                }
            }
        }
    }
    let mut h = std::collections::hash_map::DefaultHasher::new();
    out.hash(&mut h);
    h.finish()
}

pub fn run(profile: &Profile, run: &mut Run) {
    let mut plans = (profile.plans)(run.tier);
    if cfg!(feature = "fs_s4") {
        // configuration s4a differs from s1a in one respect that matters to these checks: the
        // native mark-sweep space sweeps lazily; only plan MarkSweep uses that space
        plans.retain(|p| *p == "MarkSweep");
    }
    let mut jobs: Vec<(&str, &str)> = vec![];
    for p in &plans {
        for v in (profile.variants)(p, run.tier) {
            jobs.push((p, v));
        }
    }
    let args: Vec<Vec<String>> = jobs.iter().map(|(p, v)| vec!["--child".to_string(), profile.id.to_string(), p.to_string(), run.tier.name().to_string(), "run".to_string(), v.to_string()]).collect();
    let results = run_children(args, run.jobs, (profile.timeout_s)(run.tier));
    let names: Vec<String> = jobs.iter().map(|(p, v)| if v.is_empty() { p.to_string() } else { format!("{}/{}", p, v) }).collect();
    absorb(profile, run, &names.iter().map(|s| s.as_str()).collect::<Vec<_>>(), results);
    run.set("rule", profile.rule);
    run.set("plans", json!(plans));
    run.set("placement", crate::vm::PLACEMENT);
    run.set("features", json!(crate::shadowvm::feature_set()));
}

pub fn absorb(profile: &Profile, run: &mut Run, plans: &[&str], results: Vec<Value>) {
    for (plan, r) in plans.iter().zip(results) {
        if r.get("child_crashed").is_some() {
            let crash = r["crash"].as_str().unwrap_or("");
            let (sig, rest) = crash.split_once(' ').unwrap_or((crash, ""));
            let (case_s, detail) = rest.split_once(" ||| ").unwrap_or((rest, ""));
            let case: Value = serde_json::from_str(case_s).unwrap_or(json!({"plan": plan, "raw": case_s}));
            let loc = detail.split("panicked at ").nth(1).map(panic_slug);
            let class = format!("crash:{}{}", sig, loc.unwrap_or_default());
            if own_all() || (profile.owns)(&class) {
                run.violation(format!("{}:{}", class, plan), format!("plan {}: the process died ({}) while running the program {} {}", plan, sig, case["program"], detail), case);
            } else {
                run.assume(&format!("plan {}: exploration stopped by a crash ({}) that belongs to another property's failure class", plan, sig));
                run.set("exhaustive", false);
            }
            run.add("children_crashed", 1);
            continue;
        }
        if r.get("child_died").is_some() {
            machinery_failure(&format!("child for plan {} died without a result: {}", plan, r));
        }
        run.absorb_child_json(&r);
    }
}

/// Child process: boot the plan, run the programs (or replay one).
pub fn child(profile: &Profile, args: &[String]) -> ! {
    let plan = args[0].as_str();
    let tier = if args.get(1).map(|s| s.as_str()) == Some("thorough") { Tier::Thorough } else { Tier::Quick };
    install_crash_handlers();
    let _ = crate::common::WORKER_PANIC_HANDLER.set(Box::new(worker_panic_to_crash));
    crate::vm::HANG_AS_CRASH.store(true, std::sync::atomic::Ordering::SeqCst);
    let variant = args.get(3).map(|s| s.as_str()).unwrap_or("");
    let cfg = (profile.boot)(plan, variant, tier);
    set_current_case(&json!({"plan": plan, "program": "boot"}));
    let mut w = World::boot(cfg.clone());
    let mut sub = Run::new(profile.id, tier);
    let alphabet = (profile.alphabet)(plan, variant, tier);
    let depth = (profile.depth)(plan, variant, tier);
    let label = if variant.is_empty() { plan.to_string() } else { format!("{}/{}", plan, variant) };
    let progs: Vec<Vec<Op>> = if args.get(2).map(|s| s.as_str()) == Some("replay") {
        let p = prog_from_json(&serde_json::from_str::<Value>(&args[4]).unwrap_or(Value::Null));
        if args.get(5).map(|s| s.as_str()) == Some("prefix") {
            // the failure depended on the history: replay the enumeration up to the ordinal
            let n: usize = args[6].parse().unwrap_or(0);
            let mut all = enumerate(&alphabet, depth, &|p: &[Op]| (profile.filter)(variant, p));
            all.truncate(n + 1);
            all
        } else {
            vec![p]
        }
    } else {
        enumerate(&alphabet, depth, &|p: &[Op]| (profile.filter)(variant, p))
    };
    let mut states: HashSet<u64> = HashSet::new();
    let mut nontrivial = 0u64;
    let mut evaluated = 0u64;
    let mut stopped = false;
    let total = progs.len();
    for (i, p) in progs.iter().enumerate() {
        let case = json!({"plan": plan, "variant": variant, "ordinal": i, "program": prog_json(p), "boot": cfg.json()});
        set_current_case(&case);
        let r = catch(|| {
            let f = run_program(&mut w, p)?;
            if let Some(post) = profile.post {
                post(&mut w, p)?;
            }
            Ok::<ProgFacts, crate::shadowvm::Fail>(f)
        });
        evaluated += 1;
        let failure: Option<(String, String)> = match r {
            Ok(Ok(f)) => {
                if (profile.nontrivial)(&f) {
                    nontrivial += 1;
                }
                states.insert(canonical_shadow(&w));
                if i % (total / 5 + 1) == 0 {
                    sub.sample(json!({"plan": plan, "program": prog_json(p), "gcs": f.gcs, "objects_moved": f.moved, "objects_verified": f.verified}));
                }
                match catch(|| w.reset()) {
                    Ok(Ok(())) => None,
                    Ok(Err(e)) => Some(e),
                    Err(pm) => Some((format!("panic{}", panic_slug(&format!("{}:0: {}", crate::common::last_panic_location(), pm))), format!("panic in the closing reset: {}", pm))),
                }
            }
            Ok(Err(e)) => Some(e),
            Err(pm) => Some((format!("panic{}", panic_slug(&format!("{}:0: {}", crate::common::last_panic_location(), pm))), format!("panic at {}: {}", crate::common::last_panic_location(), pm.lines().next().unwrap_or("")))),
        };
        if let Some((sig, msg)) = failure {
            if own_all() || (profile.owns)(&sig) {
                sub.violation(format!("{}:{}", sig, label), format!("plan {} program #{} {}: {}", label, i, prog_json(p), msg), case);
            } else {
                sub.assume(&format!("plan {}: exploration stopped at program #{} by a failure of another property's class ({})", plan, i, sig));
                sub.set("foreign_failures", json!([format!("{}: {} (program {})", sig, msg, prog_json(p))]));
            }
            // the instance is no longer trustworthy: stop this plan
            stopped = true;
            break;
        }
    }
    sub.add("states", states.len() as u64);
    sub.add("transitions", w.stats.ops);
    sub.add("evaluations", evaluated);
    sub.add("traces_validated_against_impl", evaluated);
    sub.add("distinct_nontrivial", nontrivial);
    sub.add("collections", w.stats.gcs);
    sub.add("objects_moved", w.stats.objects_moved);
    sub.add("objects_verified", w.stats.objects_verified);
    sub.add("collections_with_live_and_dead", w.stats.gcs_with_live_and_dead);
    for (k, v) in EXTRA_COUNTERS.lock().unwrap_or_else(|p| p.into_inner()).iter() {
        sub.add(k, *v);
    }
    sub.set("max_depth", depth as u64);
    sub.set("exhaustive", !stopped);
    sub.set("per_plan", json!({label: {"programs": evaluated, "depth": depth, "collections": w.stats.gcs, "objects_moved": w.stats.objects_moved, "nontrivial": nontrivial}}));
    emit_child_result(&sub.to_child_json());
}

/// Replay one recorded program in a fresh process; if it passes there, replay the enumeration
/// prefix that preceded it.
pub fn replay(profile: &Profile, case: &Value, run: &mut Run) {
    let plan = case["plan"].as_str().unwrap_or("SemiSpace").to_string();
    let prog = serde_json::to_string(&case["program"]).unwrap();
    let ord = case["ordinal"].as_u64().unwrap_or(0).to_string();
    let variant = case["variant"].as_str().unwrap_or("").to_string();
    let base = vec!["--child".to_string(), profile.id.to_string(), plan.clone(), run.tier.name().to_string(), "replay".to_string(), variant, prog];
    let r = run_children(vec![base.clone()], 1, 600);
    let before = run.violations.len();
    absorb(profile, run, &[plan.as_str()], r);
    if run.violations.len() == before {
        let mut a = base;
        a.push("prefix".to_string());
        a.push(ord);
        let r = run_children(vec![a], 1, (profile.timeout_s)(run.tier));
        absorb(profile, run, &[plan.as_str()], r);
    }
}
