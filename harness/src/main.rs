//! mmtk-verif: model-checking harness for the 40 properties of mmtk-core (see /verif/DESIGN.md).
//!
//! usage: mmtk-verif <ID> [--tier quick|thorough] [--replay <file>]
//!        mmtk-verif --child <ID> <args...>      (internal: worker process)

#![allow(clippy::type_complexity)]
#![allow(dead_code)]

mod baton;
mod common;
mod metaops;
mod monitors;
mod progs;
mod shadow_check;
mod shadowvm;
mod unitvm;
mod props;
mod seqx;
mod vm;

use common::{Run, Tier};

fn main() {
    let args: Vec<String> = std::env::args().skip(1).collect();
    if args.is_empty() {
        eprintln!("usage: mmtk-verif <ID> [--tier quick|thorough] [--replay <file>]");
        std::process::exit(2);
    }
    common::quiet_panics();
    if args[0] == "--child" {
        let id = args[1].clone();
        props::child(&id, &args[2..]);
        common::machinery_failure("child returned without result");
    }
    let id = args[0].to_uppercase();
    let mut tier = match std::env::var("VERIF_TIER").as_deref() {
        Ok("thorough") => Tier::Thorough,
        _ => Tier::Quick,
    };
    let mut replay: Option<String> = None;
    let mut partial: Option<String> = None;
    let mut i = 1;
    while i < args.len() {
        match args[i].as_str() {
            "--tier" => {
                tier = match args.get(i + 1).map(|s| s.as_str()) {
                    Some("quick") => Tier::Quick,
                    Some("thorough") => Tier::Thorough,
                    _ => common::machinery_failure("bad --tier"),
                };
                i += 2;
            }
            "--partial" => {
                partial = args.get(i + 1).cloned();
                i += 2;
            }
            _ if id == "--MERGE" => i += 1,
            "--replay" => {
                replay = args.get(i + 1).cloned();
                i += 2;
            }
            other => common::machinery_failure(&format!("unknown argument {}", other)),
        }
    }
    if id == "--MERGE" {
        // mmtk-verif --merge <ID> <partial files...>: combine the partial results of several
        // build configurations (feature sets / metadata placements) into one evidence file
        let pid = args.get(1).cloned().unwrap_or_default().to_uppercase();
        let mut run = Run::new(&pid, tier);
        let mut builds = vec![];
        let mut wall = 0.0f64;
        for f in args.iter().skip(2).filter(|a| !a.starts_with("--") && *a != "quick" && *a != "thorough") {
            let s = std::fs::read_to_string(f).unwrap_or_else(|_| common::machinery_failure(&format!("cannot read partial result {}", f)));
            let v: serde_json::Value = serde_json::from_str(&s).unwrap_or_else(|_| common::machinery_failure("partial result does not parse"));
            builds.push(v["build"].clone());
            wall += v["wall_s"].as_f64().unwrap_or(0.0);
            run.absorb_child_json(&v);
        }
        // the merged evidence reports the time the configurations took together
        if let Some(t) = run.start.checked_sub(std::time::Duration::from_secs_f64(wall)) {
            run.start = t;
        }
        run.set("builds", serde_json::Value::Array(builds));
        run.finish();
    }
    let mut run = Run::new(&id, tier);
    if let Some(path) = replay {
        let s = std::fs::read_to_string(&path).unwrap_or_else(|_| common::machinery_failure("cannot read replay file"));
        let v: serde_json::Value = serde_json::from_str(&s).unwrap_or_else(|_| common::machinery_failure("replay file does not parse"));
        run.replay_mode = true;
        props::replay(&id, &v["case"], &mut run);
        run.finish();
    }
    props::run(&id, &mut run);
    if let Some(path) = partial {
        // one build configuration of a multi-build check: hand the result to the merging run
        let mut v = run.to_child_json();
        v["build"] = serde_json::json!({"features": shadowvm::feature_set(), "placement": vm::PLACEMENT});
        v["wall_s"] = serde_json::json!(run.start.elapsed().as_secs_f64());
        for x in v["violations"].as_array_mut().into_iter().flatten() {
            let sig = format!("{}[{}]", x["signature"].as_str().unwrap_or(""), build_tag());
            x["case"]["build"] = serde_json::json!(build_tag());
            if build_tag() != "s1a" {
                x["signature"] = serde_json::json!(sig);
            }
        }
        if std::fs::write(&path, serde_json::to_string(&v).unwrap()).is_err() {
            common::machinery_failure("cannot write partial result");
        }
        std::process::exit(0);
    }
    run.finish();
}

/// Name of the build configuration this binary was compiled as (see `check`).
pub fn build_tag() -> &'static str {
    let b = cfg!(feature = "placement_b");
    if cfg!(feature = "fs_s3") {
        if b { "s3b" } else { "s3a" }
    } else if cfg!(feature = "fs_s2") {
        if b { "s2b" } else { "s2a" }
    } else if cfg!(feature = "fs_s4") {
        if b { "s4b" } else { "s4a" }
    } else if b {
        "s1b"
    } else {
        "s1a"
    }
}
