//! mmtk-verif: model-checking harness for the 40 properties of mmtk-core (see /verif/DESIGN.md).
//!
//! usage: mmtk-verif <ID> [--tier quick|thorough] [--replay <file>]
//!        mmtk-verif --child <ID> <args...>      (internal: worker process)

#![allow(clippy::type_complexity)]
#![allow(dead_code)]

mod common;
mod metaops;
mod monitors;
mod progs;
mod shadow_check;
mod shadowvm;
mod props;
mod seqx;
mod vm;

use common::{Run, Tier};

fn main() {
    let args: Vec<String> = std::env::args().skip(1).collect();
    if args.is_empty() {
        eprintln!("usage: mmtk-verif <ID> [--tier quick|thorough] [--replay <file>]");
        std::process::exit(2);
    }
    common::quiet_panics();
    if args[0] == "--child" {
        let id = args[1].clone();
        props::child(&id, &args[2..]);
        common::machinery_failure("child returned without result");
    }
    let id = args[0].to_uppercase();
    let mut tier = match std::env::var("VERIF_TIER").as_deref() {
        Ok("thorough") => Tier::Thorough,
        _ => Tier::Quick,
    };
    let mut replay: Option<String> = None;
    let mut i = 1;
    while i < args.len() {
        match args[i].as_str() {
            "--tier" => {
                tier = match args.get(i + 1).map(|s| s.as_str()) {
                    Some("quick") => Tier::Quick,
                    Some("thorough") => Tier::Thorough,
                    _ => common::machinery_failure("bad --tier"),
                };
                i += 2;
            }
            "--replay" => {
                replay = args.get(i + 1).cloned();
                i += 2;
            }
            other => common::machinery_failure(&format!("unknown argument {}", other)),
        }
    }
    let mut run = Run::new(&id, tier);
    if let Some(path) = replay {
        let s = std::fs::read_to_string(&path).unwrap_or_else(|_| common::machinery_failure("cannot read replay file"));
        let v: serde_json::Value = serde_json::from_str(&s).unwrap_or_else(|_| common::machinery_failure("replay file does not parse"));
        run.replay_mode = true;
        props::replay(&id, &v["case"], &mut run);
        run.finish();
    }
    props::run(&id, &mut run);
    run.finish();
}
