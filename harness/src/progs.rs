//! Mutator programs for `shadowvm`: the operation alphabet, a bounded-exhaustive enumerator
//! (all programs up to a depth over a profile's alphabet, in simplest-first order, with the
//! symmetry / no-op pruning described in DESIGN.md 4.3) and the interpreter that runs a program
//! on a `World`.

use crate::shadowvm::{Fail, Sem, World};
use serde_json::{json, Value};

pub const NULL: u8 = 0xff;
/// Root slots used per mutator by programs.
pub const SLOTS: usize = 3;

#[derive(Clone, Copy, Debug, PartialEq, Eq, Hash)]
pub enum Op {
    /// allocate an object with two reference fields into the lowest empty root slot of `m`
    Alloc { m: u8, size: u32, sem: Sem },
    /// roots[m][src].field <- roots[dm][dst] (or null), through the barrier of mutator `m`
    Write { m: u8, src: u8, field: u8, dm: u8, dst: u8 },
    /// allocate `count` objects of `size` bytes; every `keep`-th is kept, linked through field 0
    /// into a list whose head goes into the lowest empty root slot of `m` (fragments the heap)
    Burst { m: u8, size: u32, count: u16, keep: u8 },
    /// allocate a key object into the lowest empty root slot of `m` and a chain of `n` unrooted
    /// values v1..vn with weak-table entries (key -> v1), (v1 -> v2), ... (needs n extra rounds)
    EphChain { m: u8, n: u8 },
    /// weak-table entry (roots[m][key] -> roots[m][value])
    Eph { m: u8, key: u8, value: u8 },
    /// a fixed grid of unrooted allocations with non-trivial alignment / offset: sizes around
    /// page multiples (small and large-object space) and a long run of small over-aligned
    /// objects; every result is checked for overlap with what was handed out before
    AlignBurst { m: u8 },
    /// with most of the heap held by a rooted large object: three large allocation requests with
    /// `at_safepoint = false` (refused with null: they would need a collection), then drop the filler
    RefusedAllocs { m: u8 },
    Drop { m: u8, slot: u8 },
    Gc { m: u8, full: bool },
    Pin { m: u8, slot: u8 },
    Unpin { m: u8, slot: u8 },
    /// the second mutator allocates an object that goes into the lowest empty root slot of the
    /// FIRST mutator (so that it outlives its allocating mutator)
    AllocBy1 { size: u32 },
    /// bind / destroy the second mutator
    Bind1,
    Destroy1,
}

impl Op {
    pub fn json(&self) -> Value {
        match *self {
            Op::Alloc { m, size, sem } => json!({"op": "alloc", "m": m, "size": size, "sem": sem.name()}),
            Op::Write { m, src, field, dm, dst } => json!({"op": "write", "m": m, "src": src, "field": field, "dm": dm, "dst": if dst == NULL { Value::Null } else { json!(dst) }}),
            Op::Burst { m, size, count, keep } => json!({"op": "burst", "m": m, "size": size, "count": count, "keep": keep}),
            Op::EphChain { m, n } => json!({"op": "ephchain", "m": m, "n": n}),
            Op::Eph { m, key, value } => json!({"op": "eph", "m": m, "key": key, "value": value}),
            Op::AlignBurst { m } => json!({"op": "alignburst", "m": m}),
            Op::RefusedAllocs { m } => json!({"op": "refusedallocs", "m": m}),
            Op::Drop { m, slot } => json!({"op": "drop", "m": m, "slot": slot}),
            Op::Gc { m, full } => json!({"op": "gc", "m": m, "full": full}),
            Op::Pin { m, slot } => json!({"op": "pin", "m": m, "slot": slot}),
            Op::Unpin { m, slot } => json!({"op": "unpin", "m": m, "slot": slot}),
            Op::AllocBy1 { size } => json!({"op": "allocby1", "size": size}),
            Op::Bind1 => json!({"op": "bind1"}),
            Op::Destroy1 => json!({"op": "destroy1"}),
        }
    }
    pub fn from_json(v: &Value) -> Op {
        let u = |k: &str| v[k].as_u64().unwrap_or(0) as u8;
        match v["op"].as_str().unwrap_or("") {
            "alloc" => Op::Alloc { m: u("m"), size: v["size"].as_u64().unwrap() as u32, sem: Sem::from_name(v["sem"].as_str().unwrap_or("Default")) },
            "write" => Op::Write { m: u("m"), src: u("src"), field: u("field"), dm: u("dm"), dst: if v["dst"].is_null() { NULL } else { u("dst") } },
            "burst" => Op::Burst { m: u("m"), size: v["size"].as_u64().unwrap() as u32, count: v["count"].as_u64().unwrap() as u16, keep: u("keep") },
            "ephchain" => Op::EphChain { m: u("m"), n: u("n") },
            "eph" => Op::Eph { m: u("m"), key: u("key"), value: u("value") },
            "alignburst" => Op::AlignBurst { m: u("m") },
            "refusedallocs" => Op::RefusedAllocs { m: u("m") },
            "drop" => Op::Drop { m: u("m"), slot: u("slot") },
            "gc" => Op::Gc { m: u("m"), full: v["full"].as_bool().unwrap_or(true) },
            "pin" => Op::Pin { m: u("m"), slot: u("slot") },
            "unpin" => Op::Unpin { m: u("m"), slot: u("slot") },
            "allocby1" => Op::AllocBy1 { size: v["size"].as_u64().unwrap() as u32 },
            "bind1" => Op::Bind1,
            "destroy1" => Op::Destroy1,
            other => crate::common::machinery_failure(&format!("unknown op {}", other)),
        }
    }
}

pub fn prog_json(p: &[Op]) -> Value {
    Value::Array(p.iter().map(|o| o.json()).collect())
}

pub fn prog_from_json(v: &Value) -> Vec<Op> {
    v.as_array().map(|a| a.iter().map(Op::from_json).collect()).unwrap_or_default()
}

/// What a profile offers.
#[derive(Clone, Debug)]
pub struct Alphabet {
    pub sizes: Vec<u32>,
    pub sems: Vec<Sem>,
    pub gc_kinds: Vec<bool>,
    /// (size, count, keep-every) bursts
    pub bursts: Vec<(u32, u16, u8)>,
    /// offer `AlignBurst`
    pub align_bursts: bool,
    /// offer `RefusedAllocs`
    pub refused_allocs: bool,
    /// chain lengths offered for `EphChain` (empty = no weak-table ops)
    pub eph_chains: Vec<u8>,
    pub two_mutators: bool,
    pub pins: bool,
    /// writes may target roots of the other mutator
    pub cross_writes: bool,
    pub fields: u8,
}

/// Abstract pre-state used only to decide which ops are enabled (root occupancy, pins, bound).
#[derive(Clone, Copy, Default)]
struct Abs {
    occ: [[bool; SLOTS]; 2],
    pinned: [[bool; SLOTS]; 2],
    bound1: bool,
    /// something changed since the last collection (a trailing GC right after a GC of the same
    /// kind with nothing in between is still offered: repeated collections matter for epochs)
    dirty: bool,
}

impl Abs {
    fn enabled(&self, a: &Alphabet) -> Vec<Op> {
        let mut v = vec![];
        let ms: &[u8] = if self.bound1 { &[0, 1] } else { &[0] };
        for &m in ms {
            if self.occ[m as usize].iter().any(|o| !o) {
                for &sem in &a.sems {
                    for &size in &a.sizes {
                        v.push(Op::Alloc { m, size, sem });
                    }
                }
                for &(size, count, keep) in &a.bursts {
                    v.push(Op::Burst { m, size, count, keep });
                }
                for &n in &a.eph_chains {
                    v.push(Op::EphChain { m, n });
                }
            }
        }
        if a.align_bursts {
            v.push(Op::AlignBurst { m: 0 });
        }
        if a.refused_allocs {
            v.push(Op::RefusedAllocs { m: 0 });
        }
        for &m in ms {
            for src in 0..SLOTS as u8 {
                if !self.occ[m as usize][src as usize] {
                    continue;
                }
                for field in 0..a.fields {
                    v.push(Op::Write { m, src, field, dm: m, dst: NULL });
                    let dms: Vec<u8> = if a.cross_writes { ms.to_vec() } else { vec![m] };
                    for dm in dms {
                        for dst in 0..SLOTS as u8 {
                            if self.occ[dm as usize][dst as usize] {
                                v.push(Op::Write { m, src, field, dm, dst });
                            }
                        }
                    }
                }
            }
        }
        if !a.eph_chains.is_empty() {
            for &m in ms {
                for key in 0..SLOTS as u8 {
                    for value in 0..SLOTS as u8 {
                        if self.occ[m as usize][key as usize] && self.occ[m as usize][value as usize] {
                            v.push(Op::Eph { m, key, value });
                        }
                    }
                }
            }
        }
        for &m in ms {
            for slot in 0..SLOTS as u8 {
                if self.occ[m as usize][slot as usize] {
                    v.push(Op::Drop { m, slot });
                    if a.pins {
                        if self.pinned[m as usize][slot as usize] {
                            v.push(Op::Unpin { m, slot });
                        } else {
                            v.push(Op::Pin { m, slot });
                        }
                    }
                }
            }
        }
        for &full in &a.gc_kinds {
            v.push(Op::Gc { m: 0, full });
        }
        if a.two_mutators {
            if self.bound1 && self.occ[0].iter().any(|o| !o) {
                for &size in &a.sizes {
                    v.push(Op::AllocBy1 { size });
                }
            }
            if self.bound1 {
                v.push(Op::Destroy1);
            } else {
                v.push(Op::Bind1);
            }
        }
        v
    }
    fn apply(&mut self, op: &Op) {
        match *op {
            Op::AllocBy1 { .. } => {
                let s = self.occ[0].iter().position(|o| !o).unwrap();
                self.occ[0][s] = true;
                self.pinned[0][s] = false;
                self.dirty = true;
            }
            Op::Alloc { m, .. } | Op::Burst { m, .. } | Op::EphChain { m, .. } => {
                let s = self.occ[m as usize].iter().position(|o| !o).unwrap();
                self.occ[m as usize][s] = true;
                self.pinned[m as usize][s] = false;
                self.dirty = true;
            }
            Op::Write { .. } | Op::Eph { .. } | Op::AlignBurst { .. } | Op::RefusedAllocs { .. } => self.dirty = true,
            Op::Drop { m, slot } => {
                self.occ[m as usize][slot as usize] = false;
                self.pinned[m as usize][slot as usize] = false;
                self.dirty = true;
            }
            Op::Gc { .. } => self.dirty = false,
            Op::Pin { m, slot } => {
                self.pinned[m as usize][slot as usize] = true;
                self.dirty = true;
            }
            Op::Unpin { m, slot } => {
                self.pinned[m as usize][slot as usize] = false;
                self.dirty = true;
            }
            Op::Bind1 => {
                self.bound1 = true;
                self.dirty = true;
            }
            Op::Destroy1 => {
                self.bound1 = false;
                self.occ[1] = [false; SLOTS];
                self.pinned[1] = [false; SLOTS];
                self.dirty = true;
            }
        }
    }
}

/// All programs of length 1..=depth over the alphabet, shortest first, in alphabet order.
/// Every program is meant to be followed by a closing exhaustive collection (the interpreter
/// adds it), so programs ending in a full GC are skipped (they equal their prefix + closing GC).
pub fn enumerate(a: &Alphabet, depth: usize, filter: &dyn Fn(&[Op]) -> bool) -> Vec<Vec<Op>> {
    let mut out = vec![];
    let mut level: Vec<(Vec<Op>, Abs)> = vec![(vec![], Abs::default())];
    for _ in 0..depth {
        let mut next = vec![];
        for (p, abs) in &level {
            for op in abs.enabled(a) {
                let mut p2 = p.clone();
                p2.push(op);
                let mut abs2 = *abs;
                abs2.apply(&op);
                next.push((p2, abs2));
            }
        }
        for (p, _) in &next {
            if matches!(p.last(), Some(Op::Gc { full: true, .. })) {
                continue;
            }
            if filter(p) {
                out.push(p.clone());
            }
        }
        level = next;
    }
    out
}

/// Run one program (plus the closing exhaustive collection) on the world.  Returns per-program
/// facts used for the coverage counters.
#[derive(Default, Clone, Debug)]
pub struct ProgFacts {
    pub gcs: u64,
    pub moved: u64,
    pub live_and_dead: u64,
    pub verified: u64,
    pub pinned_survived: u64,
    pub nonmoving_survived: u64,
    pub allocs_after_reclaim: u64,
    pub immortal_garbage_checked: u64,
    pub two_mutator_gcs: u64,
    pub weak_extra_rounds: u64,
    pub weak_values_died: u64,
}

pub fn run_program(w: &mut World, p: &[Op]) -> Result<ProgFacts, Fail> {
    let s0 = w.stats.clone();
    let mut facts = ProgFacts::default();
    for op in p {
        step(w, op)?;
    }
    // closing exhaustive collection
    w.gc(0, true)?;
    facts.gcs = w.stats.gcs - s0.gcs;
    facts.moved = w.stats.objects_moved - s0.objects_moved;
    facts.live_and_dead = w.stats.gcs_with_live_and_dead - s0.gcs_with_live_and_dead;
    facts.verified = w.stats.objects_verified - s0.objects_verified;
    facts.allocs_after_reclaim = w.stats.allocs_after_reclaim - s0.allocs_after_reclaim;
    facts.immortal_garbage_checked = w.stats.immortal_checked - s0.immortal_checked;
    facts.two_mutator_gcs = w.stats.two_mutator_gcs - s0.two_mutator_gcs;
    facts.weak_extra_rounds = w.stats.weak_extra_rounds - s0.weak_extra_rounds;
    facts.weak_values_died = w.stats.weak_entries_died - s0.weak_entries_died;
    for o in w.shadow.objs.values() {
        if o.pinned && o.age > 0 {
            facts.pinned_survived += 1;
        }
        if o.age > 0 && !matches!(o.sem, Sem::Default) {
            facts.nonmoving_survived += 1;
        }
    }
    Ok(facts)
}

pub fn step(w: &mut World, op: &Op) -> Result<(), Fail> {
    match *op {
        Op::Alloc { m, size, sem } => {
            let m = m as usize;
            let slot = (0..SLOTS).find(|s| w.root(m, *s).is_none()).expect("alloc with no empty root slot");
            let r = w.alloc_obj(m, slot, size as usize, 2, 8, sem, false)?;
            if r.is_none() {
                return Err(("alloc:null".into(), format!("alloc(size={}, {}) returned null in a heap with plenty of room", size, sem.name())));
            }
        }
        Op::Burst { m, size, count, keep } => {
            let m = m as usize;
            let slot = (0..SLOTS).find(|s| w.root(m, *s).is_none()).expect("burst with no empty root slot");
            let tmp = crate::vm::MAX_ROOTS - 1;
            for i in 0..count as usize {
                // size 1 = a mixed-size burst: small, line-spanning and medium objects interleaved
                let size = if size == 1 { [40u32, 264, 40, 520, 2048, 40, 264, 1032][i % 8] } else { size };
                let r = w.alloc_obj(m, tmp, size as usize, 2, 8, Sem::Default, false)?;
                let Some(id) = r else {
                    return Err(("alloc:null".into(), format!("alloc(size={}) returned null in a heap with plenty of room", size)));
                };
                if i % keep as usize == 0 {
                    let head = w.root(m, slot);
                    w.write_field(m, id, 0, head);
                    w.set_root(m, slot, Some(id));
                }
            }
            w.set_root(m, tmp, None);
        }
        Op::RefusedAllocs { m } => w.refused_nonsafepoint_allocs(m as usize, 3)?,
        Op::AlignBurst { m } => {
            let m = m as usize;
            for &(align, offset) in &[(8usize, 0usize), (16, 8), (32, 8), (64, 8), (64, 56), (16, 0)] {
                for &size in &[4088usize, 4096, 8184, 8192, 12280, 12288, 16376] {
                    for sem in [Sem::Default, Sem::Los] {
                        w.alloc_aligned_garbage(m, size, align, offset, sem)?;
                    }
                }
            }
            // a long run of small over-aligned objects in one allocation buffer
            for i in 0..1500usize {
                let (align, offset) = if i % 3 == 0 { (16, 0) } else { (16, 8) };
                w.alloc_aligned_garbage(m, 24, align, offset, Sem::Default)?;
            }
        }
        Op::EphChain { m, n } => {
            let m = m as usize;
            let slot = (0..SLOTS).find(|s| w.root(m, *s).is_none()).expect("ephchain with no empty root slot");
            let tmp = crate::vm::MAX_ROOTS - 1;
            let key = w.alloc_obj(m, slot, 40, 2, 8, Sem::Default, false)?.ok_or(("alloc:null".to_string(), "alloc returned null".to_string()))?;
            let mut prev = key;
            for _ in 0..n {
                let v = w.alloc_obj(m, tmp, 40, 2, 8, Sem::Default, false)?.ok_or(("alloc:null".to_string(), "alloc returned null".to_string()))?;
                w.add_ephemeron(prev, v);
                prev = v;
            }
            w.set_root(m, tmp, None);
        }
        Op::Eph { m, key, value } => {
            let k = w.root(m as usize, key as usize).expect("eph of empty root");
            let v = w.root(m as usize, value as usize).expect("eph of empty root");
            w.add_ephemeron(k, v);
        }
        Op::Write { m, src, field, dm, dst } => {
            let s = w.root(m as usize, src as usize).expect("write from empty root");
            let d = if dst == NULL { None } else { Some(w.root(dm as usize, dst as usize).expect("write of empty root")) };
            w.write_field(m as usize, s, field as usize, d);
        }
        Op::Drop { m, slot } => w.drop_root(m as usize, slot as usize),
        Op::Gc { m, full } => w.gc(m as usize, full)?,
        Op::Pin { m, slot } => {
            let id = w.root(m as usize, slot as usize).expect("pin of empty root");
            w.pin(id, true)?;
        }
        Op::Unpin { m, slot } => {
            let id = w.root(m as usize, slot as usize).expect("unpin of empty root");
            w.pin(id, false)?;
        }
        Op::AllocBy1 { size } => {
            let slot = (0..SLOTS).find(|s| w.root(0, *s).is_none()).expect("allocby1 with no empty root slot");
            let tmp = crate::vm::MAX_ROOTS - 1;
            let id = w.alloc_obj(1, tmp, size as usize, 2, 8, Sem::Default, false)?.ok_or(("alloc:null".to_string(), "alloc returned null".to_string()))?;
            w.set_root(0, slot, Some(id));
            w.set_root(1, tmp, None);
        }
        Op::Bind1 => w.bind(1),
        Op::Destroy1 => w.destroy(1),
    }
    Ok(())
}
