//! `baton`: controlled-scheduler exploration of real OS threads running real mmtk-core code
//! (DESIGN.md 4.2).  In-house, CHESS-style, stateless.
//!
//! # What it does
//!
//! The code under test calls `mmtk::util::verif::rt::{sched_point, yield_point, lock_acquire, ...}`
//! at its visible operations (hardware atomics on metadata, `BlockPool` counters, spin-lock
//! acquisitions, condition variables).  This module registers the process-wide
//! [`Runtime`](mmtk::util::verif::rt::Runtime) behind those calls.  Threads that are *registered*
//! with an [`Inst`] (a thread-local says so; calls of all other threads are ignored) are
//! serialised by a **baton**: exactly one registered thread of an instance runs at any time.  At
//! every scheduling point the running thread publishes its *pending operation* and the strategy
//! decides which thread continues.  The decision is taken by the thread that is at the point (there
//! is no scheduler thread), so a decision to "keep running" costs no OS context switch.
//!
//! * **Blocking is modelled, never executed.**  Logical mutexes and reader-writer locks
//!   (`spin::RwLock` semantics: read / upgradeable read / write / upgrade) and logical condition
//!   variables live in a table of the instance.  A thread whose pending operation is a lock that
//!   is not available, or a wait that has not been notified, is *not enabled* and is never chosen;
//!   the real lock acquisition that follows a granted logical one is therefore always
//!   uncontended.  `notify_one` with several waiters is a choice point of its own.
//! * **Deadlock** = some thread has not finished and no thread is enabled.  It ends the
//!   execution with [`End::Deadlock`]; the scenario's oracle decides what that means (for all
//!   scenarios so far: a violation).
//! * **Yield / fairness.**  A *yield* point marks one iteration of a spin loop that cannot make
//!   progress alone.  Scheduling is *fair* in the sense of Musuvathi & Qadeer's fair stateless
//!   model checking: when thread `t` yields, it gets lower priority than every enabled thread that
//!   has not been scheduled since `t`'s previous yield, and is not a candidate again until each
//!   of those has executed one transition (or stopped being enabled).  So a spinner can take at
//!   most two iterations before everybody else has moved; schedules in which a thread spins for
//!   ever while the thread it waits for could run are not executions of a fair scheduler and are
//!   not explored.  Switching at a yield is free, and the default there is to hand over to the
//!   lowest other candidate.  **Livelock** = more than `livelock_bound` yields executed in a row
//!   without any thread executing a transition that can change anything (a write-like atomic, a
//!   lock / condition operation, a thread start); it ends the execution with [`End::Livelock`].
//!   A global step horizon ([`End::Horizon`]) bounds every execution.
//! * **Search.**  Depth-first over *choice lists* with **iterative preemption bounding**.  An
//!   execution is identified by the list of decisions taken at its choice points (points with at
//!   least two enabled candidates).  A *prefix* is replayed exactly (a different enabled set at a
//!   replayed choice point = divergence = machinery failure, exit 2); after the prefix the
//!   default decision is "keep running the current thread if it is enabled, else the enabled
//!   thread with the lowest id".  Every execution runs to completion.  The children of an
//!   execution are obtained by deviating from the default at one choice point after its prefix;
//!   a deviation that switches away from a thread that could have continued costs **1
//!   preemption**, every other deviation (at a block, a yield, a thread end, a `notify_one`
//!   waiter choice, a FIFO hand-over) costs **0**.  Children of cost 0 are explored at the
//!   current bound (stack), children of cost 1 are queued for the next bound.  Hence every
//!   execution with `b` preemptions is run exactly once, in round `b`; nothing is re-explored at
//!   a higher bound.  If the queue for the next round is empty the whole interleaving space has
//!   been explored (reported as `unbounded_complete`).
//! * **FIFO hand-over of mutexes** (needed by the whole-GC scenarios, see DESIGN.md 4.2): when
//!   the running thread is about to (re-)acquire a *mutex* for which another enabled thread has
//!   been waiting longer, the default decision hands the mutex to the longest waiter; neither
//!   decision costs a preemption.  Deterministic, so replay is unaffected.
//! * **Thread start.**  In pool mode the invisible prelude of every thread body (up to its first
//!   scheduling point) is run eagerly in thread-id order before the first decision; it contains
//!   no visible operation by definition, so no interleaving is lost and one pseudo operation per
//!   thread is saved.
//! * **Determinism.**  The first execution of every scenario is run twice and every violating
//!   execution once more from its full choice list; a different trace or verdict is a machinery
//!   failure.  A watchdog (no scheduling activity of an instance for 60 s during an execution; env
//!   `BATON_WATCHDOG_S`; it was 10 s, which a stalled virtual CPU of a loaded machine can exceed)
//!   turns an unexpected real block into exit 2.
//! * **Armed points.**  Metadata scheduling points fire only if their address lies in a range the
//!   scenario has armed; `BlockPool` points and rw-lock scopes only if class `Pool` is armed;
//!   mutex/condvar operations only if class `Sync` is armed.
//!
//! # What is NOT covered
//!
//! Only **sequentially consistent** interleavings **at the instrumented points**: the code
//! between two scheduling points of a thread executes atomically.  Weak-memory behaviours
//! (a `Relaxed` store becoming visible late), data races on non-atomic data between points, and
//! interleavings inside uninstrumented third-party code are outside this engine.  No partial-order
//! reduction is applied (every interleaving of the visible operations is run), no state caching.
//! Spurious condition-variable wake-ups are only generated when the scenario asks for them
//! (`Arming::spurious_wakeups`, each one costs a preemption).
//!
//! # Modes
//!
//! * **Pool mode** ([`explore`]): `setup()` builds fresh shared state, N pool threads run
//!   `body(tid)`, `check()` judges the final state; the pool threads are reused across all
//!   executions of a scenario.  An execution that ends in deadlock/livelock/horizon is torn down
//!   by unwinding the blocked threads out of the code under test with a private panic payload.
//! * **Persistent mode** (for a whole real GC, used by later checks): any OS thread registers
//!   dynamically ([`Inst::adopt_current`], [`Inst::spawn`]), threads live across executions, the
//!   controller is itself a registered thread and delimits executions at quiescent points
//!   ([`Inst::begin_execution`], [`Inst::quiesce`], [`Inst::end_execution`]).

use crate::common::{machinery_failure, Run};
use mmtk::util::verif::rt::{self, Class, Kind, LockMode, Runtime};
use serde_json::{json, Value};
use std::cell::{Cell, RefCell};
use std::collections::{BTreeMap, HashMap};
use std::sync::atomic::{AtomicBool, AtomicU32, AtomicU64, AtomicUsize, Ordering};
use std::sync::{Arc, Mutex, MutexGuard, OnceLock, Weak};

/// Maximum number of logical threads of one instance (ids `0..MAX_THREADS`).
pub const MAX_THREADS: usize = 24;
const CTRL: usize = MAX_THREADS;

const GO_NONE: u32 = 0;
const GO_RUN: u32 = 1;
const GO_ABORT: u32 = 2;
const GO_QUIT: u32 = 3;

/// The pending operation a thread publishes at a scheduling point.
#[derive(Clone, Copy, Debug, PartialEq, Eq)]
pub enum Op {
    /// The thread has been created / given a body and has not run yet.
    Start,
    /// A hardware atomic (armed `sched_point`).
    Atomic { kind: Kind, addr: usize },
    /// One iteration of a spin loop.
    Yield { addr: usize },
    /// Acquisition of a logical lock.
    Lock { id: usize, mode: LockMode },
    /// First half of a condition wait: release the mutex and become a waiter.
    CondEnter { cv: usize, mutex: usize },
    /// Second half: enabled once notified and the mutex is free; re-acquires the mutex.
    CondWake { cv: usize, mutex: usize },
    /// `notify_one` / `notify_all`.
    Notify { cv: usize, all: bool },
    /// Enabled iff no other thread is enabled (persistent mode: wait for quiescence).
    Quiesce,
    /// Explicit harness-level scheduling point.
    User { label: u32 },
    /// `try_lock` of a logical lock: always enabled; acquires the lock iff it is available.
    TryLock { id: usize, mode: LockMode },
}

impl Op {
    pub fn name(&self) -> String {
        match self {
            Op::Start => "start".into(),
            Op::Atomic { kind, .. } => format!("{:?}", kind),
            Op::Yield { .. } => "yield".into(),
            Op::Lock { mode, .. } => format!("lock:{:?}", mode),
            Op::CondEnter { .. } => "cond_wait:enter".into(),
            Op::CondWake { .. } => "cond_wait:wake".into(),
            Op::Notify { all, .. } => if *all { "notify_all".into() } else { "notify_one".into() },
            Op::Quiesce => "quiesce".into(),
            Op::User { label } => format!("user:{}", label),
            Op::TryLock { mode, .. } => format!("try_lock:{:?}", mode),
        }
    }
    /// Discriminant used to compare traces of two runs (addresses of heap objects may differ).
    fn tag(&self) -> u32 {
        match self {
            Op::Start => 0,
            Op::Atomic { kind, .. } => 100 + *kind as u32,
            Op::Yield { .. } => 1,
            Op::Lock { mode, .. } => 10 + *mode as u32,
            Op::CondEnter { .. } => 2,
            Op::CondWake { .. } => 3,
            Op::Notify { all, .. } => 4 + *all as u32,
            Op::Quiesce => 6,
            Op::User { label } => 1000 + label,
            Op::TryLock { mode, .. } => 20 + *mode as u32,
        }
    }
    pub fn addr(&self) -> usize {
        match self {
            Op::Atomic { addr, .. } | Op::Yield { addr } => *addr,
            Op::Lock { id, .. } | Op::TryLock { id, .. } => *id,
            Op::CondEnter { cv, .. } | Op::CondWake { cv, .. } | Op::Notify { cv, .. } => *cv,
            _ => 0,
        }
    }
}

/// One executed transition.
#[derive(Clone, Copy, Debug, PartialEq, Eq)]
pub struct Step {
    pub tid: u8,
    pub op: Op,
}

/// One choice point (at least two candidates).
#[derive(Clone, Copy, Debug, PartialEq, Eq)]
pub struct ChoiceRec {
    pub chosen: u8,
    pub default: u8,
    /// Candidates (bit per thread id).
    pub mask: u32,
    /// Candidates that cost no preemption.
    pub free: u32,
    /// Waiter choice of a `notify_one` rather than a thread choice.
    pub notify: bool,
}

/// How an execution ended.
#[derive(Clone, Debug, PartialEq, Eq)]
pub enum End {
    /// Every thread finished (pool mode) / the controller ended the execution (persistent mode).
    Complete,
    /// Unfinished threads exist and none is enabled: (thread, pending operation).
    Deadlock(Vec<(u8, String)>),
    /// Only spinning threads were left, for more than `livelock_bound` wake-ups.
    Livelock(Vec<u8>),
    /// The step horizon was reached.
    Horizon,
    /// Replay of a prefix saw a different candidate set (machinery failure).
    Diverged(String),
}

impl End {
    pub fn name(&self) -> &'static str {
        match self {
            End::Complete => "complete",
            End::Deadlock(_) => "deadlock",
            End::Livelock(_) => "livelock",
            End::Horizon => "horizon",
            End::Diverged(_) => "diverged",
        }
    }
}

#[derive(Clone, Debug)]
pub struct Event {
    pub tid: u8,
    pub name: &'static str,
    /// static string payload (`event_str`), "" otherwise
    pub tag: &'static str,
    pub a: usize,
    pub b: usize,
}

/// Everything observed in one execution.
#[derive(Clone, Debug)]
pub struct ExecInfo {
    pub choices: Vec<ChoiceRec>,
    pub steps: Vec<Step>,
    pub preemptions: u32,
    pub end: End,
    /// Panic message of each thread body that panicked (pool mode).
    pub panics: Vec<Option<String>>,
    pub events: Vec<Event>,
}

impl ExecInfo {
    pub fn chosen(&self) -> Vec<u8> {
        self.choices.iter().map(|c| c.chosen).collect()
    }
    pub fn masks(&self) -> Vec<u32> {
        self.choices.iter().map(|c| c.mask).collect()
    }
    /// Thread id of every executed transition.
    pub fn schedule(&self) -> Vec<u8> {
        self.steps.iter().map(|s| s.tid).collect()
    }
    fn fingerprint(&self) -> Vec<u32> {
        let mut v: Vec<u32> = vec![];
        for c in &self.choices {
            v.push(c.chosen as u32);
            v.push(c.mask);
        }
        v.push(u32::MAX);
        for s in &self.steps {
            v.push(((s.tid as u32) << 16) | s.op.tag());
        }
        v
    }
    /// Human-readable trace: `t0:SideLoad t1:SideCas ...`.
    pub fn pretty(&self) -> String {
        self.steps.iter().map(|s| format!("t{}:{}", s.tid, s.op.name())).collect::<Vec<_>>().join(" ")
    }
    /// True iff some thread of `racers` made two successive accesses (in its own program order) to
    /// an address in `[lo, hi)` with an access to that range by *another* thread of `racers` in
    /// between, i.e. a racer was preempted inside its read-modify-write sequence by another racer
    /// that also reached the contended location.
    pub fn interleaved_on(&self, lo: usize, hi: usize, racers: &[u8]) -> bool {
        let acc: Vec<u8> = self
            .steps
            .iter()
            .filter(|s| matches!(s.op, Op::Atomic { addr, .. } if addr >= lo && addr < hi) && racers.contains(&s.tid))
            .map(|s| s.tid)
            .collect();
        for i in 0..acc.len() {
            for k in i + 2..acc.len() {
                if acc[k] == acc[i] {
                    if acc[i + 1..k].iter().any(|t| *t != acc[i]) {
                        return true;
                    }
                    break;
                }
            }
        }
        false
    }
}

/// Which scheduling points fire (set by the scenario in `setup`).
#[derive(Clone, Debug, Default)]
pub struct Arming {
    classes: u8,
    ranges: Vec<(usize, usize)>,
    pub log_events: bool,
    /// Number of *spurious* condition-variable wake-ups the strategy may inject in one execution:
    /// a thread waiting un-notified on a condition variable whose mutex is free becomes an extra
    /// candidate (never the default; choosing it costs one preemption).
    pub spurious_wakeups: u32,
    /// Exploration window (persistent mode): when set, the execution starts with the window
    /// *closed*: every scheduling decision takes the default candidate and records no choice
    /// point, until the scenario calls `Inst::set_explore(true)` (and again after
    /// `set_explore(false)`).  The window must be toggled by threads of the instance at points that
    /// are a function of the schedule, so that replay sees the same choice points.
    pub start_closed: bool,
}

impl Arming {
    /// Arm a whole class (`Pool`, `Sync`, `Other`).
    pub fn class(&mut self, c: Class) {
        self.classes |= 1 << (c as u8);
    }
    /// Arm every metadata point whose address lies in `[lo, hi)`.
    pub fn range(&mut self, lo: usize, hi: usize) {
        self.ranges.push((lo, hi));
    }
    fn fires(&self, c: Class, addr: usize) -> bool {
        if self.classes & (1 << (c as u8)) != 0 {
            return true;
        }
        self.ranges.iter().any(|(lo, hi)| addr >= *lo && addr < *hi)
    }
}

#[derive(Clone, Copy, PartialEq, Eq, Debug)]
enum Status {
    Absent,
    AtPoint,
    Running,
    Finished,
}

#[derive(Clone, Debug)]
struct ThreadSt {
    status: Status,
    pending: Op,
    /// the thread is inside a pool body (must be unwound on abort)
    in_body: bool,
    /// fair scheduling: threads this one must let run first (see `pick`)
    prio: u32,
    /// threads scheduled since this thread's last yield
    since_yield: u32,
    notified: bool,
    wait_seq: u64,
    /// result of the last `TryLock` operation
    try_ok: bool,
}

#[derive(Default, Debug)]
struct LockSt {
    writer: Option<usize>,
    upgradeable: Option<usize>,
    readers: Vec<usize>,
}

/// A prefix of decisions to replay.
#[derive(Clone, Debug, Default)]
pub struct Prefix {
    /// debugging aid (`BATON_FULL_MASKS`): the trace of the execution this prefix was cut from
    pub debug_parent: Option<Arc<String>>,
    pub chosen: Vec<u8>,
    /// Candidate mask expected at each replayed choice point (checked when present).
    pub masks: Option<Vec<u32>>,
    /// Hash of the masks of the whole prefix (with defaults and free sets; checked at the end of the prefix when `masks` is absent).
    pub mask_hash: u64,
    /// Neither masks nor hash are known (a schedule recovered from a crash report): only check
    /// that every recorded choice is a candidate.
    pub unchecked: bool,
}

fn hash_step(h: u64, mask: u32, default: usize, free: u32) -> u64 {
    let mut h = (h ^ mask as u64).wrapping_mul(0x100_0000_01b3);
    h = (h ^ default as u64).wrapping_mul(0x100_0000_01b3);
    (h ^ free as u64).wrapping_mul(0x100_0000_01b3)
}
const HASH0: u64 = 0xcbf2_9ce4_8422_2325;

struct Sched {
    threads: Vec<ThreadSt>,
    current: Option<usize>,
    locks: HashMap<usize, LockSt>,
    conds: HashMap<usize, Vec<usize>>,
    arming: Arming,
    // strategy
    prefix: Prefix,
    pos: usize,
    hash: u64,
    trace: Vec<ChoiceRec>,
    steps: Vec<Step>,
    preemptions: u32,
    yield_streak: u32,
    seq: u64,
    end: Option<End>,
    horizon: usize,
    livelock_bound: u32,
    // pool mode
    pool_n: usize,
    prelude_next: usize,
    first_decision: bool,
    active_bodies: usize,
    panics: Vec<Option<String>>,
    persistent: bool,
    events: Vec<Event>,
    spurious_left: u32,
    /// exploration window open (see `Arming::start_closed`)
    explore: bool,
}

struct Slot {
    go: AtomicU32,
    th: Mutex<Option<std::thread::Thread>>,
}

/// One independent scheduler (several may exist in one process, each with its own threads).
pub struct Inst {
    sched: Mutex<Sched>,
    slots: Vec<Slot>,
    aborting: AtomicBool,
    activity: AtomicU64,
    /// 1 + the logical id of the thread `spawn` is waiting for (0 = none); diagnosis only
    spawning: AtomicUsize,
    in_exec: AtomicBool,
    spin: u32,
    /// persistent mode: called when an execution cannot continue (deadlock, livelock, horizon,
    /// divergence); must not return.
    on_stuck: Mutex<Option<Box<dyn Fn(&ExecInfo) + Send + Sync>>>,
}

/// Payload used to unwind a blocked thread out of the code under test when an execution is torn
/// down.
struct BatonAbort;

thread_local! {
    static CUR_INST: Cell<*const Inst> = const { Cell::new(std::ptr::null()) };
    static CUR_ID: Cell<usize> = const { Cell::new(0) };
    static CUR_KEEP: RefCell<Option<Arc<Inst>>> = const { RefCell::new(None) };
}

fn bit(t: usize) -> u32 {
    1u32 << t
}

impl Sched {
    fn new() -> Sched {
        Sched {
            threads: (0..MAX_THREADS).map(|_| ThreadSt { status: Status::Absent, pending: Op::Start, in_body: false, prio: 0, since_yield: 0, notified: false, wait_seq: 0, try_ok: false }).collect(),
            current: None,
            locks: HashMap::new(),
            conds: HashMap::new(),
            arming: Arming::default(),
            prefix: Prefix::default(),
            pos: 0,
            hash: HASH0,
            trace: vec![],
            steps: vec![],
            preemptions: 0,
            yield_streak: 0,
            seq: 0,
            end: None,
            horizon: 100_000,
            livelock_bound: 64,
            pool_n: 0,
            prelude_next: 0,
            first_decision: false,
            active_bodies: 0,
            panics: vec![],
            persistent: false,
            events: vec![],
            spurious_left: 0,
            explore: true,
        }
    }

    fn lock_available(&self, id: usize, mode: LockMode) -> bool {
        let Some(l) = self.locks.get(&id) else { return true };
        match mode {
            LockMode::Mutex | LockMode::RwWrite => l.writer.is_none() && l.upgradeable.is_none() && l.readers.is_empty(),
            LockMode::RwRead | LockMode::RwUpgradeable => l.writer.is_none() && l.upgradeable.is_none(),
            LockMode::Upgrade => l.readers.is_empty(),
        }
    }

    fn acquire(&mut self, id: usize, mode: LockMode, t: usize) {
        let l = self.locks.entry(id).or_default();
        match mode {
            LockMode::Mutex | LockMode::RwWrite => l.writer = Some(t),
            LockMode::RwRead => l.readers.push(t),
            LockMode::RwUpgradeable => l.upgradeable = Some(t),
            LockMode::Upgrade => {
                if l.upgradeable != Some(t) {
                    machinery_failure("baton: upgrade of a lock the thread does not hold upgradeable");
                }
                l.upgradeable = None;
                l.writer = Some(t);
            }
        }
    }

    fn release(&mut self, id: usize, mode: LockMode, t: usize) {
        let Some(l) = self.locks.get_mut(&id) else { return };
        match mode {
            LockMode::Mutex | LockMode::RwWrite | LockMode::Upgrade => {
                if l.writer == Some(t) {
                    l.writer = None;
                }
            }
            LockMode::RwRead => {
                if let Some(p) = l.readers.iter().position(|x| *x == t) {
                    l.readers.remove(p);
                }
            }
            // after an upgrade the write guard released the whole lock: nothing left to release
            LockMode::RwUpgradeable => {
                if l.upgradeable == Some(t) {
                    l.upgradeable = None;
                }
            }
        }
    }

    fn op_enabled(&self, t: usize) -> bool {
        let th = &self.threads[t];
        match th.pending {
            Op::Start | Op::Atomic { .. } | Op::Notify { .. } | Op::CondEnter { .. } | Op::User { .. } | Op::TryLock { .. } => true,
            Op::Yield { .. } => true,
            Op::Lock { id, mode } => self.lock_available(id, mode),
            Op::CondWake { mutex, .. } => th.notified && self.lock_available(mutex, LockMode::Mutex),
            Op::Quiesce => false,
        }
    }

    fn mutex_key(&self, t: usize) -> Option<usize> {
        match self.threads[t].pending {
            Op::Lock { id, mode: LockMode::Mutex } => Some(id),
            Op::CondWake { mutex, .. } => Some(mutex),
            _ => None,
        }
    }

    /// Take a decision among `mask`; records a choice point when there are two or more candidates.
    fn choose(&mut self, mask: u32, default: usize, free: u32, notify: bool) -> Option<usize> {
        debug_assert!(mask != 0 && mask & bit(default) != 0);
        if !self.explore {
            // outside the exploration window: the default schedule, no choice point
            return Some(default);
        }
        if mask.count_ones() < 2 {
            return Some(mask.trailing_zeros() as usize);
        }
        let chosen;
        if self.pos < self.prefix.chosen.len() {
            let c = self.prefix.chosen[self.pos] as usize;
            if let Some(m) = &self.prefix.masks {
                if m.get(self.pos).copied() != Some(mask) {
                    self.end = Some(End::Diverged(format!("choice point {}: candidates {:#b}, recorded {:#b}; PARENT TRACE: {}", self.pos, mask, m.get(self.pos).copied().unwrap_or(0), self.prefix.debug_parent.as_ref().map(|t| t.as_str()).unwrap_or("-"))));
                    return None;
                }
            }
            if c >= MAX_THREADS || mask & bit(c) == 0 {
                self.end = Some(End::Diverged(format!("choice point {}: recorded choice t{} is not a candidate ({:#b})", self.pos, c, mask)));
                return None;
            }
            chosen = c;
        } else {
            chosen = default;
        }
        self.hash = hash_step(self.hash, mask, default, free);
        self.pos += 1;
        if self.pos == self.prefix.chosen.len() && self.prefix.masks.is_none() && !self.prefix.unchecked && self.prefix.mask_hash != self.hash {
            self.end = Some(End::Diverged(format!("candidate sets along the prefix differ from the recorded ones (choice point {})", self.pos - 1)));
            return None;
        }
        if free & bit(chosen) == 0 {
            self.preemptions += 1;
        }
        self.trace.push(ChoiceRec { chosen: chosen as u8, default: default as u8, mask, free, notify });
        Some(chosen)
    }

    /// Decide which thread runs next.  `None`: the execution ended (`self.end` says how).
    fn pick(&mut self, me: Option<usize>) -> Option<usize> {
        // pool mode: run the invisible prelude of every body first, in id order
        while self.prelude_next < self.pool_n {
            let t = self.prelude_next;
            self.prelude_next += 1;
            if self.threads[t].status == Status::AtPoint && self.threads[t].pending == Op::Start {
                return Some(t);
            }
        }
        // enabled threads (their pending operation can execute) ...
        let mut enabled = 0u32;
        let mut quiescers = 0u32;
        let mut unfinished = 0u32;
        for t in 0..MAX_THREADS {
            let th = &self.threads[t];
            if th.status != Status::AtPoint {
                if th.status == Status::Running {
                    unfinished |= bit(t);
                }
                continue;
            }
            unfinished |= bit(t);
            match th.pending {
                Op::Quiesce => quiescers |= bit(t),
                _ => {
                    if self.op_enabled(t) {
                        enabled |= bit(t)
                    }
                }
            }
        }
        // ... and among them the schedulable ones: fair scheduling keeps a thread that yielded
        // out until every enabled thread it has to wait for has been scheduled once
        let mut normal = 0u32;
        for t in 0..MAX_THREADS {
            if enabled & bit(t) != 0 && self.threads[t].prio & enabled == 0 {
                normal |= bit(t);
            }
        }
        if normal == 0 {
            // cannot happen while the priority relation is acyclic; never block on fairness alone
            normal = enabled;
        }
        // the thread that happens to run the last prelude is not a "current thread": the first
        // real decision of a pool execution has no thread to keep running
        let me = if std::mem::take(&mut self.first_decision) && self.pool_n > 0 { None } else { me };
        // a thread at a yield point hands over: it is never "kept running" by default
        let me_yielding = me.map(|m| matches!(self.threads[m].pending, Op::Yield { .. })).unwrap_or(false);
        let (en, me_normal) = if normal != 0 {
            (normal, !me_yielding && me.map(|m| normal & bit(m) != 0).unwrap_or(false))
        } else if quiescers != 0 {
            (quiescers, false)
        } else if unfinished == 0 {
            self.end = Some(End::Complete);
            return None;
        } else {
            let blocked = (0..MAX_THREADS).filter(|t| unfinished & bit(*t) != 0).map(|t| (t as u8, self.threads[t].pending.name())).collect();
            self.end = Some(End::Deadlock(blocked));
            return None;
        };
        // spurious wake-ups: un-notified waiters whose mutex is free are extra, never free, candidates
        let mut spurious = 0u32;
        if self.spurious_left > 0 && normal != 0 {
            for t in 0..MAX_THREADS {
                let th = &self.threads[t];
                if th.status == Status::AtPoint && !th.notified {
                    if let Op::CondWake { mutex, .. } = th.pending {
                        if self.lock_available(mutex, LockMode::Mutex) {
                            spurious |= bit(t);
                        }
                    }
                }
            }
        }
        let lowest = match me {
            // at a yield: the lowest other candidate, the yielder itself only if it is alone
            Some(m) if me_yielding && en & !bit(m) != 0 => (en & !bit(m)).trailing_zeros() as usize,
            _ => en.trailing_zeros() as usize,
        };
        let (default, free) = if me_normal {
            let me = me.unwrap();
            // FIFO hand-over of a contended mutex
            let mut d = me;
            if let Some(k) = self.mutex_key(me) {
                for t in 0..MAX_THREADS {
                    if t != me && en & bit(t) != 0 && self.mutex_key(t) == Some(k) && self.threads[t].wait_seq < self.threads[d].wait_seq {
                        d = t;
                    }
                }
            }
            (d, bit(me) | bit(d))
        } else {
            (lowest, en)
        };
        self.choose(en | spurious, default, free & !spurious, false)
    }

    /// Apply the effect of `t`'s pending operation and make it the running thread.
    fn execute(&mut self, t: usize) {
        let op = self.threads[t].pending;
        let prelude = op == Op::Start && t < self.pool_n;
        if !prelude {
            self.steps.push(Step { tid: t as u8, op });
            // fair scheduling: `t` has been scheduled
            for u in 0..MAX_THREADS {
                self.threads[u].prio &= !bit(t);
                self.threads[u].since_yield |= bit(t);
            }
            // livelock: yields keep being executed while nobody changes anything
            let progress = match op {
                Op::Yield { .. } => false,
                Op::Atomic { kind, .. } => kind.is_write(),
                // label 0 = a harness step that only reads
                Op::User { label } => label != 0,
                _ => true,
            };
            if progress {
                self.yield_streak = 0;
            } else if matches!(op, Op::Yield { .. }) {
                self.yield_streak += 1;
                if self.yield_streak > self.livelock_bound && self.end.is_none() {
                    let spinners = (0..MAX_THREADS).filter(|u| self.threads[*u].status == Status::AtPoint && matches!(self.threads[*u].pending, Op::Yield { .. }) || *u == t).map(|u| u as u8).collect();
                    self.end = Some(End::Livelock(spinners));
                }
            }
        }
        match op {
            Op::Start => {
                if t < self.pool_n {
                    self.threads[t].in_body = true;
                    self.active_bodies += 1;
                }
            }
            Op::Lock { id, mode } => self.acquire(id, mode, t),
            Op::CondEnter { cv, mutex } => {
                self.release(mutex, LockMode::Mutex, t);
                self.conds.entry(cv).or_default().push(t);
                self.threads[t].notified = false;
            }
            Op::CondWake { cv, mutex } => {
                if !self.threads[t].notified {
                    // a spurious wake-up
                    self.spurious_left = self.spurious_left.saturating_sub(1);
                    if let Some(w) = self.conds.get_mut(&cv) {
                        w.retain(|x| *x != t);
                    }
                    self.threads[t].notified = true;
                }
                self.acquire(mutex, LockMode::Mutex, t)
            }
            Op::Notify { cv, all } => {
                let waiters = self.conds.get(&cv).cloned().unwrap_or_default();
                if !waiters.is_empty() {
                    if all {
                        for w in &waiters {
                            self.threads[*w].notified = true;
                        }
                        self.conds.remove(&cv);
                    } else {
                        let mask = waiters.iter().fold(0u32, |m, w| m | bit(*w));
                        // default: the longest waiter; every alternative is free
                        if let Some(w) = self.choose(mask, waiters[0], mask, true) {
                            self.threads[w].notified = true;
                            self.conds.get_mut(&cv).unwrap().retain(|x| *x != w);
                        }
                    }
                }
            }
            Op::TryLock { id, mode } => {
                let ok = self.lock_available(id, mode);
                if ok {
                    self.acquire(id, mode, t);
                }
                self.threads[t].try_ok = ok;
            }
            Op::Atomic { .. } | Op::Yield { .. } | Op::Quiesce | Op::User { .. } => {}
        }
        self.threads[t].status = Status::Running;
        self.current = Some(t);
        if self.steps.len() >= self.horizon && self.end.is_none() {
            self.end = Some(End::Horizon);
        }
    }

    fn take_info(&mut self) -> ExecInfo {
        ExecInfo {
            choices: std::mem::take(&mut self.trace),
            steps: std::mem::take(&mut self.steps),
            preemptions: self.preemptions,
            end: self.end.clone().unwrap_or(End::Complete),
            panics: std::mem::take(&mut self.panics),
            events: std::mem::take(&mut self.events),
        }
    }

    fn reset_strategy(&mut self, prefix: Prefix) {
        self.prefix = prefix;
        self.pos = 0;
        self.hash = HASH0;
        self.trace.clear();
        self.steps.clear();
        self.preemptions = 0;
        self.yield_streak = 0;
        self.end = None;
        self.events.clear();
    }
}

struct BatonRt;
static BATON_RT: BatonRt = BatonRt;
static RT_REGISTERED: OnceLock<bool> = OnceLock::new();
static WATCHED: Mutex<Vec<Weak<Inst>>> = Mutex::new(Vec::new());

fn cur() -> Option<(&'static Inst, usize)> {
    let p = CUR_INST.with(|c| c.get());
    if p.is_null() {
        None
    } else {
        // Safety: the Arc in CUR_KEEP keeps the instance alive while the thread is registered.
        Some((unsafe { &*p }, CUR_ID.with(|c| c.get())))
    }
}

impl Runtime for BatonRt {
    fn sched_point(&self, kind: Kind, addr: usize) {
        if let Some((inst, me)) = cur() {
            if inst.fires(kind.class(), addr) {
                inst.point(me, Op::Atomic { kind, addr });
            }
        }
    }
    fn yield_point(&self, addr: usize) {
        if let Some((inst, me)) = cur() {
            inst.point(me, Op::Yield { addr });
        }
    }
    fn lock_acquire(&self, id: usize, mode: LockMode) {
        if let Some((inst, me)) = cur() {
            if inst.fires(mode.class(), id) {
                inst.point(me, Op::Lock { id, mode });
            }
        }
    }
    fn lock_release(&self, id: usize, mode: LockMode) {
        if let Some((inst, me)) = cur() {
            if inst.fires(mode.class(), id) {
                inst.lock().release(id, mode, me);
            }
        }
    }
    fn cond_wait(&self, cv: usize, mutex: usize) {
        if let Some((inst, me)) = cur() {
            if inst.fires(Class::Sync, cv) {
                inst.point(me, Op::CondEnter { cv, mutex });
                inst.point(me, Op::CondWake { cv, mutex });
            }
        }
    }
    fn cond_notify(&self, cv: usize, all: bool) {
        if let Some((inst, me)) = cur() {
            if inst.fires(Class::Sync, cv) {
                inst.point(me, Op::Notify { cv, all });
            }
        }
    }
    fn event(&self, name: &'static str, a: usize, b: usize) {
        if let Some((inst, me)) = cur() {
            let mut s = inst.lock();
            if s.arming.log_events {
                s.events.push(Event { tid: me as u8, name, tag: "", a, b });
            }
        }
    }
    fn event_str(&self, name: &'static str, tag: &'static str, a: usize, b: usize) {
        if let Some((inst, me)) = cur() {
            let mut s = inst.lock();
            if s.arming.log_events {
                s.events.push(Event { tid: me as u8, name, tag, a, b });
            }
        }
    }
    fn controls(&self, class: Class) -> bool {
        match cur() {
            Some((inst, _)) => inst.fires(class, 0),
            None => false,
        }
    }
    fn lock_try_acquire(&self, id: usize, mode: LockMode) -> Option<bool> {
        let (inst, me) = cur()?;
        if !inst.fires(mode.class(), id) {
            return None;
        }
        inst.point(me, Op::TryLock { id, mode });
        Some(inst.lock().threads[me].try_ok)
    }
}

/// Explicit scheduling point for harness code running on a registered thread.  Label 0 marks a
/// step that only reads shared state (it does not count as progress for livelock detection).
pub fn step(label: u32) {
    if let Some((inst, me)) = cur() {
        inst.point(me, Op::User { label });
    }
}

/// Like `common::catch`, for code running inside a scenario body: a panic of the code under test
/// becomes `Err(message)`, but the private unwinding used to tear an execution down passes through.
pub fn catch<R>(f: impl FnOnce() -> R) -> Result<R, String> {
    match std::panic::catch_unwind(std::panic::AssertUnwindSafe(f)) {
        Ok(r) => Ok(r),
        Err(p) => {
            if p.is::<BatonAbort>() {
                std::panic::resume_unwind(p);
            }
            let msg = if let Some(s) = p.downcast_ref::<&str>() {
                s.to_string()
            } else if let Some(s) = p.downcast_ref::<String>() {
                s.clone()
            } else {
                "<non-string panic>".to_string()
            };
            Err(format!("{} @ {}", msg, crate::common::last_panic_location()))
        }
    }
}

/// Whether the calling thread is registered with an instance.
pub fn is_registered() -> bool {
    cur().is_some()
}

fn ensure_runtime() {
    RT_REGISTERED.get_or_init(|| {
        if !rt::set_runtime(&BATON_RT) {
            machinery_failure("baton: another runtime is already registered");
        }
        // watchdog: no scheduling activity of an instance for 60 s while an execution is running
        let limit_ticks: u32 = std::env::var("BATON_WATCHDOG_S").ok().and_then(|v| v.parse::<u32>().ok()).unwrap_or(60) * 4;
        std::thread::Builder::new()
            .name("baton-watchdog".into())
            .spawn(move || {
                let mut last: HashMap<usize, (u64, u32)> = HashMap::new();
                loop {
                    std::thread::sleep(std::time::Duration::from_millis(250));
                    let mut w = WATCHED.lock().unwrap_or_else(|p| p.into_inner());
                    w.retain(|x| x.strong_count() > 0);
                    for x in w.iter() {
                        if let Some(i) = x.upgrade() {
                            let key = Arc::as_ptr(&i) as usize;
                            if !i.in_exec.load(Ordering::SeqCst) {
                                last.remove(&key);
                                continue;
                            }
                            let a = i.activity.load(Ordering::SeqCst);
                            let e = last.entry(key).or_insert((a, 0));
                            if e.0 == a {
                                e.1 += 1;
                                if e.1 >= limit_ticks {
                                    let s = i.lock();
                                    let tail: Vec<String> = s.steps.iter().rev().take(12).map(|st| format!("t{}:{}", st.tid, st.op.name())).collect();
                                    machinery_failure(&format!("baton watchdog: no scheduling activity for {} s (a registered thread really blocked or looped without a scheduling point); current {:?}; waiting for spawned thread {:?}; last steps (newest first): {}", limit_ticks / 4, s.current, i.spawning.load(Ordering::SeqCst).checked_sub(1), tail.join(" ")));
                                }
                            } else {
                                *e = (a, 0);
                            }
                        }
                    }
                }
            })
            .expect("spawn watchdog");
        true
    });
}

impl Inst {
    pub fn new() -> Arc<Inst> {
        ensure_runtime();
        let spin = std::env::var("BATON_SPIN").ok().and_then(|s| s.parse().ok()).unwrap_or(200);
        let inst = Arc::new(Inst {
            sched: Mutex::new(Sched::new()),
            slots: (0..=MAX_THREADS).map(|_| Slot { go: AtomicU32::new(GO_NONE), th: Mutex::new(None) }).collect(),
            aborting: AtomicBool::new(false),
            activity: AtomicU64::new(0),
            spawning: AtomicUsize::new(0),
            in_exec: AtomicBool::new(false),
            spin,
            on_stuck: Mutex::new(None),
        });
        WATCHED.lock().unwrap_or_else(|p| p.into_inner()).push(Arc::downgrade(&inst));
        inst
    }

    fn lock(&self) -> MutexGuard<'_, Sched> {
        self.sched.lock().unwrap_or_else(|p| p.into_inner())
    }

    fn fires(&self, c: Class, addr: usize) -> bool {
        if self.aborting.load(Ordering::SeqCst) {
            return false;
        }
        self.lock().arming.fires(c, addr)
    }

    fn wake(&self, slot: usize, v: u32) {
        self.slots[slot].go.store(v, Ordering::Release);
        if let Some(t) = &*self.slots[slot].th.lock().unwrap_or_else(|p| p.into_inner()) {
            t.unpark();
        }
    }

    fn wait(&self, slot: usize) -> u32 {
        let s = &self.slots[slot];
        let mut spins = 0u32;
        loop {
            let v = s.go.load(Ordering::Acquire);
            if v != GO_NONE {
                s.go.store(GO_NONE, Ordering::Relaxed);
                return v;
            }
            if spins < self.spin {
                spins += 1;
                std::hint::spin_loop();
            } else {
                std::thread::park();
            }
        }
    }

    fn set_slot_thread(&self, slot: usize) {
        *self.slots[slot].th.lock().unwrap_or_else(|p| p.into_inner()) = Some(std::thread::current());
    }

    /// Mark the calling OS thread as logical thread `id` of this instance (thread-local only).
    fn bind_current(self: &Arc<Self>, id: usize) {
        assert!(id < MAX_THREADS);
        self.set_slot_thread(id);
        CUR_KEEP.with(|k| *k.borrow_mut() = Some(self.clone()));
        CUR_INST.with(|c| c.set(Arc::as_ptr(self)));
        CUR_ID.with(|c| c.set(id));
    }

    fn unbind_current() {
        CUR_INST.with(|c| c.set(std::ptr::null()));
        CUR_KEEP.with(|k| *k.borrow_mut() = None);
    }

    fn unwind() -> ! {
        std::panic::resume_unwind(Box::new(BatonAbort))
    }

    /// Tear the current execution down.  `me` = the calling thread if it is inside a pool body.
    fn begin_abort(&self, s: &mut Sched, me: Option<usize>) {
        if s.persistent {
            let info = s.take_info();
            let h = self.on_stuck.lock().unwrap_or_else(|p| p.into_inner());
            if let Some(f) = &*h {
                f(&info);
            }
            machinery_failure(&format!("baton (persistent mode): execution cannot continue: {:?}; trace: {}", info.end, info.pretty()));
        }
        self.aborting.store(true, Ordering::SeqCst);
        for t in 0..MAX_THREADS {
            if Some(t) == me {
                continue;
            }
            let th = &mut s.threads[t];
            match th.status {
                Status::AtPoint | Status::Running => {
                    if th.in_body {
                        self.wake(t, GO_ABORT);
                    } else {
                        th.status = Status::Finished;
                    }
                }
                _ => {}
            }
        }
        if s.active_bodies == 0 {
            self.wake(CTRL, GO_RUN);
        }
    }

    /// The running thread `me` publishes `op`, a decision is taken, and the call returns when
    /// `me` has been chosen (and the effect of `op` has been applied).
    fn point(&self, me: usize, op: Op) {
        if self.aborting.load(Ordering::SeqCst) {
            return;
        }
        let mut s = self.lock();
        if s.current != Some(me) {
            machinery_failure(&format!("baton: thread t{} reached a scheduling point ({}) without holding the baton (current {:?})", me, op.name(), s.current));
        }
        s.seq += 1;
        let seq = s.seq;
        {
            let th = &mut s.threads[me];
            th.pending = op;
            th.status = Status::AtPoint;
            th.wait_seq = seq;
        }
        if matches!(op, Op::Yield { .. }) {
            // fair stateless model checking (Musuvathi & Qadeer): the yielding thread gets lower
            // priority than every enabled thread that has not been scheduled since its last yield
            let mut enabled = 0u32;
            for u in 0..MAX_THREADS {
                if u != me && s.threads[u].status == Status::AtPoint && s.op_enabled(u) {
                    enabled |= bit(u);
                }
            }
            let h = enabled & !s.threads[me].since_yield;
            s.threads[me].prio |= h;
            s.threads[me].since_yield = 0;
        }
        self.activity.fetch_add(1, Ordering::Relaxed);
        match s.pick(Some(me)) {
            Some(t) => {
                s.execute(t);
                if s.end.is_some() {
                    // horizon reached or notify choice diverged
                    let in_body = s.threads[me].in_body;
                    self.begin_abort(&mut s, Some(me));
                    drop(s);
                    if in_body {
                        Self::unwind();
                    }
                    machinery_failure("baton: execution ended abnormally on a thread that cannot be unwound");
                }
                if t == me {
                    return;
                }
                drop(s);
                self.wake(t, GO_RUN);
                if self.wait(me) == GO_ABORT {
                    Self::unwind();
                }
            }
            None => {
                let in_body = s.threads[me].in_body;
                self.begin_abort(&mut s, Some(me));
                drop(s);
                if in_body {
                    Self::unwind();
                }
                machinery_failure("baton: execution ended abnormally on a thread that cannot be unwound");
            }
        }
    }

    /// Pool mode: the body of `me` returned (or panicked with `panic`).
    fn thread_end(&self, me: usize, panic: Option<String>) {
        let mut s = self.lock();
        if let Some(p) = panic {
            if s.panics.len() <= me {
                s.panics.resize(me + 1, None);
            }
            s.panics[me] = Some(p);
        }
        s.threads[me].status = Status::Finished;
        s.threads[me].in_body = false;
        s.active_bodies -= 1;
        if self.aborting.load(Ordering::SeqCst) {
            if s.active_bodies == 0 {
                self.wake(CTRL, GO_RUN);
            }
            return;
        }
        self.activity.fetch_add(1, Ordering::Relaxed);
        match s.pick(None) {
            Some(t) => {
                s.execute(t);
                if s.end.is_some() {
                    self.begin_abort(&mut s, None);
                    return;
                }
                drop(s);
                self.wake(t, GO_RUN);
            }
            None => {
                if s.end == Some(End::Complete) {
                    drop(s);
                    self.wake(CTRL, GO_RUN);
                } else {
                    self.begin_abort(&mut s, None);
                }
            }
        }
    }

    fn thread_aborted(&self, me: usize) {
        let mut s = self.lock();
        s.threads[me].status = Status::Finished;
        s.threads[me].in_body = false;
        s.active_bodies -= 1;
        if s.active_bodies == 0 {
            self.wake(CTRL, GO_RUN);
        }
    }

    // ------------------------------------------------------------------------------------------
    // pool mode

    /// Run one execution of `n` pool threads (already parked in `pool_worker`) from `prefix`.
    fn run_pool_execution(&self, n: usize, prefix: Prefix, arming: Arming, horizon: usize, livelock_bound: u32) -> ExecInfo {
        {
            let mut s = self.lock();
            s.reset_strategy(prefix);
            s.spurious_left = arming.spurious_wakeups;
            s.explore = !arming.start_closed;
            s.arming = arming;
            s.locks.clear();
            s.conds.clear();
            s.horizon = horizon;
            s.livelock_bound = livelock_bound;
            s.pool_n = n;
            s.prelude_next = 0;
            s.first_decision = true;
            s.active_bodies = 0;
            s.persistent = false;
            s.panics = vec![None; n];
            s.current = None;
            s.seq = 0;
            for t in 0..MAX_THREADS {
                let th = &mut s.threads[t];
                th.status = if t < n { Status::AtPoint } else { Status::Absent };
                th.pending = Op::Start;
                th.in_body = false;
                th.prio = 0;
                th.since_yield = 0;
                th.notified = false;
                th.wait_seq = 0;
            }
            self.aborting.store(false, Ordering::SeqCst);
            self.in_exec.store(true, Ordering::SeqCst);
            let t = s.pick(None).expect("no thread to start");
            s.execute(t);
            drop(s);
            self.wake(t, GO_RUN);
        }
        self.wait(CTRL);
        self.in_exec.store(false, Ordering::SeqCst);
        let mut s = self.lock();
        s.current = None;
        s.take_info()
    }

    fn pool_worker(self: &Arc<Self>, tid: usize, body: &(dyn Fn(usize) + Sync)) {
        self.bind_current(tid);
        crate::common::quiet_panics();
        loop {
            match self.wait(tid) {
                GO_QUIT => break,
                GO_RUN => {
                    let r = std::panic::catch_unwind(std::panic::AssertUnwindSafe(|| body(tid)));
                    match r {
                        Ok(()) => self.thread_end(tid, None),
                        Err(p) => {
                            if p.is::<BatonAbort>() {
                                self.thread_aborted(tid);
                            } else {
                                let msg = if let Some(s) = p.downcast_ref::<&str>() {
                                    s.to_string()
                                } else if let Some(s) = p.downcast_ref::<String>() {
                                    s.clone()
                                } else {
                                    "<non-string panic>".to_string()
                                };
                                self.thread_end(tid, Some(format!("{} @ {}", msg, crate::common::last_panic_location())));
                            }
                        }
                    }
                }
                _ => {
                    // torn down after being dispatched but before the body started
                    let counted = self.lock().threads[tid].in_body;
                    if counted {
                        self.thread_aborted(tid);
                    }
                }
            }
        }
        Self::unbind_current();
    }

    // ------------------------------------------------------------------------------------------
    // persistent mode

    /// Register the calling thread as logical thread `id` and give it the baton.  Only valid while
    /// no other registered thread of this instance runs (typically: first call on an instance).
    pub fn adopt_current(self: &Arc<Self>, id: usize) {
        self.bind_current(id);
        let mut s = self.lock();
        if s.current.is_some() {
            machinery_failure("baton: adopt_current while another thread holds the baton");
        }
        s.persistent = true;
        s.pool_n = 0;
        s.threads[id].status = Status::Running;
        s.current = Some(id);
    }

    /// Spawn an OS thread that is registered as logical thread `id`; returns once the child is
    /// registered (its pending operation is `Start`), so that the candidate sets of the caller's
    /// following scheduling points do not depend on OS timing.  The caller must hold the baton (or
    /// be unregistered while nothing runs).  When `f` returns the thread unregisters.
    pub fn spawn<F: FnOnce() + Send + 'static>(self: &Arc<Self>, id: usize, name: &str, f: F) -> std::thread::JoinHandle<()> {
        let inst = self.clone();
        let ready = Arc::new(AtomicBool::new(false));
        let ready2 = ready.clone();
        let h = std::thread::Builder::new()
            .name(name.to_string())
            .spawn(move || {
                inst.bind_current(id);
                {
                    let mut s = inst.lock();
                    if s.threads[id].status != Status::Absent && s.threads[id].status != Status::Finished {
                        machinery_failure(&format!("baton: logical thread id {} is already in use", id));
                    }
                    s.seq += 1;
                    let seq = s.seq;
                    let th = &mut s.threads[id];
                    th.status = Status::AtPoint;
                    th.pending = Op::Start;
                    th.in_body = false;
                    th.prio = 0;
                th.since_yield = 0;
                    th.notified = false;
                    th.wait_seq = seq;
                }
                ready2.store(true, Ordering::SeqCst);
                inst.wait(id);
                f();
                inst.exit_current();
            })
            .expect("spawn");
        self.spawning.store(id + 1, Ordering::SeqCst);
        while !ready.load(Ordering::SeqCst) {
            std::thread::yield_now();
        }
        self.spawning.store(0, Ordering::SeqCst);
        h
    }

    /// The calling registered thread leaves the instance for good (persistent mode).
    pub fn exit_current(&self) {
        let Some((_, me)) = cur() else { return };
        let mut s = self.lock();
        s.threads[me].status = Status::Finished;
        self.activity.fetch_add(1, Ordering::Relaxed);
        let next = s.pick(None);
        match next {
            Some(t) => {
                s.execute(t);
                drop(s);
                self.wake(t, GO_RUN);
            }
            None => {
                if s.end != Some(End::Complete) {
                    self.begin_abort(&mut s, None);
                }
                s.current = None;
            }
        }
        Self::unbind_current();
    }

    /// Persistent mode: install the handler called when an execution cannot continue.
    pub fn set_on_stuck(&self, f: Box<dyn Fn(&ExecInfo) + Send + Sync>) {
        *self.on_stuck.lock().unwrap_or_else(|p| p.into_inner()) = Some(f);
    }

    /// Persistent mode, called by the running controller thread at a quiescent point: start a new
    /// execution that replays `prefix`.  Threads, locks and condition variables are kept.
    pub fn begin_execution(&self, prefix: Prefix, arming: Arming, horizon: usize, livelock_bound: u32) {
        let mut s = self.lock();
        s.reset_strategy(prefix);
        s.spurious_left = arming.spurious_wakeups;
        s.explore = !arming.start_closed;
        s.arming = arming;
        s.horizon = horizon;
        s.livelock_bound = livelock_bound;
        // canonical engine state: waiting order by thread id, not by the history of earlier
        // executions (FIFO hand-over and the default notify_one waiter depend on it)
        for t in 0..MAX_THREADS {
            s.threads[t].wait_seq = t as u64;
        }
        s.seq = MAX_THREADS as u64;
        for w in s.conds.values_mut() {
            w.sort();
        }
        s.conds.retain(|_, w| !w.is_empty());
        self.in_exec.store(true, Ordering::SeqCst);
    }

    /// Arm the metadata points of `[lo, hi)` for the rest of the current execution (for objects
    /// that only come into existence during it).  To be called by a thread of the instance while
    /// it runs.
    pub fn arm_range(&self, lo: usize, hi: usize) {
        self.lock().arming.range(lo, hi);
    }

    /// Open / close the exploration window (see `Arming::start_closed`).  To be called by a thread
    /// of the instance while it runs (it holds the baton).
    pub fn set_explore(&self, on: bool) {
        self.lock().explore = on;
    }

    /// Persistent mode: let every other thread run until none of them is enabled.
    pub fn quiesce(&self) {
        if let Some((_, me)) = cur() {
            self.point(me, Op::Quiesce);
        }
    }

    /// Persistent mode: end the execution and return what was observed.
    pub fn end_execution(&self) -> ExecInfo {
        let mut s = self.lock();
        self.in_exec.store(false, Ordering::SeqCst);
        let mut info = s.take_info();
        info.end = End::Complete;
        s.arming = Arming::default();
        info
    }

    /// Persistent mode: (thread id, pending operation) of every thread that is waiting.
    pub fn waiting_threads(&self) -> Vec<(usize, Op)> {
        let s = self.lock();
        (0..MAX_THREADS).filter(|t| s.threads[*t].status == Status::AtPoint).map(|t| (t, s.threads[t].pending)).collect()
    }
}

// ------------------------------------------------------------------------------------------------
// scenarios and the explorer (pool mode)

/// Verdict of the oracle on one execution.
pub struct Verdict {
    /// Outcome class (which thread won, return-value vector ...).
    pub outcome: String,
    /// `(signature, message)` if the property is violated.
    pub violation: Option<(String, String)>,
    /// The execution exercised the forced collision (rule stated by the check).
    pub nontrivial: bool,
}

pub trait Scenario: Sync {
    fn name(&self) -> String;
    /// Parameters of the scenario (goes into the replay case).
    fn params(&self) -> Value;
    fn threads(&self) -> usize;
    /// Build fresh shared state (reset the object/metadata memory) and arm the points.  Runs on
    /// the controller before every execution, while no pool thread runs.
    fn setup(&self, arming: &mut Arming);
    /// Body of logical thread `tid`; runs on a pool thread under the baton.
    fn body(&self, tid: usize);
    /// Oracle on the final state, the per-thread results and the trace.
    fn check(&self, info: &ExecInfo) -> Verdict;
    /// Minimum number of distinct outcomes a non-vacuous exploration must observe.
    fn min_outcomes(&self) -> usize {
        2
    }
}

#[derive(Clone, Debug)]
pub struct Config {
    /// Highest preemption bound to complete; `None` = until the interleaving space is exhausted.
    pub bound: Option<u32>,
    /// Cap on executions (exploration incomplete if hit).
    pub max_executions: u64,
    pub horizon: usize,
    pub livelock_bound: u32,
    pub stop_at_first_violation: bool,
    /// Replay a violating execution once more in this process before reporting it.  Persistent
    /// scenarios whose instance cannot be trusted after a violation set this to false and have
    /// the violation confirmed by a replay in a fresh process instead.
    pub confirm_in_process: bool,
    /// Bound on the number of *free* deviations from the default decisions in one execution
    /// (choices that cost no preemption: which thread runs after the current one blocked, yielded
    /// or ended, which waiter a `notify_one` wakes).  `None` = unbounded.  Long executions with
    /// many blocking points (a whole GC) have exponentially many zero-preemption schedules; there
    /// the exploration is "at most `bound` preemptions and at most `free_bound` free deviations".
    pub free_bound: Option<u32>,
}

impl Default for Config {
    fn default() -> Self {
        Config { bound: None, max_executions: 2_000_000, horizon: 20_000, livelock_bound: 64, stop_at_first_violation: true, confirm_in_process: true, free_bound: None }
    }
}

#[derive(Clone, Debug, Default)]
pub struct Stats {
    pub executions: u64,
    pub transitions: u64,
    pub choice_points: u64,
    pub max_points: u64,
    pub max_preemptions: u32,
    /// Highest bound whose executions were all run (`None`: not even bound 0).
    pub completed_bound: Option<u32>,
    /// The whole interleaving space was explored (no bound, no cap).
    pub unbounded_complete: bool,
    /// No cap was hit for the requested bound.
    pub complete: bool,
    pub outcomes: BTreeMap<String, u64>,
    pub nontrivial: u64,
    pub violations: u64,
    /// Executions per number of preemptions.
    pub by_preemptions: Vec<u64>,
    pub ends: BTreeMap<String, u64>,
}

fn case_json(name: &str, params: &Value, info: &ExecInfo) -> Value {
    json!({
        "engine": "baton",
        "scenario": name,
        "params": params,
        "choices": info.chosen(),
        "masks": info.masks(),
        "schedule": info.schedule(),
        "trace": info.pretty(),
    })
}

fn prefix_of(info: &ExecInfo, upto: usize, alt: Option<u8>) -> Prefix {
    let mut chosen: Vec<u8> = info.choices[..upto].iter().map(|c| c.chosen).collect();
    let mut h = HASH0;
    for c in &info.choices[..upto] {
        h = hash_step(h, c.mask, c.default as usize, c.free);
    }
    if let Some(a) = alt {
        chosen.push(a);
        let c = &info.choices[upto];
        h = hash_step(h, c.mask, c.default as usize, c.free);
    }
    if std::env::var("BATON_FULL_MASKS").is_ok() {
        // debugging aid: divergence is then reported at the exact choice point
        let n = chosen.len();
        let trace: Vec<String> = info.steps.iter().map(|s| format!("t{}:{}", s.tid, s.op.name())).collect();
        return Prefix { debug_parent: Some(Arc::new(trace.join(" "))), chosen, masks: Some(info.choices[..n].iter().map(|c| c.mask).collect()), mask_hash: h, unchecked: false };
    }
    Prefix { debug_parent: None, chosen, masks: None, mask_hash: h, unchecked: false }
}

/// The search: iterative preemption bounding over choice lists.  `run_one(prefix)` performs one
/// complete execution that replays `prefix` and then follows the default decisions, and returns
/// what was observed together with the oracle's verdict.
pub fn drive(name: &str, params: &Value, cfg: &Config, min_outcomes: usize, run: &mut Run, run_one: &mut dyn FnMut(Prefix) -> (ExecInfo, Verdict)) -> Stats {
    let mut stats = Stats::default();
    let mut run_checked = |p: Prefix| -> (ExecInfo, Verdict) {
        let (info, v) = run_one(p);
        if let End::Diverged(m) = &info.end {
            machinery_failure(&format!("baton: replay divergence in scenario {}: {}", name, m));
        }
        (info, v)
    };
    // determinism: the first execution twice
    let (first, fv) = run_checked(Prefix::default());
    if let (Some((sig, msg)), false) = (&fv.violation, cfg.confirm_in_process) {
        // the instance cannot be trusted any more: report (the caller confirms in a fresh process)
        stats.executions = 1;
        stats.transitions = first.steps.len() as u64;
        stats.violations = 1;
        *stats.outcomes.entry(fv.outcome.clone()).or_insert(0) += 1;
        run.violation(sig.clone(), format!("{}: {} | outcome {} | default schedule | trace: {}", name, msg, fv.outcome, first.pretty()), case_json(name, params, &first));
        return stats;
    }
    let (again, av) = run_checked(Prefix::default());
    if first.fingerprint() != again.fingerprint() || fv.outcome != av.outcome || fv.violation.is_some() != av.violation.is_some() {
        machinery_failure(&format!("baton: scenario {} is not deterministic: the default execution gave [{}] -> {} and then [{}] -> {}", name, first.pretty(), fv.outcome, again.pretty(), av.outcome));
    }
    let mut level: Vec<Prefix> = vec![Prefix::default()];
    let mut b = 0u32;
    let mut capped = false;
    let mut stop = false;
    let mut dropped_by_bound = false;
    'levels: loop {
        let mut next: Vec<Prefix> = vec![];
        let mut stack = std::mem::take(&mut level);
        while let Some(p) = stack.pop() {
            if stats.executions >= cfg.max_executions {
                capped = true;
                break 'levels;
            }
            let plen = p.chosen.len();
            let (info, v) = run_checked(p);
            stats.executions += 1;
            stats.transitions += info.steps.len() as u64;
            stats.choice_points += info.choices.len() as u64;
            stats.max_points = stats.max_points.max(info.steps.len() as u64);
            stats.max_preemptions = stats.max_preemptions.max(info.preemptions);
            if stats.by_preemptions.len() <= info.preemptions as usize {
                stats.by_preemptions.resize(info.preemptions as usize + 1, 0);
            }
            stats.by_preemptions[info.preemptions as usize] += 1;
            *stats.ends.entry(info.end.name().to_string()).or_insert(0) += 1;
            *stats.outcomes.entry(v.outcome.clone()).or_insert(0) += 1;
            if v.nontrivial {
                stats.nontrivial += 1;
            }
            if info.preemptions != b {
                machinery_failure(&format!("baton: internal error: execution with {} preemptions explored in round {} (prefix length {}): choices {:?} trace {}", info.preemptions, b, plen, info.choices, info.pretty()));
            }
            if let Some((sig, msg)) = &v.violation {
                // replay the violating execution once more from its full choice list
                let full = Prefix { debug_parent: None, chosen: info.chosen(), masks: Some(info.masks()), mask_hash: 0, unchecked: false };
                let (info2, v2) = if cfg.confirm_in_process { run_checked(full) } else { (info.clone(), Verdict { outcome: v.outcome.clone(), violation: v.violation.clone(), nontrivial: v.nontrivial }) };
                if info2.fingerprint() != info.fingerprint() || v2.violation.as_ref().map(|x| &x.0) != Some(sig) {
                    machinery_failure(&format!("baton: violating execution of {} did not reproduce: first [{}] {:?}, then [{}] {:?}", name, info.pretty(), v.violation, info2.pretty(), v2.violation));
                }
                stats.violations += 1;
                run.violation(sig.clone(), format!("{}: {} | outcome {} | {} preemptions | trace: {}", name, msg, v.outcome, info.preemptions, info.pretty()), case_json(name, params, &info));
                if cfg.stop_at_first_violation {
                    stop = true;
                    break 'levels;
                }
            }
            if std::env::var("BATON_TRACE_LONG").is_ok() && info.steps.len() > 500 {
                eprintln!("[baton] long execution ({} steps, end {:?}, choices {:?}): first 120 steps: {}", info.steps.len(), info.end.name(), info.chosen(), info.steps.iter().take(120).map(|s| format!("t{}:{}", s.tid, s.op.name())).collect::<Vec<_>>().join(" "));
            }
            if stats.executions == 3 {
                run.sample(json!({"scenario": name, "params": params, "choices": info.chosen(), "trace": info.pretty(), "outcome": v.outcome, "preemptions": info.preemptions}));
            }
            // children: deviate from the default at one choice point after the prefix
            let free_used = info.choices[..plen.min(info.choices.len())].iter().filter(|c| c.chosen != c.default && c.free & bit(c.chosen as usize) != 0).count() as u32;
            for i in plen..info.choices.len() {
                let c = info.choices[i];
                debug_assert_eq!(c.chosen, c.default);
                for alt in 0..MAX_THREADS as u8 {
                    if c.mask & bit(alt as usize) == 0 || alt == c.default {
                        continue;
                    }
                    let child = prefix_of(&info, i, Some(alt));
                    if c.free & bit(alt as usize) != 0 {
                        if cfg.free_bound.map(|fb| free_used < fb).unwrap_or(true) {
                            stack.push(child);
                        } else {
                            dropped_by_bound = true;
                        }
                    } else if cfg.bound.map(|mb| b < mb).unwrap_or(true) {
                        if next.len() < 4_000_000 {
                            next.push(child);
                        } else {
                            capped = true;
                        }
                    } else {
                        dropped_by_bound = true;
                    }
                }
            }
        }
        stats.completed_bound = Some(b);
        if next.is_empty() {
            // no execution needs more preemptions: unless the bound cut children off, the whole
            // interleaving space has been explored
            stats.unbounded_complete = !capped && !dropped_by_bound;
            break;
        }
        if let Some(mb) = cfg.bound {
            if b >= mb {
                break;
            }
        }
        b += 1;
        level = next;
    }
    stats.complete = !capped && !stop;
    // vacuity: fewer outcome classes than the scenario must show
    if stats.violations == 0 && stats.complete && stats.outcomes.len() < min_outcomes {
        machinery_failure(&format!("baton: vacuous exploration of {}: {} executions but only {} outcome class(es) {:?}, expected at least {}", name, stats.executions, stats.outcomes.len(), stats.outcomes.keys().collect::<Vec<_>>(), min_outcomes));
    }
    stats
}

/// Pool mode: explore all executions of `sc` up to `cfg.bound` preemptions.  Violations are
/// reported to `run`; machinery problems (divergence, nondeterminism, vacuity) exit with code 2.
pub fn explore<S: Scenario>(sc: &S, cfg: &Config, run: &mut Run) -> Stats {
    let n = sc.threads();
    assert!(n >= 1 && n <= MAX_THREADS);
    let inst = Inst::new();
    inst.set_slot_thread(CTRL);
    let body = |tid: usize| sc.body(tid);
    let body_ref: &(dyn Fn(usize) + Sync) = &body;
    let mut stats = Stats::default();
    std::thread::scope(|scope| {
        for tid in 0..n {
            let inst2 = inst.clone();
            std::thread::Builder::new()
                .name(format!("baton-{}", tid))
                .spawn_scoped(scope, move || inst2.pool_worker(tid, body_ref))
                .expect("spawn pool thread");
        }
        let mut run_one = |prefix: Prefix| -> (ExecInfo, Verdict) {
            let mut arming = Arming::default();
            sc.setup(&mut arming);
            let info = inst.run_pool_execution(n, prefix, arming, cfg.horizon, cfg.livelock_bound);
            let v = if matches!(info.end, End::Diverged(_)) { Verdict { outcome: "diverged".into(), violation: None, nontrivial: false } } else { sc.check(&info) };
            (info, v)
        };
        stats = drive(&sc.name(), &sc.params(), cfg, sc.min_outcomes(), run, &mut run_one);
        for tid in 0..n {
            inst.wake(tid, GO_QUIT);
        }
    });
    stats
}

/// Re-run exactly one execution from a replay case.  Returns the observation and the verdict.
pub fn replay_case<S: Scenario>(sc: &S, case: &Value, horizon: usize, livelock_bound: u32) -> (ExecInfo, Verdict) {
    let chosen: Vec<u8> = case["choices"].as_array().map(|a| a.iter().map(|x| x.as_u64().unwrap_or(0) as u8).collect()).unwrap_or_default();
    let masks: Option<Vec<u32>> = case["masks"].as_array().map(|a| a.iter().map(|x| x.as_u64().unwrap_or(0) as u32).collect());
    let prefix = Prefix { debug_parent: None, chosen: chosen.clone(), masks, mask_hash: 0, unchecked: false };
    let n = sc.threads();
    let inst = Inst::new();
    inst.set_slot_thread(CTRL);
    let body = |tid: usize| sc.body(tid);
    let body_ref: &(dyn Fn(usize) + Sync) = &body;
    let mut out = None;
    std::thread::scope(|scope| {
        for tid in 0..n {
            let inst2 = inst.clone();
            std::thread::Builder::new().name(format!("baton-{}", tid)).spawn_scoped(scope, move || inst2.pool_worker(tid, body_ref)).expect("spawn pool thread");
        }
        let mut arming = Arming::default();
        sc.setup(&mut arming);
        let info = inst.run_pool_execution(n, prefix, arming, horizon, livelock_bound);
        if let End::Diverged(m) = &info.end {
            machinery_failure(&format!("baton: replay divergence in scenario {}: {}", sc.name(), m));
        }
        if info.choices.len() < chosen.len() {
            machinery_failure(&format!("baton: replay of {} consumed only {} of {} recorded choices", sc.name(), info.choices.len(), chosen.len()));
        }
        let v = sc.check(&info);
        out = Some((info, v));
        for tid in 0..n {
            inst.wake(tid, GO_QUIT);
        }
    });
    out.unwrap()
}

/// Add the statistics of one explored scenario to the evidence counters.
pub fn add_stats(run: &mut Run, st: &Stats) {
    run.add("states", st.executions);
    run.add("transitions", st.transitions);
    run.add("evaluations", st.executions);
    run.add("traces_validated_against_impl", st.executions);
    run.add("distinct_nontrivial", st.nontrivial);
    run.add("choice_points", st.choice_points);
    run.add("scenarios", 1);
    if st.unbounded_complete {
        run.add("scenarios_all_interleavings", 1);
    }
    let d = run.get("max_depth").max(st.max_points);
    run.set("max_depth", d);
    let mp = run.get("max_preemptions_in_an_execution").max(st.max_preemptions as u64);
    run.set("max_preemptions_in_an_execution", mp);
    let ex = run.coverage.get("exhaustive").and_then(|v| v.as_bool()).unwrap_or(true);
    run.set("exhaustive", ex && st.complete);
    // the bound completed by *every* scenario
    // (a scenario whose whole interleaving space was explored counts as 99)
    let cb = if st.unbounded_complete { 99 } else { st.completed_bound.map(|b| b as u64).unwrap_or(0) };
    let cur = run.coverage.get("completed_preemption_bound_min").and_then(|v| v.as_u64());
    run.set("completed_preemption_bound_min", cur.map(|c| c.min(cb)).unwrap_or(cb));
    let mut o = run.coverage.get("outcome_classes").and_then(|v| v.as_object()).cloned().unwrap_or_default();
    for (k, n) in &st.outcomes {
        let c = o.get(k).and_then(|v| v.as_u64()).unwrap_or(0);
        o.insert(k.clone(), json!(c + n));
    }
    run.coverage.insert("outcome_classes".into(), Value::Object(o));
    let mut e = run.coverage.get("execution_ends").and_then(|v| v.as_object()).cloned().unwrap_or_default();
    for (k, n) in &st.ends {
        let c = e.get(k).and_then(|v| v.as_u64()).unwrap_or(0);
        e.insert(k.clone(), json!(c + n));
    }
    run.coverage.insert("execution_ends".into(), Value::Object(e));
    let mut bp: Vec<u64> = run.coverage.get("executions_by_preemptions").and_then(|v| v.as_array()).map(|a| a.iter().map(|x| x.as_u64().unwrap_or(0)).collect()).unwrap_or_default();
    if bp.len() < st.by_preemptions.len() {
        bp.resize(st.by_preemptions.len(), 0);
    }
    for (i, n) in st.by_preemptions.iter().enumerate() {
        bp[i] += n;
    }
    run.coverage.insert("executions_by_preemptions".into(), json!(bp));
}

/// Explore many independent scenarios on up to `jobs` OS threads (each exploration has its own
/// instance and pool).  `make(i, slot)` builds scenario `i` inside worker `slot` (`0..jobs`; use it
/// to give concurrently explored scenarios disjoint scratch memory); results are merged in index
/// order, so the evidence does not depend on timing.
pub fn explore_many<S: Scenario>(run: &mut Run, count: usize, jobs: usize, make: impl Fn(usize, usize) -> (S, Config) + Sync) -> Vec<Stats> {
    let next = std::sync::atomic::AtomicUsize::new(0);
    let results: Mutex<Vec<Option<(Stats, Value)>>> = Mutex::new((0..count).map(|_| None).collect());
    let tier = run.tier;
    let id = run.id.clone();
    std::thread::scope(|sc| {
        for slot in 0..jobs.max(1).min(count.max(1)) {
            let (next, results, make, id) = (&next, &results, &make, &id);
            sc.spawn(move || {
                crate::common::quiet_panics();
                loop {
                    let i = next.fetch_add(1, Ordering::SeqCst);
                    if i >= count {
                        break;
                    }
                    let (s, cfg) = make(i, slot);
                    let mut sub = Run::new(id, tier);
                    let t0 = std::time::Instant::now();
                    let st = explore(&s, &cfg, &mut sub);
                    if std::env::var("BATON_TIMING").is_ok() {
                        eprintln!("[baton] {:<70} {:>9} executions {:>10} steps  by preemptions {:?}  all={} {:>8.1} ms", s.name(), st.executions, st.transitions, st.by_preemptions, st.unbounded_complete, t0.elapsed().as_secs_f64() * 1e3);
                    }
                    results.lock().unwrap()[i] = Some((st, sub.to_child_json()));
                }
            });
        }
    });
    let mut out = vec![];
    for r in results.into_inner().unwrap() {
        let (st, j) = r.unwrap();
        if let Some(a) = j.get("violations").and_then(|c| c.as_array()) {
            for x in a {
                run.violation(x["signature"].as_str().unwrap_or("?").to_string(), x["message"].as_str().unwrap_or("").to_string(), x["case"].clone());
            }
        }
        if let Some(a) = j["coverage"].get("samples").and_then(|c| c.as_array()) {
            for s in a {
                run.sample(s.clone());
            }
        }
        add_stats(run, &st);
        out.push(st);
    }
    out
}

// ------------------------------------------------------------------------------------------------
// harness-side mutex / condition variable going through the runtime seam (used by the self-test;
// also the pattern for a `std::sync` shim inside mmtk-core)

pub struct BMutex<T> {
    inner: Mutex<T>,
}

pub struct BGuard<'a, T> {
    m: &'a BMutex<T>,
    g: Option<MutexGuard<'a, T>>,
}

impl<T> BMutex<T> {
    pub fn new(v: T) -> Self {
        BMutex { inner: Mutex::new(v) }
    }
    fn id(&self) -> usize {
        self as *const _ as usize
    }
    pub fn lock(&self) -> BGuard<'_, T> {
        rt::lock_acquire(self.id(), LockMode::Mutex);
        let g = if is_registered() {
            // the logical lock has been granted: the real one must be free
            match self.inner.try_lock() {
                Ok(g) => g,
                Err(std::sync::TryLockError::Poisoned(p)) => p.into_inner(),
                Err(_) => machinery_failure("baton: BMutex really contended although logically granted"),
            }
        } else {
            self.inner.lock().unwrap_or_else(|p| p.into_inner())
        };
        BGuard { m: self, g: Some(g) }
    }
}

impl<T> std::ops::Deref for BGuard<'_, T> {
    type Target = T;
    fn deref(&self) -> &T {
        self.g.as_ref().unwrap()
    }
}
impl<T> std::ops::DerefMut for BGuard<'_, T> {
    fn deref_mut(&mut self) -> &mut T {
        self.g.as_mut().unwrap()
    }
}
impl<T> Drop for BGuard<'_, T> {
    fn drop(&mut self) {
        self.g = None;
        rt::lock_release(self.m.id(), LockMode::Mutex);
    }
}

pub struct BCondvar {
    inner: std::sync::Condvar,
}

impl BCondvar {
    pub fn new() -> Self {
        BCondvar { inner: std::sync::Condvar::new() }
    }
    fn id(&self) -> usize {
        self as *const _ as usize
    }
    pub fn wait<'a, T>(&self, mut guard: BGuard<'a, T>) -> BGuard<'a, T> {
        if is_registered() {
            // really unlock, wait logically (releases and re-acquires the logical mutex), really lock
            guard.g = None;
            rt::cond_wait(self.id(), guard.m.id());
            guard.g = Some(match guard.m.inner.try_lock() {
                Ok(g) => g,
                Err(std::sync::TryLockError::Poisoned(p)) => p.into_inner(),
                Err(_) => machinery_failure("baton: BMutex really contended after a logical condition wait"),
            });
            guard
        } else {
            let g = guard.g.take().unwrap();
            guard.g = Some(self.inner.wait(g).unwrap_or_else(|p| p.into_inner()));
            guard
        }
    }
    pub fn notify_one(&self) {
        rt::cond_notify(self.id(), false);
        self.inner.notify_one();
    }
    pub fn notify_all(&self) {
        rt::cond_notify(self.id(), true);
        self.inner.notify_all();
    }
}
