//! Monitors over the binding's event log (what MMTk asked the VM to do).  They run on every
//! collection any `shadowvm` driver performs (DESIGN.md 4.3, C11 / C13).

use crate::shadowvm::{Fail, World};
use crate::vm::{VmEvent, MUTATOR_TLS_BASE};

fn fail<T>(sig: &str, msg: String) -> Result<T, Fail> {
    Err((sig.to_string(), msg))
}

/// Split an event log into collections (a collection ends with its `ResumeMutators`); the
/// mutator-side `BlockForGc*` events are not ordered with respect to the collector's and are
/// dropped.  Events after the last `ResumeMutators` (there should be none) form a trailing piece.
pub fn split_collections(events: &[VmEvent]) -> (Vec<Vec<VmEvent>>, Vec<VmEvent>) {
    let mut out = vec![];
    let mut cur = vec![];
    for e in events {
        match e {
            VmEvent::BlockForGcEnter(_) | VmEvent::BlockForGcExit(_) | VmEvent::OutOfMemory(..) => {}
            VmEvent::ResumeMutators => {
                cur.push(e.clone());
                out.push(std::mem::take(&mut cur));
            }
            _ => cur.push(e.clone()),
        }
    }
    (out, cur)
}

/// C11: per collection — `stop_all_mutators` exactly once and before anything else the collector
/// asks of the VM; each bound mutator visited once by the stop callback and its roots scanned
/// exactly once per root-scanning round (plans that forward after liveness re-scan roots in
/// their documented second round: exactly twice); `resume_mutators` exactly once, last.
pub fn stw_bracket(events: &[VmEvent], w: &World) -> Result<(), Fail> {
    let (gcs, trailing) = split_collections(events);
    if !trailing.is_empty() {
        return fail("c11:after_resume", format!("the collector called into the VM after resume_mutators without a new stop_all_mutators: {:?}", &trailing[..trailing.len().min(4)]));
    }
    let constraints = w.mmtk.get_plan().constraints();
    let rounds = if constraints.needs_forward_after_liveness { 2 } else { 1 };
    let concurrent = w.cfg.plan == "ConcurrentImmix";
    let bound: Vec<usize> = w.shadow.roots.iter().enumerate().filter(|(_, r)| r.is_some()).map(|(m, _)| MUTATOR_TLS_BASE + m).collect();
    for gc in gcs {
        let stops = gc.iter().filter(|e| matches!(e, VmEvent::StopAllMutators)).count();
        if stops != 1 {
            return fail("c11:stop_count", format!("stop_all_mutators called {} times in one collection", stops));
        }
        if !matches!(gc[0], VmEvent::StopAllMutators) {
            return fail("c11:before_stop", format!("{:?} happened before stop_all_mutators", gc[0]));
        }
        let resumes = gc.iter().filter(|e| matches!(e, VmEvent::ResumeMutators)).count();
        if resumes != 1 || !matches!(gc.last(), Some(VmEvent::ResumeMutators)) {
            return fail("c11:resume_count", format!("resume_mutators called {} times in one collection", resumes));
        }
        for tls in &bound {
            let visited = gc.iter().filter(|e| matches!(e, VmEvent::MutatorVisited(t) if t == tls)).count();
            if visited != 1 {
                return fail("c11:visit_count", format!("stop_all_mutators' visitor ran {} times for mutator {}", visited, tls));
            }
            let scans = gc.iter().filter(|e| matches!(e, VmEvent::ScanMutatorRoots(t) if t == tls)).count();
            let ok = if concurrent { scans <= 1 } else { scans == rounds };
            if !ok {
                return fail("c11:scan_count", format!("roots of mutator {} were scanned {} times in one collection (expected {})", tls, scans, rounds));
            }
        }
        // no scan of a mutator that is not bound
        for e in &gc {
            if let VmEvent::ScanMutatorRoots(t) = e {
                if !bound.contains(t) {
                    return fail("c11:scan_unbound", format!("roots of unbound mutator {} were scanned", t));
                }
            }
        }
    }
    Ok(())
}

/// C13: per collection — `process_weak_refs` is called in rounds 1, 2, ... n; every call but the
/// last returned true and the last returned false (whenever it returns true it is called again,
/// and never after it returned false); when the harness knows the ephemeron chain depth, n equals
/// it (+1); `forward_weak_refs` is called exactly once, after the last round, in plans that
/// forward after liveness, and never otherwise.  (That the closure is complete at each call is
/// checked inside the upcall itself, see `vm.rs`.)
pub fn weak_rounds(events: &[VmEvent], w: &World, expected_calls: Option<usize>) -> Result<(), Fail> {
    let (gcs, _) = split_collections(events);
    let forwards = w.mmtk.get_plan().constraints().needs_forward_after_liveness;
    let single = gcs.len() == 1;
    for gc in gcs {
        let rounds: Vec<(usize, bool)> = gc.iter().filter_map(|e| if let VmEvent::ProcessWeakRefs { round, more } = e { Some((*round, *more)) } else { None }).collect();
        // a pause without a reference-processing stage (ConcurrentImmix initial mark) has none
        if rounds.is_empty() {
            if w.cfg.plan == "ConcurrentImmix" {
                continue;
            }
            return fail("weak:not_called", "a collection finished without calling process_weak_refs".to_string());
        }
        for (i, (r, more)) in rounds.iter().enumerate() {
            if *r != i + 1 {
                return fail("weak:round_order", format!("process_weak_refs rounds out of order: {:?}", rounds));
            }
            let last = i + 1 == rounds.len();
            if last && *more {
                return fail("weak:not_repeated", format!("process_weak_refs returned true in round {} but was not called again: {:?}", r, rounds));
            }
            if !last && !*more {
                return fail("weak:called_after_false", format!("process_weak_refs returned false in round {} but was called again: {:?}", r, rounds));
            }
        }
        if let (Some(n), true) = (expected_calls, single) {
            if rounds.len() != n {
                return fail("weak:round_count", format!("process_weak_refs was called {} times, the weak table needs {} rounds", rounds.len(), n));
            }
        }
        let fw: Vec<usize> = gc.iter().enumerate().filter(|(_, e)| matches!(e, VmEvent::ForwardWeakRefs)).map(|(i, _)| i).collect();
        if forwards {
            let last_round = gc.iter().rposition(|e| matches!(e, VmEvent::ProcessWeakRefs { .. })).unwrap();
            if fw.len() != 1 || fw[0] < last_round {
                return fail("weak:forward", format!("forward_weak_refs was called {} times (expected once, after the last process_weak_refs round)", fw.len()));
            }
        } else if !fw.is_empty() {
            return fail("weak:forward", "forward_weak_refs was called in a plan that does not forward after liveness".to_string());
        }
    }
    Ok(())
}
