//! `shadowvm`: program exploration through the real `VerifVM` binding (DESIGN.md 4.3).
//!
//! A `World` owns one real `MMTK<VerifVM>` instance (one per process), plays every mutator on the
//! calling thread and keeps a **shadow heap** — the reference model — next to the real heap:
//! object id -> (size, fields as ids, semantics, address, ...), the root tables, and the set of
//! address ranges handed out since the last collection.  After every collection (requested or
//! triggered by an allocation) the real heap is walked from the real root slots and must be the
//! same graph as the shadow heap (C01); every allocation result is checked against the live
//! intervals (C02) and the allocation contract (C03); objects that must not move are checked for
//! their address (C04).  Property-specific drivers choose the operation alphabet.

use crate::vm::*;
use mmtk::util::alloc::AllocationOptions;
use mmtk::util::options::PlanSelector;
use mmtk::util::{Address, ObjectReference};
use mmtk::{AllocationSemantics, MMTKBuilder, Mutator};
use serde_json::{json, Value};
use std::collections::{BTreeMap, HashMap, HashSet};

pub const ALL_PLANS: [&str; 11] = ["NoGC", "SemiSpace", "GenCopy", "GenImmix", "MarkSweep", "PageProtect", "Immix", "MarkCompact", "Compressor", "StickyImmix", "ConcurrentImmix"];
pub const COLLECTING_PLANS: [&str; 10] = ["SemiSpace", "GenCopy", "GenImmix", "MarkSweep", "PageProtect", "Immix", "MarkCompact", "Compressor", "StickyImmix", "ConcurrentImmix"];

pub fn plan_selector(name: &str) -> PlanSelector {
    match name {
        "NoGC" => PlanSelector::NoGC,
        "SemiSpace" => PlanSelector::SemiSpace,
        "GenCopy" => PlanSelector::GenCopy,
        "GenImmix" => PlanSelector::GenImmix,
        "MarkSweep" => PlanSelector::MarkSweep,
        "PageProtect" => PlanSelector::PageProtect,
        "Immix" => PlanSelector::Immix,
        "MarkCompact" => PlanSelector::MarkCompact,
        "Compressor" => PlanSelector::Compressor,
        "StickyImmix" => PlanSelector::StickyImmix,
        "ConcurrentImmix" => PlanSelector::ConcurrentImmix,
        _ => crate::common::machinery_failure(&format!("unknown plan {}", name)),
    }
}

#[derive(Clone, Debug)]
pub struct BootCfg {
    pub plan: String,
    pub heap_bytes: usize,
    pub workers: usize,
    /// extra `name=value` options
    pub options: Vec<(String, String)>,
    /// record every object `verify_heap` forgets (dead, not in a never-collected space) in
    /// `World::dead_log` (the consumer drains it); off by default
    pub record_dead: bool,
    /// called at the end of every successful `World::gc(m, exhaustive)` with `exhaustive`
    pub post_gc_hook: Option<fn(&mut World, bool) -> Result<(), Fail>>,
}

impl BootCfg {
    pub fn new(plan: &str) -> Self {
        BootCfg { plan: plan.to_string(), heap_bytes: 16 << 20, workers: 1, options: vec![], record_dead: false, post_gc_hook: None }
    }
    pub fn json(&self) -> Value {
        json!({"plan": self.plan, "heap_bytes": self.heap_bytes, "workers": self.workers, "options": self.options, "placement": PLACEMENT, "features": feature_set()})
    }
}

pub fn feature_set() -> Vec<&'static str> {
    let mut v = vec![];
    if cfg!(feature = "vo_bit") {
        v.push("vo_bit");
    }
    if cfg!(feature = "pinning") {
        v.push("object_pinning");
    }
    if cfg!(feature = "fs_s2") {
        v.push("fs_s2");
    }
    if cfg!(feature = "fs_s3") {
        v.push("fs_s3");
    }
    if cfg!(feature = "fs_s4") {
        v.push("fs_s4:lazy_sweeping");
    }
    v
}

#[derive(Clone, Copy, Debug, PartialEq, Eq, Hash)]
pub enum Sem {
    Default,
    Immortal,
    Los,
    Code,
    ReadOnly,
    LargeCode,
    NonMoving,
}

impl Sem {
    pub const ALL: [Sem; 7] = [Sem::Default, Sem::Immortal, Sem::Los, Sem::Code, Sem::ReadOnly, Sem::LargeCode, Sem::NonMoving];
    pub fn to_mmtk(self) -> AllocationSemantics {
        match self {
            Sem::Default => AllocationSemantics::Default,
            Sem::Immortal => AllocationSemantics::Immortal,
            Sem::Los => AllocationSemantics::Los,
            Sem::Code => AllocationSemantics::Code,
            Sem::ReadOnly => AllocationSemantics::ReadOnly,
            Sem::LargeCode => AllocationSemantics::LargeCode,
            Sem::NonMoving => AllocationSemantics::NonMoving,
        }
    }
    pub fn name(self) -> &'static str {
        match self {
            Sem::Default => "Default",
            Sem::Immortal => "Immortal",
            Sem::Los => "Los",
            Sem::Code => "Code",
            Sem::ReadOnly => "ReadOnly",
            Sem::LargeCode => "LargeCode",
            Sem::NonMoving => "NonMoving",
        }
    }
    pub fn from_name(s: &str) -> Sem {
        *Sem::ALL.iter().find(|x| x.name() == s).unwrap_or(&Sem::Default)
    }
}

#[derive(Clone, Debug)]
pub struct SObj {
    pub id: u64,
    pub size: usize,
    pub align: usize,
    pub sem: Sem,
    pub addr: usize,
    pub fields: Vec<Option<u64>>,
    pub is_ref: bool,
    pub referent: Option<u64>,
    pub pinned: bool,
    /// the object was moved by at least one collection
    pub moved: u32,
    /// collections survived
    pub age: u32,
}

#[derive(Default)]
pub struct Shadow {
    pub objs: HashMap<u64, SObj>,
    /// per mutator root table (None = mutator not bound)
    pub roots: Vec<Option<[Option<u64>; MAX_ROOTS]>>,
    pub globals: [Option<u64>; MAX_ROOTS],
    /// address ranges handed out since the last collection: start -> (end, id)
    pub recent: BTreeMap<usize, (usize, u64)>,
    /// address ranges of the objects that survived the last collection (and of immortal
    /// garbage): start -> (end, id); rebuilt by `verify_heap`
    pub live_iv: BTreeMap<usize, (usize, u64)>,
    /// objects in never-collected spaces that became unreachable: must stay intact for ever
    pub immortal_garbage: Vec<SObj>,
    /// ephemeron table of the binding (key id, value id): the value is reachable iff the key is
    pub ephemerons: Vec<(u64, u64)>,
}

#[derive(Default, Clone, Debug)]
pub struct GcReport {
    pub gcs: u64,
    pub reachable: usize,
    pub moved: usize,
    pub died: usize,
    pub events: Vec<VmEvent>,
}

#[derive(Default, Clone, Debug)]
pub struct WorldStats {
    pub ops: u64,
    pub allocs: u64,
    pub gcs: u64,
    pub gcs_with_live_and_dead: u64,
    pub objects_moved: u64,
    pub objects_verified: u64,
    pub implicit_gcs: u64,
    pub allocs_after_reclaim: u64,
    pub immortal_checked: u64,
    pub two_mutator_gcs: u64,
    pub weak_extra_rounds: u64,
    pub weak_entries_died: u64,
}

pub struct World {
    pub cfg: BootCfg,
    pub mmtk: &'static mmtk::MMTK<VerifVM>,
    pub shadow: Shadow,
    pub satb: bool,
    pub max_non_los: usize,
    pub collects: bool,
    pub moves: bool,
    pub last_gc_count: u64,
    pub stats: WorldStats,
    /// monitors over the binding's event log, run on every collection
    pub monitor_c11: bool,
    pub last_report: GcReport,
    /// a collection since the last reset reclaimed something while other objects stayed live
    pub reclaimed_next_to_live: bool,
    /// publish the expected closure stages to the binding before every requested collection
    pub expect_weak_stages: bool,
    pub monitor_c13: bool,
    /// number of `process_weak_refs` calls the requested collection must make (set by `gc`)
    pub expected_weak_calls: Option<usize>,
    /// the collection being verified was requested by the harness and traced the whole heap
    pub gc_traced_whole_heap: bool,
    /// (opt-in, `BootCfg::record_dead`) the objects forgotten by `verify_heap` because they died
    /// in a collected space, with their last address; drained by the consumer
    pub record_dead: bool,
    pub dead_log: Vec<SObj>,
    /// (same opt-in) surviving objects a collection moved, as they were before the move (`addr` =
    /// the address they vacated); drained by the consumer
    pub vacated_log: Vec<SObj>,
    /// (opt-in, `BootCfg::post_gc_hook`) extra oracle run after every requested collection
    pub post_gc_hook: Option<fn(&mut World, bool) -> Result<(), Fail>>,
}

/// A violation found by the world: (signature class, message).
pub type Fail = (String, String);

fn fail<T>(sig: &str, msg: String) -> Result<T, Fail> {
    Err((sig.to_string(), msg))
}

impl World {
    /// Create the MMTK instance of this process (once), spawn its workers, bind mutator 0.
    pub fn boot(cfg: BootCfg) -> World {
        init_state();
        if std::env::var("RUST_LOG").is_err() {
            std::env::set_var("RUST_LOG", "off");
        }
        let mut builder = MMTKBuilder::new_no_env_vars();
        assert!(builder.options.plan.set(plan_selector(&cfg.plan)));
        assert!(builder.set_option("gc_trigger", &format!("FixedHeapSize:{}", cfg.heap_bytes)));
        assert!(builder.set_option("threads", &format!("{}", cfg.workers)));
        for (k, v) in &cfg.options {
            if !builder.set_option(k, v) {
                crate::common::machinery_failure(&format!("option {}={} rejected", k, v));
            }
        }
        let mmtk: &'static mmtk::MMTK<VerifVM> = Box::leak(mmtk::memory_manager::mmtk_init::<VerifVM>(&builder));
        if MMTK_INSTANCE.set(mmtk).is_err() {
            crate::common::machinery_failure("second MMTK instance in one process");
        }
        mmtk::memory_manager::initialize_collection(mmtk, mutator_tls(0).0);
        let constraints = mmtk.get_plan().constraints();
        let satb = matches!(constraints.barrier, mmtk::BarrierSelector::SATBBarrier);
        let mut w = World {
            mmtk,
            shadow: Shadow::default(),
            satb,
            max_non_los: constraints.max_non_los_default_alloc_bytes,
            collects: constraints.collects_garbage,
            moves: constraints.moves_objects,
            last_gc_count: 0,
            stats: WorldStats::default(),
            monitor_c11: true,
            last_report: GcReport::default(),
            reclaimed_next_to_live: false,
            expect_weak_stages: false,
            monitor_c13: true,
            expected_weak_calls: None,
            gc_traced_whole_heap: false,
            record_dead: cfg.record_dead,
            dead_log: vec![],
            vacated_log: vec![],
            post_gc_hook: cfg.post_gc_hook,
            cfg,
        };
        w.bind(0);
        w
    }

    // -----------------------------------------------------------------------------------------
    // mutators and roots

    pub fn bind(&mut self, m: usize) {
        let tls = mutator_tls(m);
        let mutator = Box::into_raw(mmtk::memory_manager::bind_mutator(self.mmtk, tls));
        let roots = Box::into_raw(Box::new([0usize; MAX_ROOTS]));
        with_state(|s| s.mutators.push(MutatorRec { tls: MUTATOR_TLS_BASE + m, mutator, roots, pinning_roots: vec![], tpinning_roots: vec![] }));
        while self.shadow.roots.len() <= m {
            self.shadow.roots.push(None);
        }
        self.shadow.roots[m] = Some([None; MAX_ROOTS]);
    }

    pub fn is_bound(&self, m: usize) -> bool {
        self.shadow.roots.get(m).map(|r| r.is_some()).unwrap_or(false)
    }

    /// Destroy mutator `m`: its roots are dropped first (a destroyed mutator reports no roots).
    pub fn destroy(&mut self, m: usize) {
        let rec = with_state(|s| {
            let i = s.mutators.iter().position(|x| x.tls == MUTATOR_TLS_BASE + m).expect("destroy of unbound mutator");
            s.mutators.remove(i)
        });
        unsafe {
            mmtk::memory_manager::destroy_mutator(&mut *rec.mutator);
            drop(Box::from_raw(rec.mutator));
            drop(Box::from_raw(rec.roots));
        }
        self.shadow.roots[m] = None;
    }

    fn mutator(&self, m: usize) -> &'static mut Mutator<VerifVM> {
        with_state(|s| {
            let r = s.mutators.iter().find(|x| x.tls == MUTATOR_TLS_BASE + m).expect("unbound mutator");
            unsafe { &mut *r.mutator }
        })
    }

    fn root_slot(&self, m: usize, slot: usize) -> Address {
        with_state(|s| {
            let r = s.mutators.iter().find(|x| x.tls == MUTATOR_TLS_BASE + m).expect("unbound mutator");
            Address::from_mut_ptr(r.roots as *mut usize) + 8 * slot
        })
    }

    pub fn root(&self, m: usize, slot: usize) -> Option<u64> {
        self.shadow.roots[m].as_ref().unwrap()[slot]
    }

    pub fn root_obj(&self, m: usize, slot: usize) -> Option<ObjectReference> {
        ObjectReference::from_raw_address(unsafe { Address::from_usize(read_word(self.root_slot(m, slot))) })
    }

    pub fn set_root(&mut self, m: usize, slot: usize, id: Option<u64>) {
        let addr = id.map(|i| self.shadow.objs[&i].addr).unwrap_or(0);
        write_word(self.root_slot(m, slot), addr);
        self.shadow.roots[m].as_mut().unwrap()[slot] = id;
    }

    pub fn drop_root(&mut self, m: usize, slot: usize) {
        self.stats.ops += 1;
        self.set_root(m, slot, None);
    }

    pub fn obj_ref(&self, id: u64) -> ObjectReference {
        ObjectReference::from_raw_address(unsafe { Address::from_usize(self.shadow.objs[&id].addr) }).unwrap()
    }

    // -----------------------------------------------------------------------------------------
    // allocation

    /// Effective semantics the binding must use: Default requests above the plan's non-LOS limit
    /// go to the large object space (a documented obligation of the binding).
    pub fn effective_sem(&self, size: usize, sem: Sem) -> Sem {
        if sem == Sem::Default && size > self.max_non_los {
            Sem::Los
        } else {
            sem
        }
    }

    /// Raw allocation + the contract checks of C02/C03 on the result.  Does not create an object.
    pub fn alloc_raw(&mut self, m: usize, size: usize, align: usize, offset: usize, sem: Sem, options: Option<AllocationOptions>) -> Result<Address, Fail> {
        let mu = self.mutator(m);
        note_request_base();
        let a = match options {
            None => mmtk::memory_manager::alloc(mu, size, align, offset, sem.to_mmtk()),
            Some(o) => mmtk::memory_manager::alloc_with_options(mu, size, align, offset, sem.to_mmtk(), o),
        };
        self.stats.allocs += 1;
        if self.reclaimed_next_to_live {
            self.stats.allocs_after_reclaim += 1;
        }
        // an allocation may have triggered collections
        self.after_possible_gc()?;
        if a.is_zero() {
            return Ok(a);
        }
        if (a.as_usize() + offset) % align != 0 {
            return fail("alloc:misaligned", format!("alloc(size={}, align={}, offset={}, {}) returned {} which is not aligned", size, align, offset, sem.name(), a));
        }
        // C02: disjoint from every live / recently allocated range
        if let Some((s, e, id)) = self.overlap(a.as_usize(), a.as_usize() + size) {
            return fail("alloc:overlap", format!("alloc(size={}, align={}, {}) returned [{:#x},{:#x}) overlapping object id {} at [{:#x},{:#x})", size, align, sem.name(), a.as_usize(), a.as_usize() + size, id, s, e));
        }
        Ok(a)
    }

    /// The live interval (start, end, id) overlapping [s, e), if any.
    pub fn overlap(&self, s: usize, e: usize) -> Option<(usize, usize, u64)> {
        for map in [&self.shadow.recent, &self.shadow.live_iv] {
            // intervals in a map are pairwise disjoint, so only the last one starting below `e`
            // can reach into [s, e)
            if let Some((&rs, &(re, id))) = map.range(..e).next_back() {
                if re > s && rs < e {
                    return Some((rs, re, id));
                }
            }
        }
        None
    }

    /// Allocate an object with `nrefs` reference fields and store it in root `slot` of mutator `m`.
    #[allow(clippy::too_many_arguments)]
    pub fn alloc_obj(&mut self, m: usize, slot: usize, size: usize, nrefs: usize, align: usize, sem: Sem, is_ref: bool) -> Result<Option<u64>, Fail> {
        self.stats.ops += 1;
        let sem = self.effective_sem(size, sem);
        let a = self.alloc_raw(m, size, align, 0, sem, None)?;
        if a.is_zero() {
            return Ok(None);
        }
        // zeroing (C03) — checked here because the object is about to be initialised
        for k in (0..size).step_by(8) {
            if read_word(a + k) != 0 {
                return fail("alloc:not_zeroed", format!("alloc(size={}, {}) returned {} with non-zero word at +{}", size, sem.name(), a, k));
            }
        }
        let id = NEXT_ID.fetch_add(1, std::sync::atomic::Ordering::SeqCst);
        let flags = if is_ref { FLAG_REFERENCE } else { 0 };
        let o = init_object(a, size, nrefs, flags, align, id);
        mmtk::memory_manager::post_alloc(self.mutator(m), o, size, sem.to_mmtk());
        self.shadow.objs.insert(id, SObj { id, size, align, sem, addr: a.as_usize(), fields: vec![None; nrefs], is_ref, referent: None, pinned: false, moved: 0, age: 0 });
        self.shadow.recent.insert(a.as_usize(), (a.as_usize() + size, id));
        self.set_root(m, slot, Some(id));
        Ok(Some(id))
    }

    /// The mutator reaches a safepoint outside any MMTk call: if a collection has been requested
    /// (by an allocation that polled but was not allowed to block) it runs now; the harness thread
    /// waits for it the way `block_for_gc` does, then verifies the heap.
    pub fn safepoint(&mut self) -> Result<(), Fail> {
        let pending = |w: &World| with_state(|s| s.gc_active) || mmtk::util::verif::c03::gc_requested(w.mmtk);
        if pending(self) {
            let t0 = std::time::Instant::now();
            BLOCKED.store(true, std::sync::atomic::Ordering::SeqCst);
            while pending(self) {
                std::thread::sleep(std::time::Duration::from_micros(50));
                if t0.elapsed().as_secs() > 60 {
                    eprintln!("World::safepoint waited 60 s for a requested collection");
                    std::process::exit(3);
                }
            }
            BLOCKED.store(false, std::sync::atomic::Ordering::SeqCst);
        }
        self.after_possible_gc()
    }

    /// One large-object allocation request of `size` bytes with `at_safepoint = false` (and no
    /// over-commit, no OOM upcall): refused with null when it would need a collection, otherwise
    /// granted (then published as garbage).  A collection it requested without blocking runs at
    /// the safepoint that follows.
    pub fn nonsafepoint_request(&mut self, m: usize, size: usize) -> Result<bool, Fail> {
        let opts = AllocationOptions { allow_overcommit: false, at_safepoint: false, allow_oom_call: false };
        let a = self.alloc_raw(m, size, 8, 0, Sem::Los, Some(opts))?;
        if !a.is_zero() {
            let id = NEXT_ID.fetch_add(1, std::sync::atomic::Ordering::SeqCst);
            let o = init_object(a, size, 0, 0, 8, id);
            mmtk::memory_manager::post_alloc(self.mutator(m), o, size, Sem::Los.to_mmtk());
            self.shadow.recent.insert(a.as_usize(), (a.as_usize() + size, id));
        }
        self.safepoint()?;
        Ok(!a.is_zero())
    }

    /// Fill most of the heap with one rooted large object, then make `n` large allocation
    /// requests that cannot be satisfied without a collection and are NOT at a safepoint (they
    /// must be refused with null, leaving the page accounting as it was), then drop the filler.
    pub fn refused_nonsafepoint_allocs(&mut self, m: usize, n: usize) -> Result<(), Fail> {
        self.stats.ops += 1;
        if !self.collects {
            return Ok(());
        }
        let tmp = MAX_ROOTS - 1;
        let fill = (self.cfg.heap_bytes / 16 * 9) & !4095;
        if self.alloc_obj(m, tmp, fill, 0, 8, Sem::Los, false)?.is_none() {
            return Ok(());
        }
        for _ in 0..n {
            self.nonsafepoint_request(m, (self.cfg.heap_bytes / 2) & !4095)?;
        }
        self.set_root(m, tmp, None);
        Ok(())
    }

    /// Allocate `size` bytes with an explicit alignment and offset, publish the memory as a
    /// well-formed (immediately unreachable) object and record its range as handed out since the
    /// last collection, so that later allocations are checked against it (C02 with the alignment
    /// dimension of C03).  Returns the address (zero if the allocation failed).
    pub fn alloc_aligned_garbage(&mut self, m: usize, size: usize, align: usize, offset: usize, sem: Sem) -> Result<Address, Fail> {
        self.stats.ops += 1;
        let sem = self.effective_sem(size, sem);
        let a = self.alloc_raw(m, size, align, offset, sem, None)?;
        if a.is_zero() {
            return Ok(a);
        }
        let id = NEXT_ID.fetch_add(1, std::sync::atomic::Ordering::SeqCst);
        let o = init_object(a, size, 0, 0, align, id);
        mmtk::memory_manager::post_alloc(self.mutator(m), o, size, sem.to_mmtk());
        self.shadow.recent.insert(a.as_usize(), (a.as_usize() + size, id));
        Ok(a)
    }

    // -----------------------------------------------------------------------------------------
    // pinning

    /// Whether `pin_object` is supported for this object (the API documents that it "cannot
    /// happen in some plans"; copying / compacting spaces panic by design).
    pub fn pin_supported(&self, o: &SObj) -> bool {
        if !cfg!(feature = "pinning") || o.sem != Sem::Default {
            return false;
        }
        match self.cfg.plan.as_str() {
            "Immix" | "StickyImmix" | "ConcurrentImmix" => true,
            // the nursery is a copy space; mature objects live in Immix
            "GenImmix" => o.age > 0 && o.moved > 0,
            _ => false,
        }
    }

    /// Pin / unpin an object where supported (otherwise a no-op).
    pub fn pin(&mut self, id: u64, on: bool) -> Result<(), Fail> {
        self.stats.ops += 1;
        let o = self.shadow.objs[&id].clone();
        if !self.pin_supported(&o) {
            return Ok(());
        }
        #[cfg(feature = "pinning")]
        {
            let r = self.obj_ref(id);
            if on {
                mmtk::memory_manager::pin_object(r);
            } else {
                mmtk::memory_manager::unpin_object(r);
            }
            if mmtk::memory_manager::is_pinned(r) != on {
                return fail("pin:state", format!("is_pinned is {} right after {} of object id {}", !on, if on { "pin_object" } else { "unpin_object" }, id));
            }
            self.shadow.objs.get_mut(&id).unwrap().pinned = on;
        }
        Ok(())
    }

    // -----------------------------------------------------------------------------------------
    // field writes through the plan's barrier

    pub fn write_field(&mut self, m: usize, src: u64, field: usize, dst: Option<u64>) {
        self.stats.ops += 1;
        let so = self.obj_ref(src);
        let slot = field_addr(so, field);
        let target = dst.map(|d| self.obj_ref(d));
        let mu = self.mutator(m);
        mmtk::memory_manager::object_reference_write_pre(mu, so, slot, target);
        write_word(slot, target.map(|t| t.to_raw_address().as_usize()).unwrap_or(0));
        if !self.satb {
            mmtk::memory_manager::object_reference_write_post(mu, so, slot, target);
        }
        self.shadow.objs.get_mut(&src).unwrap().fields[field] = dst;
    }

    // -----------------------------------------------------------------------------------------
    // collections

    /// Request a collection from mutator `m` (forced; `exhaustive` = full heap for generational
    /// plans) and verify the heap afterwards.
    pub fn gc(&mut self, m: usize, exhaustive: bool) -> Result<(), Fail> {
        self.stats.ops += 1;
        if !self.collects {
            return Ok(());
        }
        let before = with_state(|s| s.gc_count);
        note_request_base();
        self.gc_traced_whole_heap = exhaustive || !self.mmtk.get_plan().constraints().generational;
        if !self.shadow.ephemerons.is_empty() || self.expect_weak_stages {
            let stages: Vec<Vec<usize>> = self.shadow_reachable_stages().iter().map(|st| st.iter().map(|id| self.shadow.objs[id].addr).collect()).collect();
            // in a nursery collection old values count as reachable without being traced, so the
            // number of rounds is only predictable for collections that trace the whole heap
            let generational = self.mmtk.get_plan().constraints().generational;
            self.expected_weak_calls = if exhaustive || !generational { Some(stages.len()) } else { None };
            self.stats.weak_extra_rounds += stages.len() as u64 - 1;
            with_state(|s| s.expected_stages = stages);
        }
        let ran = self.mmtk.handle_user_collection_request(mutator_tls(m), true, exhaustive);
        if !ran {
            return fail("gc:not_run", "forced user collection request was ignored".to_string());
        }
        let after = with_state(|s| {
            s.expected_stages.clear();
            s.gc_count
        });
        if after == before {
            return fail("gc:returned_early", "block_for_gc returned but no collection finished".to_string());
        }
        self.after_possible_gc()?;
        if let Some(h) = self.post_gc_hook {
            h(self, exhaustive)?;
        }
        Ok(())
    }

    /// If collections happened since the last look, verify the heap against the shadow.
    pub fn after_possible_gc(&mut self) -> Result<(), Fail> {
        let count = with_state(|s| s.gc_count);
        if count == self.last_gc_count {
            return Ok(());
        }
        let n = count - self.last_gc_count;
        self.last_gc_count = count;
        self.stats.gcs += n;
        if self.shadow.roots.iter().filter(|r| r.is_some()).count() >= 2 {
            self.stats.two_mutator_gcs += n;
        }
        let events = take_events();
        if let Some(f) = with_state(|s| std::mem::take(&mut s.oracle_failures)).into_iter().next() {
            let (sig, msg) = f.split_once('|').unwrap_or(("weak:oracle", &f));
            return fail(sig, msg.to_string());
        }
        // additive hook point (C06): a driver may inspect the post-collection state and declare
        // additional shadow / real roots (EXTRA_ROOTS, EXTRA_REAL_ROOTS) before the graph check
        if let Some(h) = PRE_VERIFY_HOOK.with(|h| h.get()) {
            if let Err(e) = h(self, n, &events) {
                self.last_report.events = events;
                return Err(e);
            }
        }
        let r = self.verify_heap(n);
        self.last_report.events = events;
        r?;
        if self.monitor_c11 {
            let ev = std::mem::take(&mut self.last_report.events);
            let r = crate::monitors::stw_bracket(&ev, self);
            self.last_report.events = ev;
            r?;
        }
        self.gc_traced_whole_heap = false;
        if self.monitor_c13 {
            let ev = std::mem::take(&mut self.last_report.events);
            let exp = self.expected_weak_calls.take();
            let r = crate::monitors::weak_rounds(&ev, self, exp);
            self.last_report.events = ev;
            r?;
        }
        Ok(())
    }

    pub fn shadow_reachable(&self) -> HashSet<u64> {
        self.shadow_reachable_stages().into_iter().flatten().collect()
    }

    /// Reachability in stages: stage 0 = strong closure of the roots; stage k = what becomes
    /// reachable when the values of the ephemerons whose keys are in stages < k are traced.
    pub fn shadow_reachable_stages(&self) -> Vec<Vec<u64>> {
        let mut seen: HashSet<u64> = HashSet::new();
        let mut stages = vec![];
        let mut stack: Vec<u64> = vec![];
        for r in self.shadow.roots.iter().flatten() {
            stack.extend(r.iter().flatten());
        }
        stack.extend(self.shadow.globals.iter().flatten());
        stack.extend(self.extra_shadow_roots());
        loop {
            let mut stage = vec![];
            while let Some(id) = stack.pop() {
                if !seen.insert(id) {
                    continue;
                }
                stage.push(id);
                if let Some(o) = self.shadow.objs.get(&id) {
                    stack.extend(o.fields.iter().flatten());
                }
            }
            let first = stages.is_empty();
            if !stage.is_empty() || first {
                stages.push(stage);
            } else {
                break;
            }
            // values whose key is reachable and that are not reachable yet
            for (k, v) in &self.shadow.ephemerons {
                if seen.contains(k) && !seen.contains(v) {
                    stack.push(*v);
                }
            }
            if stack.is_empty() {
                break;
            }
        }
        stages
    }

    /// Register an ephemeron (key, value) with the binding's weak table.
    pub fn add_ephemeron(&mut self, key: u64, value: u64) {
        self.stats.ops += 1;
        let (ka, va) = (self.shadow.objs[&key].addr, self.shadow.objs[&value].addr);
        with_state(|s| s.ephemerons.push((ka, va)));
        self.shadow.ephemerons.push((key, value));
    }

    /// Shadow roots other than mutator/global root slots (pinning roots, objects kept by the
    /// binding's tables).  Extended by property-specific drivers through `extra_roots`.
    fn extra_shadow_roots(&self) -> Vec<u64> {
        EXTRA_ROOTS.with(|e| e.borrow().clone())
    }

    /// Walk the real heap from the real root slots and compare with the shadow heap (C01).
    pub fn verify_heap(&mut self, gcs: u64) -> Result<(), Fail> {
        let reachable = self.shadow_reachable();
        let mut new_addr: HashMap<u64, usize> = HashMap::new();
        let mut addr_id: HashMap<usize, u64> = HashMap::new();
        // (real slot value, expected id, description); field slots are described as
        // "field i of object id N [Sem]" so that the failure class can name the holder's space
        let mut work: Vec<(usize, Option<u64>, String)> = vec![];
        let holder = |what: &str| -> String {
            match what.rsplit_once('[') {
                Some((_, r)) => format!(":in_{}", r.trim_end_matches(']')),
                None => String::new(),
            }
        };
        for (m, r) in self.shadow.roots.iter().enumerate() {
            if let Some(r) = r {
                for (i, e) in r.iter().enumerate() {
                    work.push((read_word(self.root_slot(m, i)), *e, format!("root {} of mutator {}", i, m)));
                }
            }
        }
        let gbase = with_state(|s| Address::from_mut_ptr(s.global_roots as *mut usize));
        for (i, e) in self.shadow.globals.iter().enumerate() {
            work.push((read_word(gbase + 8 * i), *e, format!("global root {}", i)));
        }
        for (v, id, what) in EXTRA_REAL_ROOTS.with(|e| e.borrow().clone()) {
            work.push((read_word(unsafe { Address::from_usize(v) }), Some(id), what));
        }
        // the binding's ephemeron table: exactly the entries whose key is reachable survive, in
        // order, and hold the (new) addresses of key and value
        if !self.shadow.ephemerons.is_empty() {
            let live: Vec<(u64, u64)> = self.shadow.ephemerons.iter().filter(|(k, _)| reachable.contains(k)).cloned().collect();
            let real = with_state(|s| s.ephemerons.clone());
            // Entries whose key is unreachable must be gone after a collection that traced the
            // whole heap; a nursery collection legitimately keeps entries with old (not collected)
            // keys, so there they are only skipped.
            let mut real_live = vec![];
            for (ka, va) in real.iter() {
                let a = unsafe { Address::from_usize(*ka) };
                let kid = if *ka != 0 && *ka % 8 == 0 && mmtk::memory_manager::is_mapped_address(a) { obj_id(ObjectReference::from_raw_address(a).unwrap()) } else { 0 };
                if reachable.contains(&kid) {
                    real_live.push((*ka, *va));
                } else if self.gc_traced_whole_heap {
                    return fail("weak:table", format!("the weak table still holds an entry whose key (id {}) is unreachable after a collection that traced the whole heap", kid));
                }
            }
            if real_live.len() != live.len() {
                return fail("weak:table", format!("the weak table holds {} entries with reachable keys after the collection, expected {}", real_live.len(), live.len()));
            }
            for (i, ((ka, va), (k, v))) in real_live.iter().zip(live.iter()).enumerate() {
                work.push((*ka, Some(*k), format!("key of weak-table entry {}", i)));
                work.push((*va, Some(*v), format!("value of weak-table entry {}", i)));
            }
            self.stats.weak_entries_died += (self.shadow.ephemerons.len() - live.len()) as u64;
            self.shadow.ephemerons = live;
        }
        while let Some((val, expect, what)) = work.pop() {
            let Some(id) = expect else {
                if val != 0 {
                    return fail("graph:null_slot_changed", format!("{} was null before the collection and holds {:#x} after it", what, val));
                }
                continue;
            };
            if val == 0 || val % 8 != 0 {
                return fail(&format!("graph:slot_lost{}", holder(&what)), format!("{} referred to object id {} before the collection and holds {:#x} after it", what, id, val));
            }
            if let Some(&a) = new_addr.get(&id) {
                if a != val {
                    return fail(&format!("graph:identity_split{}", holder(&what)), format!("{} refers to object id {} at {:#x} but another slot reaches the same object at {:#x}: identity not preserved", what, id, val, a));
                }
                continue;
            }
            if let Some(&other) = addr_id.get(&val) {
                return fail("graph:identity_merged", format!("{} should refer to object id {} but holds {:#x}, which is object id {}: distinct objects merged", what, id, val, other));
            }
            // (library-malloc mark-sweep objects live in malloc'ed memory the mmapper does not know)
            let malloc_ms = cfg!(feature = "fs_s3") && self.cfg.plan == "MarkSweep";
            if !malloc_ms && !mmtk::memory_manager::is_mapped_address(unsafe { Address::from_usize(val) }) {
                return fail("graph:dangling", format!("{} (object id {}) holds {:#x}, which is not mapped memory", what, id, val));
            }
            let o = ObjectReference::from_raw_address(unsafe { Address::from_usize(val) }).unwrap();
            let so = &self.shadow.objs[&id];
            if obj_id(o) != id {
                return fail(&format!("graph:wrong_object{}", holder(&what)), format!("{} should refer to object id {} but the object at {:#x} has id {} (size word {:#x})", what, id, val, obj_id(o), read_word(obj_start(o) + 8usize)));
            }
            if obj_size(o) != so.size || obj_nrefs(o) != so.fields.len() {
                return fail("graph:descriptor_changed", format!("object id {} at {:#x}: size/nrefs {}/{} expected {}/{}", id, val, obj_size(o), obj_nrefs(o), so.size, so.fields.len()));
            }
            if let Err(m) = check_object(o) {
                return fail("graph:payload_changed", format!("object id {} ({}): {}", id, what, m));
            }
            new_addr.insert(id, val);
            addr_id.insert(val, id);
            for (i, f) in so.fields.iter().enumerate() {
                work.push((read_word(field_addr(o, i)), *f, format!("field {} of object id {} [{}]", i, id, so.sem.name())));
            }
        }
        // every shadow-reachable object must have been reached in the real heap (follows from the
        // walk above, which fails on the first missing edge) -- cross-check the counts
        if new_addr.len() != reachable.len() {
            return fail("graph:count", format!("{} objects reachable in the real heap, {} in the shadow heap", new_addr.len(), reachable.len()));
        }
        // no two live objects overlap
        let mut iv: Vec<(usize, usize, u64)> = new_addr.iter().map(|(id, a)| (*a, *a + self.shadow.objs[id].size, *id)).collect();
        iv.sort();
        for w in iv.windows(2) {
            if w[0].1 > w[1].0 {
                return fail("graph:overlap", format!("objects id {} [{:#x},{:#x}) and id {} [{:#x},{:#x}) overlap after the collection", w[0].2, w[0].0, w[0].1, w[1].2, w[1].0, w[1].1));
            }
        }
        // C04: objects that must not move
        let mut moved = 0;
        for (id, a) in &new_addr {
            let so = &self.shadow.objs[id];
            if *a != so.addr {
                moved += 1;
                if so.pinned || matches!(so.sem, Sem::Immortal | Sem::Los | Sem::NonMoving | Sem::Code | Sem::ReadOnly | Sem::LargeCode) || !self.moves {
                    return fail(
                        "nonmoving:moved",
                        format!("object id {} ({}{}) moved from {:#x} to {:#x}", id, so.sem.name(), if so.pinned { ", pinned" } else { "" }, so.addr, a),
                    );
                }
            }
        }
        // a pinned object stays pinned until it is unpinned (a collection must not drop the pin)
        #[cfg(feature = "pinning")]
        for (id, a) in &new_addr {
            let so = &self.shadow.objs[id];
            if so.pinned && self.pin_supported(so) {
                let r = ObjectReference::from_raw_address(unsafe { Address::from_usize(*a) }).unwrap();
                if !mmtk::memory_manager::is_pinned(r) {
                    return fail("pin:lost", format!("object id {} was pinned before the collection and never unpinned, but is_pinned is false after it", id));
                }
            }
        }
        // immortal garbage stays intact for ever
        for o in &self.shadow.immortal_garbage {
            let r = ObjectReference::from_raw_address(unsafe { Address::from_usize(o.addr) }).unwrap();
            if obj_id(r) != o.id || obj_size(r) != o.size {
                return fail("immortal:reclaimed", format!("unreachable object id {} in a never-collected space at {:#x} was overwritten (id word {}, size word {})", o.id, o.addr, obj_id(r), obj_size(r)));
            }
            if let Err(m) = check_object(r) {
                return fail("immortal:reclaimed", format!("unreachable object id {} in a never-collected space: {}", o.id, m));
            }
        }
        // adopt the new addresses; forget dead objects
        let before = self.shadow.objs.len();
        let dead: Vec<u64> = self.shadow.objs.keys().filter(|k| !reachable.contains(k)).cloned().collect();
        for id in &dead {
            let o = self.shadow.objs.remove(id).unwrap();
            if self.never_collected(&o) {
                self.shadow.immortal_garbage.push(o);
            } else if self.record_dead {
                self.dead_log.push(o);
            }
        }
        for (id, a) in &new_addr {
            let so = self.shadow.objs.get_mut(id).unwrap();
            if so.addr != *a {
                if self.record_dead {
                    self.vacated_log.push(so.clone());
                }
                so.moved += 1;
                so.addr = *a;
            }
            so.age += gcs as u32;
        }
        self.shadow.recent.clear();
        self.shadow.live_iv.clear();
        for o in self.shadow.objs.values().chain(self.shadow.immortal_garbage.iter()) {
            self.shadow.live_iv.insert(o.addr, (o.addr + o.size, o.id));
        }
        self.stats.objects_moved += moved as u64;
        self.stats.objects_verified += new_addr.len() as u64;
        if !dead.is_empty() && !new_addr.is_empty() {
            self.stats.gcs_with_live_and_dead += 1;
            self.reclaimed_next_to_live = true;
        }
        self.stats.immortal_checked += self.shadow.immortal_garbage.len() as u64;
        self.last_report = GcReport { gcs, reachable: new_addr.len(), moved, died: before - new_addr.len(), events: vec![] };
        Ok(())
    }

    /// Objects of spaces that are never collected (immortal-like semantics, or any object under
    /// a plan that does not collect).
    pub fn never_collected(&self, o: &SObj) -> bool {
        !self.collects || matches!(o.sem, Sem::Immortal | Sem::ReadOnly | Sem::Code | Sem::LargeCode) && self.immortal_semantics_are_immortal(o.sem)
    }

    /// Whether the plan maps `sem` to an immortal space.  Immortal always is; Code/ReadOnly/
    /// LargeCode are immortal in CommonPlan-based plans.  (Queried from the allocator mapping.)
    fn immortal_semantics_are_immortal(&self, sem: Sem) -> bool {
        // ReadOnly, Code and LargeCode are served by immortal spaces in every plan of this tree
        // (BasePlan/CommonPlan), Immortal by definition.
        matches!(sem, Sem::Immortal | Sem::ReadOnly | Sem::Code | Sem::LargeCode)
    }

    /// Every unreachable object of a never-collected space is still intact and (vo_bit) still a
    /// valid object.
    pub fn check_immortal_garbage_valid(&mut self) -> Result<(), Fail> {
        for o in &self.shadow.immortal_garbage {
            let a = unsafe { Address::from_usize(o.addr) };
            let r = ObjectReference::from_raw_address(a).unwrap();
            if obj_id(r) != o.id || check_object(r).is_err() {
                return fail("immortal:reclaimed", format!("unreachable object id {} of a never-collected space at {:#x} was overwritten", o.id, o.addr));
            }
            #[cfg(feature = "vo_bit")]
            if mmtk::memory_manager::is_mmtk_object(a).is_none() {
                return fail("immortal:invalidated", format!("unreachable object id {} of a never-collected space at {:#x} is no longer reported as a valid object", o.id, o.addr));
            }
        }
        self.stats.immortal_checked += self.shadow.immortal_garbage.len() as u64;
        Ok(())
    }

    /// Drop every root and collect exhaustively: back to an abstractly empty heap.
    pub fn reset(&mut self) -> Result<(), Fail> {
        for m in 0..self.shadow.roots.len() {
            if self.shadow.roots[m].is_some() {
                for s in 0..MAX_ROOTS {
                    self.set_root(m, s, None);
                }
            }
        }
        for m in 1..self.shadow.roots.len() {
            if self.shadow.roots[m].is_some() {
                self.destroy(m);
            }
        }
        EXTRA_ROOTS.with(|e| e.borrow_mut().clear());
        EXTRA_REAL_ROOTS.with(|e| e.borrow_mut().clear());
        self.shadow.ephemerons.clear();
        with_state(|s| s.ephemerons.clear());
        self.reclaimed_next_to_live = false;
        if self.collects {
            self.gc(0, true)?;
        } else {
            // nothing is ever reclaimed: everything allocated so far stays in the interval set
            let dead: Vec<u64> = self.shadow.objs.keys().cloned().collect();
            for id in dead {
                let o = self.shadow.objs.remove(&id).unwrap();
                self.shadow.recent.remove(&o.addr);
                self.shadow.live_iv.insert(o.addr, (o.addr + o.size, o.id));
                self.shadow.immortal_garbage.push(o);
            }
        }
        Ok(())
    }
}

thread_local! {
    /// Additional shadow roots (ids) a driver declares (e.g. objects held by pinning roots).
    pub static EXTRA_ROOTS: std::cell::RefCell<Vec<u64>> = const { std::cell::RefCell::new(vec![]) };
    /// Additional real slots to walk: (slot address, expected id, description).
    pub static EXTRA_REAL_ROOTS: std::cell::RefCell<Vec<(usize, u64, String)>> = const { std::cell::RefCell::new(vec![]) };
    /// Run by `after_possible_gc` after a collection (or a batch of `n` collections) and before
    /// `verify_heap`, with the binding's upcall events of that batch.  None = no hook (default).
    pub static PRE_VERIFY_HOOK: std::cell::Cell<Option<fn(&mut World, u64, &[VmEvent]) -> Result<(), Fail>>> = const { std::cell::Cell::new(None) };
}

// ---------------------------------------------------------------------------------------------
// crash reporting for child processes

static mut CRASH_BUF: [u8; 8192] = [0; 8192];
static CRASH_LEN: std::sync::atomic::AtomicUsize = std::sync::atomic::AtomicUsize::new(0);

/// Record what the process is doing (a JSON value) so that a fatal signal can report it.
pub fn set_current_case(v: &Value) {
    let s = serde_json::to_string(v).unwrap();
    let b = s.as_bytes();
    let n = b.len().min(8000);
    CRASH_LEN.store(0, std::sync::atomic::Ordering::SeqCst);
    unsafe {
        let p = std::ptr::addr_of_mut!(CRASH_BUF) as *mut u8;
        std::ptr::copy_nonoverlapping(b.as_ptr(), p, n);
    }
    CRASH_LEN.store(n, std::sync::atomic::Ordering::SeqCst);
}

extern "C" fn crash_handler(sig: i32) {
    unsafe {
        let head = b"\nCHILD-CRASH ";
        libc::write(1, head.as_ptr() as *const libc::c_void, head.len());
        let name: &[u8] = match sig {
            libc::SIGSEGV => b"SIGSEGV ",
            libc::SIGBUS => b"SIGBUS ",
            libc::SIGABRT => b"SIGABRT ",
            libc::SIGILL => b"SIGILL ",
            _ => b"SIGNAL ",
        };
        libc::write(1, name.as_ptr() as *const libc::c_void, name.len());
        let n = CRASH_LEN.load(std::sync::atomic::Ordering::SeqCst);
        let p = std::ptr::addr_of!(CRASH_BUF) as *const u8;
        libc::write(1, p as *const libc::c_void, n);
        libc::write(1, b"\n".as_ptr() as *const libc::c_void, 1);
        libc::_exit(4);
    }
}

/// Install handlers that turn a fatal signal in a child into a `CHILD-CRASH` line naming the
/// program that was running.  Uses an alternate stack so that stack overflows are reported too.
pub fn install_crash_handlers() {
    unsafe {
        let stack = libc::mmap(std::ptr::null_mut(), 1 << 16, libc::PROT_READ | libc::PROT_WRITE, libc::MAP_PRIVATE | libc::MAP_ANONYMOUS, -1, 0);
        let ss = libc::stack_t { ss_sp: stack, ss_flags: 0, ss_size: 1 << 16 };
        libc::sigaltstack(&ss, std::ptr::null_mut());
        for sig in [libc::SIGSEGV, libc::SIGBUS, libc::SIGABRT, libc::SIGILL] {
            let mut sa: libc::sigaction = std::mem::zeroed();
            sa.sa_sigaction = crash_handler as usize;
            sa.sa_flags = libc::SA_ONSTACK;
            libc::sigaction(sig, &sa, std::ptr::null_mut());
        }
    }
}

/// Handler for panics on GC worker threads (registered with `common::WORKER_PANIC_HANDLER`): the
/// execution in progress is reported as a crash of the program that was running.
pub fn worker_panic_to_crash(msg: &str) {
    let n = CRASH_LEN.load(std::sync::atomic::Ordering::SeqCst);
    let case = unsafe { std::slice::from_raw_parts(std::ptr::addr_of!(CRASH_BUF) as *const u8, n) };
    let first = msg.lines().take(2).collect::<Vec<_>>().join(" ");
    println!("\nCHILD-CRASH WORKER-PANIC {} ||| {}", String::from_utf8_lossy(case), first);
    use std::io::Write;
    let _ = std::io::stdout().flush();
    unsafe { libc::_exit(4) };
}
