//! Shared plumbing: tiers, evidence files, violations, known findings, exit codes.
//!
//! Exit codes (DESIGN.md section 2): 0 = property held on everything explored (KNOWN-FINDING
//! lines allowed); 1 = VIOLATION line printed; 2 = machinery failure, never a verdict.

use serde_json::{json, Map, Value};
use std::path::PathBuf;
use std::time::Instant;

#[derive(Clone, Copy, PartialEq, Eq, Debug)]
pub enum Tier {
    Quick,
    Thorough,
}

impl Tier {
    pub fn name(self) -> &'static str {
        match self {
            Tier::Quick => "quick",
            Tier::Thorough => "thorough",
        }
    }
    pub fn pick<T>(self, quick: T, thorough: T) -> T {
        match self {
            Tier::Quick => quick,
            Tier::Thorough => thorough,
        }
    }
}

pub fn root() -> PathBuf {
    PathBuf::from(std::env::var("VERIF_ROOT").unwrap_or_else(|_| "/verif".to_string()))
}

/// One violating execution.  `signature` identifies the *class* of the violation (operation +
/// input class / call site); `case` is everything needed to replay the single execution.
#[derive(Clone, Debug)]
pub struct Violation {
    pub signature: String,
    pub message: String,
    pub case: Value,
}

pub struct Run {
    pub id: String,
    pub tier: Tier,
    pub seed: u64,
    pub start: Instant,
    pub coverage: Map<String, Value>,
    pub samples: Vec<Value>,
    pub violations: Vec<Violation>,
    pub assumptions: Vec<String>,
    pub replay_mode: bool,
    /// Number of worker processes / threads the check may use.
    pub jobs: usize,
}

/// Machinery failure: print and exit 2.  Never a verdict.
pub fn machinery_failure(msg: &str) -> ! {
    eprintln!("MACHINERY-FAILURE: {}", msg);
    println!("MACHINERY-FAILURE: {}", msg);
    std::process::exit(2);
}

impl Run {
    pub fn new(id: &str, tier: Tier) -> Self {
        let seed = std::env::var("VERIF_SEED")
            .ok()
            .and_then(|s| s.parse::<u64>().ok())
            .unwrap_or(0);
        let jobs = std::env::var("VERIF_JOBS")
            .ok()
            .and_then(|s| s.parse::<usize>().ok())
            .unwrap_or_else(|| std::thread::available_parallelism().map(|n| n.get()).unwrap_or(4).min(16));
        Run {
            id: id.to_string(),
            tier,
            seed,
            start: Instant::now(),
            coverage: Map::new(),
            samples: vec![],
            violations: vec![],
            assumptions: vec![],
            replay_mode: false,
            jobs,
        }
    }

    pub fn set(&mut self, key: &str, v: impl Into<Value>) {
        self.coverage.insert(key.to_string(), v.into());
    }
    /// Add to an integer counter in the coverage map.
    pub fn add(&mut self, key: &str, n: u64) {
        let cur = self.coverage.get(key).and_then(|v| v.as_u64()).unwrap_or(0);
        self.coverage.insert(key.to_string(), json!(cur + n));
    }
    pub fn get(&self, key: &str) -> u64 {
        self.coverage.get(key).and_then(|v| v.as_u64()).unwrap_or(0)
    }
    pub fn sample(&mut self, v: Value) {
        if self.samples.len() < 6 {
            self.samples.push(v);
        }
    }
    pub fn assume(&mut self, s: &str) {
        if !self.assumptions.iter().any(|a| a == s) {
            self.assumptions.push(s.to_string());
        }
    }
    pub fn violation(&mut self, signature: impl Into<String>, message: impl Into<String>, case: Value) {
        // keep the first execution of every signature (simplest-first enumeration makes it the
        // shortest), and at most 40 distinct signatures
        let signature = signature.into();
        if self.violations.iter().any(|v| v.signature == signature) {
            self.add("violating_executions_total", 1);
            return;
        }
        self.add("violating_executions_total", 1);
        if self.violations.len() < 40 {
            self.violations.push(Violation {
                signature,
                message: message.into(),
                case,
            });
        }
    }

    /// Merge a sub-run's coverage (e.g. from a child process) into this one: integer counters are
    /// summed, `exhaustive` is and-ed, other keys are kept from the first.
    pub fn merge_coverage(&mut self, other: &Map<String, Value>) {
        for (k, v) in other {
            if k == "samples" {
                if let Some(a) = v.as_array() {
                    for s in a {
                        self.sample(s.clone());
                    }
                }
                continue;
            }
            match (self.coverage.get(k).cloned(), v) {
                (Some(Value::Number(a)), Value::Number(b)) if a.is_u64() && b.is_u64() => {
                    if k.starts_with("max_") || k.ends_with("_bound") || k.ends_with("_depth") {
                        self.coverage.insert(k.clone(), json!(a.as_u64().unwrap().max(b.as_u64().unwrap())));
                    } else {
                        self.coverage.insert(k.clone(), json!(a.as_u64().unwrap() + b.as_u64().unwrap()));
                    }
                }
                (Some(Value::Bool(a)), Value::Bool(b)) => {
                    self.coverage.insert(k.clone(), json!(a && *b));
                }
                (Some(Value::Object(mut a)), Value::Object(b)) => {
                    for (kk, vv) in b {
                        match (a.get(kk).cloned(), vv) {
                            (Some(Value::Number(x)), Value::Number(y)) if x.is_u64() && y.is_u64() => {
                                a.insert(kk.clone(), json!(x.as_u64().unwrap() + y.as_u64().unwrap()));
                            }
                            (None, _) => {
                                a.insert(kk.clone(), vv.clone());
                            }
                            _ => {}
                        }
                    }
                    self.coverage.insert(k.clone(), Value::Object(a));
                }
                (None, _) => {
                    self.coverage.insert(k.clone(), v.clone());
                }
                _ => {}
            }
        }
    }

    /// Serialise for transport from a child process to its parent.
    pub fn to_child_json(&self) -> Value {
        let mut cov = self.coverage.clone();
        cov.insert("samples".into(), Value::Array(self.samples.clone()));
        json!({
            "coverage": cov,
            "assumptions": self.assumptions,
            "violations": self.violations.iter().map(|v| json!({"signature": v.signature, "message": v.message, "case": v.case})).collect::<Vec<_>>(),
        })
    }
    pub fn absorb_child_json(&mut self, v: &Value) {
        if let Some(c) = v.get("coverage").and_then(|c| c.as_object()) {
            self.merge_coverage(c);
        }
        if let Some(a) = v.get("assumptions").and_then(|c| c.as_array()) {
            for s in a {
                if let Some(s) = s.as_str() {
                    self.assume(s);
                }
            }
        }
        if let Some(a) = v.get("violations").and_then(|c| c.as_array()) {
            for x in a {
                self.violation(
                    x["signature"].as_str().unwrap_or("?").to_string(),
                    x["message"].as_str().unwrap_or("").to_string(),
                    x["case"].clone(),
                );
            }
        }
    }

    /// Write evidence, print verdict lines, exit.
    pub fn finish(mut self) -> ! {
        let root = root();
        if self.replay_mode {
            // single-execution replay: report and exit, never touch evidence
            if self.violations.is_empty() {
                println!("REPLAY property={} result=pass", self.id);
                std::process::exit(0);
            }
            for v in &self.violations {
                println!("REPLAY property={} result=violation signature={} :: {}", self.id, v.signature, v.message);
            }
            std::process::exit(1);
        }
        let known = load_known_findings(&self.id);
        let mut new_violations = 0;
        let mut known_hits = 0;
        let out_dir = root.join("out").join(&self.id);
        let _ = std::fs::create_dir_all(&out_dir);
        // stale replays of earlier runs would be confusing
        if let Ok(rd) = std::fs::read_dir(&out_dir) {
            for e in rd.flatten() {
                if e.file_name().to_string_lossy().starts_with("replay-") {
                    let _ = std::fs::remove_file(e.path());
                }
            }
        }
        let mut lines = vec![];
        for (i, v) in self.violations.iter().enumerate() {
            if let Some(k) = known.iter().find(|k| k.status == "known" && v.signature.starts_with(&k.signature)) {
                known_hits += 1;
                lines.push(format!("KNOWN-FINDING: property={} {} [signature={}]", self.id, k.what, v.signature));
                continue;
            }
            new_violations += 1;
            let path = out_dir.join(format!("replay-{}.json", i));
            let doc = json!({
                "property": self.id,
                "signature": v.signature,
                "message": v.message,
                "case": v.case,
            });
            if std::fs::write(&path, serde_json::to_string_pretty(&doc).unwrap()).is_err() {
                machinery_failure("cannot write replay file");
            }
            lines.push(format!("VIOLATION property={} replay={}", self.id, path.display()));
            lines.push(format!("  signature={} :: {}", v.signature, v.message));
        }
        let wall = self.start.elapsed().as_secs_f64();
        let mut cov = self.coverage.clone();
        if self.samples.is_empty() {
            // a run that stopped at its first cases because they violate the property is a verdict
            match self.violations.first() {
                Some(v) => self.samples.push(json!({"violating_case": v.case})),
                None => machinery_failure("no samples recorded: vacuous run"),
            }
        }
        cov.insert("samples".into(), Value::Array(self.samples.clone()));
        cov.insert("known_finding_hits".into(), json!(known_hits));
        // required model-checking keys must be present and non-zero
        for k in ["states", "transitions", "traces_validated_against_impl", "evaluations", "distinct_nontrivial"] {
            if !cov.contains_key(k) {
                machinery_failure(&format!("coverage key {} missing", k));
            }
        }
        // vacuity gates apply to passing runs only: a run that found a violation is a verdict
        if self.violations.is_empty() {
            if cov["states"].as_u64().unwrap_or(0) < 1 || cov["transitions"].as_u64().unwrap_or(0) < 1 {
                machinery_failure("vacuous run: no states/transitions explored");
            }
            if cov["distinct_nontrivial"].as_u64().unwrap_or(0) < 2 {
                machinery_failure("vacuous run: fewer than 2 non-trivial cases (the forced collision never happened)");
            }
        }
        let ev = json!({
            "property_id": self.id,
            "tier": self.tier.name(),
            "seed": self.seed,
            "level": "model_checking",
            "coverage": cov,
            "assumptions": self.assumptions,
            "wall_s": (wall * 1000.0).round() / 1000.0,
            "violations": new_violations,
        });
        let ev_dir = root.join("evidence");
        let _ = std::fs::create_dir_all(&ev_dir);
        let ev_path = ev_dir.join(format!("{}.json", self.id));
        if std::fs::write(&ev_path, serde_json::to_string_pretty(&ev).unwrap() + "\n").is_err() {
            machinery_failure("cannot write evidence file");
        }
        for l in &lines {
            println!("{}", l);
        }
        println!(
            "SUMMARY property={} tier={} states={} transitions={} evaluations={} nontrivial={} exhaustive={} violations={} known={} wall={:.1}s",
            self.id,
            self.tier.name(),
            ev["coverage"]["states"],
            ev["coverage"]["transitions"],
            ev["coverage"]["evaluations"],
            ev["coverage"]["distinct_nontrivial"],
            ev["coverage"].get("exhaustive").cloned().unwrap_or(Value::Null),
            new_violations,
            known_hits,
            wall
        );
        self.violations.clear();
        std::process::exit(if new_violations > 0 { 1 } else { 0 });
    }
}

pub struct Known {
    pub signature: String,
    pub status: String,
    pub what: String,
}

/// `/verif/known_findings.json`: `{"findings":[{"property":"C27","signature":"...","status":"known"|"fixed:<commit>","what":"..."}]}`.
/// Only read, never written at run time.  A `fixed` entry suppresses nothing.
pub fn load_known_findings(id: &str) -> Vec<Known> {
    let p = root().join("known_findings.json");
    let Ok(s) = std::fs::read_to_string(&p) else {
        return vec![];
    };
    let Ok(v) = serde_json::from_str::<Value>(&s) else {
        machinery_failure("known_findings.json does not parse");
    };
    let mut out = vec![];
    if let Some(a) = v.get("findings").and_then(|f| f.as_array()) {
        for f in a {
            if f["property"].as_str() == Some(id) {
                out.push(Known {
                    signature: f["signature"].as_str().unwrap_or("").to_string(),
                    status: f["status"].as_str().unwrap_or("").to_string(),
                    what: f["what"].as_str().unwrap_or("").to_string(),
                });
            }
        }
    }
    out
}

/// Catch a panic and turn it into its message.
pub fn catch<R>(f: impl FnOnce() -> R) -> Result<R, String> {
    match std::panic::catch_unwind(std::panic::AssertUnwindSafe(f)) {
        Ok(r) => Ok(r),
        Err(e) => {
            let msg = if let Some(s) = e.downcast_ref::<&str>() {
                s.to_string()
            } else if let Some(s) = e.downcast_ref::<String>() {
                s.clone()
            } else {
                "<non-string panic>".to_string()
            };
            Err(msg)
        }
    }
}

/// Silence the default panic hook (we catch panics on purpose); the message is kept in a
/// thread-local so that `catch` callers can report the location.
pub fn quiet_panics() {
    std::panic::set_hook(Box::new(|info| {
        if std::env::var("VERIF_SHOW_PANICS").is_ok() {
            eprintln!("[panic] {}\n{}", info, std::backtrace::Backtrace::force_capture());
        }
        LAST_PANIC_LOCATION.with(|l| {
            *l.borrow_mut() = info.location().map(|l| format!("{}:{}", l.file(), l.line()));
        });
        // A panic on a GC worker thread cannot be caught by the harness thread: hand it to the
        // registered handler (which reports the current execution as failed and exits).
        let th = std::thread::current();
        if th.name().map(|n| n.starts_with("gcworker")).unwrap_or(false) {
            let msg = format!("{}", info);
            if let Some(h) = WORKER_PANIC_HANDLER.get() {
                h(&msg);
            }
            eprintln!("GC worker panicked: {}", msg);
            std::process::exit(3);
        }
    }));
}

pub static WORKER_PANIC_HANDLER: std::sync::OnceLock<Box<dyn Fn(&str) + Send + Sync>> = std::sync::OnceLock::new();

thread_local! {
    pub static LAST_PANIC_LOCATION: std::cell::RefCell<Option<String>> = const { std::cell::RefCell::new(None) };
}

pub fn last_panic_location() -> String {
    LAST_PANIC_LOCATION.with(|l| l.borrow().clone().unwrap_or_default())
}

/// Run `n` child copies of this executable in parallel (at most `jobs` at a time), each with the
/// given argument list; collect the last stdout line starting with `CHILD-RESULT ` of each.
/// A child that dies without a result line is a machinery failure.
pub fn run_children(args_list: Vec<Vec<String>>, jobs: usize, timeout_s: u64) -> Vec<Value> {
    use std::process::{Command, Stdio};
    let exe = std::env::current_exe().unwrap();
    let n = args_list.len();
    let results: std::sync::Mutex<Vec<Option<Value>>> = std::sync::Mutex::new(vec![None; n]);
    let next = std::sync::atomic::AtomicUsize::new(0);
    std::thread::scope(|s| {
        for _ in 0..jobs.max(1).min(n.max(1)) {
            s.spawn(|| loop {
                let i = next.fetch_add(1, std::sync::atomic::Ordering::SeqCst);
                if i >= n {
                    break;
                }
                let child = Command::new(&exe)
                    .args(&args_list[i])
                    .stdout(Stdio::piped())
                    .stderr(Stdio::piped())
                    .spawn();
                let Ok(child) = child else {
                    machinery_failure("cannot spawn child");
                };
                let pid = child.id();
                let done = std::sync::Arc::new(std::sync::atomic::AtomicBool::new(false));
                let done2 = done.clone();
                // watchdog
                let wd = std::thread::spawn(move || {
                    let t0 = Instant::now();
                    while !done2.load(std::sync::atomic::Ordering::SeqCst) {
                        if t0.elapsed().as_secs() > timeout_s {
                            unsafe { libc::kill(pid as i32, libc::SIGKILL) };
                            return true;
                        }
                        std::thread::sleep(std::time::Duration::from_millis(50));
                    }
                    false
                });
                let out = child.wait_with_output();
                done.store(true, std::sync::atomic::Ordering::SeqCst);
                let timed_out = wd.join().unwrap_or(false);
                let Ok(out) = out else {
                    machinery_failure("child wait failed");
                };
                let stdout = String::from_utf8_lossy(&out.stdout);
                let line = stdout.lines().rev().find(|l| l.starts_with("CHILD-RESULT "));
                match line {
                    Some(l) => {
                        let v: Value = serde_json::from_str(&l["CHILD-RESULT ".len()..]).unwrap_or(Value::Null);
                        results.lock().unwrap()[i] = Some(v);
                    }
                    None if stdout.lines().any(|l| l.starts_with("CHILD-CRASH ")) => {
                        let l = stdout.lines().rev().find(|l| l.starts_with("CHILD-CRASH ")).unwrap();
                        results.lock().unwrap()[i] = Some(json!({
                            "child_crashed": true,
                            "crash": &l["CHILD-CRASH ".len()..],
                            "args": args_list[i],
                        }));
                    }
                    None => {
                        let stderr = String::from_utf8_lossy(&out.stderr);
                        let tail: Vec<&str> = stderr.lines().rev().take(15).collect();
                        let tail: Vec<&str> = tail.into_iter().rev().collect();
                        results.lock().unwrap()[i] = Some(json!({
                            "child_died": true,
                            "timed_out": timed_out,
                            "status": format!("{:?}", out.status),
                            "args": args_list[i],
                            "stderr_tail": tail.join("\n"),
                            "stdout_tail": stdout.lines().rev().take(5).collect::<Vec<_>>().join("\n"),
                        }));
                    }
                }
            });
        }
    });
    results.into_inner().unwrap().into_iter().map(|r| r.unwrap()).collect()
}

pub fn emit_child_result(v: &Value) -> ! {
    println!("CHILD-RESULT {}", serde_json::to_string(v).unwrap());
    use std::io::Write;
    let _ = std::io::stdout().flush();
    std::process::exit(0);
}
