//! `VerifVM`: a complete (not mocked) VM binding used to drive real MMTk instances.
//!
//! Object layout (reference == object start, so `UNIFIED_OBJECT_REFERENCE_ADDRESS` holds):
//!
//! ```text
//!  word 0   GC header word: owned by MMTk for in-header metadata (placement A: forwarding
//!           bits + forwarding pointer); never touched by the harness after allocation
//!  word 1   size in bytes (u32) | nrefs (u8) << 32 | flags (u8) << 40 | log2 align (u8) << 48
//!  word 2   object id (u64, unique per allocation; the shadow heap's key)
//!  word 3.. nrefs reference fields (scanned), then for reference objects one referent word
//!           (not scanned; accessed through ReferenceGlue), then payload bytes derived from id
//! ```
//!
//! Mutators are logical: the harness thread plays every mutator (tls = 1000 + index).  GC
//! workers are real threads spawned in `spawn_gc_thread` (tls = 1 + ordinal).

use mmtk::util::alloc::AllocationError;
use mmtk::util::copy::{CopySemantics, GCWorkerCopyContext};
use mmtk::util::opaque_pointer::*;
use mmtk::util::{Address, ObjectReference};
use mmtk::vm::*;
use mmtk::{Mutator, MMTK};
use std::ops::Range;
use std::sync::atomic::{AtomicBool, AtomicU64, AtomicUsize, Ordering};
use std::sync::{Condvar, Mutex, OnceLock};

#[derive(Default)]
pub struct VerifVM;

pub const HEADER_WORDS: usize = 3;
pub const HEADER_BYTES: usize = HEADER_WORDS * 8;
pub const FLAG_REFERENCE: u8 = 1;
pub const MUTATOR_TLS_BASE: usize = 1000;
pub const MAX_ROOTS: usize = 8;

impl VMBinding for VerifVM {
    type VMObjectModel = VerifVM;
    type VMScanning = VerifVM;
    type VMCollection = VerifVM;
    type VMActivePlan = VerifVM;
    type VMReferenceGlue = VerifVM;
    type VMSlot = Address;
    type VMMemorySlice = Range<Address>;

    const MIN_ALIGNMENT: usize = 8;
    const MAX_ALIGNMENT: usize = 64;
}

// ---------------------------------------------------------------------------------------------
// global binding state

pub static MMTK_INSTANCE: OnceLock<&'static MMTK<VerifVM>> = OnceLock::new();

pub fn mmtk() -> &'static MMTK<VerifVM> {
    MMTK_INSTANCE.get().expect("MMTK instance not created")
}

pub struct MutatorRec {
    pub tls: usize,
    pub mutator: *mut Mutator<VerifVM>,
    /// stable storage for this mutator's root slots
    pub roots: *mut [usize; MAX_ROOTS],
    /// objects reported as pinning roots / transitively pinning roots
    pub pinning_roots: Vec<ObjectReference>,
    pub tpinning_roots: Vec<ObjectReference>,
}

unsafe impl Send for MutatorRec {}

/// Events observed by the binding (what MMTk asked the VM to do), in program order.
#[derive(Clone, Debug, PartialEq, Eq)]
pub enum VmEvent {
    StopAllMutators,
    MutatorVisited(usize),
    ResumeMutators,
    BlockForGcEnter(usize),
    BlockForGcExit(usize),
    ScanMutatorRoots(usize),
    ScanVmRoots,
    ProcessWeakRefs { round: usize, more: bool },
    ForwardWeakRefs,
    EnqueueReferences(Vec<usize>),
    OutOfMemory(usize, String),
    ScheduleFinalization,
    PostForwarding,
    Copy { from: usize, to: usize },
}

pub struct VmState {
    pub mutators: Vec<MutatorRec>,
    pub global_roots: *mut [usize; MAX_ROOTS],
    pub gc_active: bool,
    pub gc_count: u64,
    pub events: Vec<VmEvent>,
    /// ephemeron table: (key slot value, value slot value); a value is kept alive iff its key is
    /// otherwise alive.  Entries hold raw references and are updated by process_weak_refs.
    pub ephemerons: Vec<(usize, usize)>,
    pub weak_round: usize,
    pub worker_threads: Vec<std::thread::JoinHandle<()>>,
    pub record_copies: bool,
    /// C13 oracle: addresses (before the collection) of the objects that must be reachable when
    /// `process_weak_refs` is called for the k-th time: `expected_stages[0]` = strong closure of
    /// the roots, `expected_stages[k]` = what round k's tracing adds (transitively).  Empty = no
    /// expectation (collections the harness did not request itself).
    pub expected_stages: Vec<Vec<usize>>,
    /// failures detected inside upcalls (reported by the harness after the collection)
    pub oracle_failures: Vec<String>,
}

unsafe impl Send for VmState {}

pub static STATE: Mutex<Option<VmState>> = Mutex::new(None);
pub static GC_CV: Condvar = Condvar::new();
pub static OOM_COUNT: AtomicUsize = AtomicUsize::new(0);
pub static NEXT_ID: AtomicU64 = AtomicU64::new(1);
pub static COLLECTION_ENABLED: AtomicBool = AtomicBool::new(true);
/// Set while the harness thread is inside block_for_gc.
pub static BLOCKED: AtomicBool = AtomicBool::new(false);

/// Collection count when the harness thread last entered an MMTk call that may request a
/// collection (see `block_for_gc`).
pub static REQUEST_BASE: AtomicU64 = AtomicU64::new(0);

/// Hook (baton scenarios): how GC worker threads are created.  Receives the worker ordinal and the
/// thread body; must run the body on a new OS thread and return its join handle.  Unset = a plain
/// `std::thread`.
#[allow(clippy::type_complexity)]
pub static GC_THREAD_SPAWNER: OnceLock<Box<dyn Fn(usize, Box<dyn FnOnce() + Send + 'static>) -> std::thread::JoinHandle<()> + Send + Sync>> = OnceLock::new();

/// Hook (baton scenarios): called at the beginning of the named upcall on the thread that makes it
/// ("stopped", "vm_roots", "weak_refs", "post_forwarding", "resume"; "resumed" at the end of
/// resume_mutators); the argument is the
/// worker's tls value.
pub static UPCALL_HOOK: OnceLock<Box<dyn Fn(&'static str, usize) + Send + Sync>> = OnceLock::new();

/// Request (C17 seam b): the next `process_weak_refs` call does nothing but fan out `racers` work
/// packets into the VMRefClosure bucket, each holding a clone of the call's tracer context, that
/// all trace the object `obj` (`ObjectTracer::trace_object`), and returns `true` (call me again
/// when the closure is complete), so the binding's own weak-reference processing starts with the
/// next call.  `on_fanout` runs before the packets are added; `done(racer, worker ordinal, result
/// of trace_object)` after each racer's `with_tracer` has returned.
pub struct TraceFanout {
    pub obj: usize,
    pub racers: usize,
    pub on_fanout: Box<dyn Fn() + Send + Sync>,
    pub done: std::sync::Arc<dyn Fn(usize, usize, usize) + Send + Sync>,
}

pub static TRACE_FANOUT: Mutex<Option<TraceFanout>> = Mutex::new(None);

/// Baton scenario `satb2` (props/sched.rs): while set, `scan_object` announces every slot it is
/// about to hand to the visitor (which loads the field) as a scheduling point at the slot's
/// address (kind `AtomicLoad`; it fires only if the scenario has armed that address).  The SATB
/// barrier scans the fields of the object being written on the mutator's thread, and another
/// mutator may store to one of these fields at the same time: with this the two field accesses are
/// visible operations.  Off (the default): `scan_object` is what it always was.
pub static SCAN_SLOT_POINTS: AtomicBool = AtomicBool::new(false);

struct TraceRacePacket<C: ObjectTracerContext<VerifVM>> {
    ctx: C,
    obj: ObjectReference,
    racer: usize,
    done: std::sync::Arc<dyn Fn(usize, usize, usize) + Send + Sync>,
}

impl<C: ObjectTracerContext<VerifVM>> mmtk::scheduler::GCWork<VerifVM> for TraceRacePacket<C> {
    fn do_work(&mut self, worker: &mut mmtk::scheduler::GCWorker<VerifVM>, _mmtk: &'static mmtk::MMTK<VerifVM>) {
        let obj = self.obj;
        let mut out = 0usize;
        self.ctx.with_tracer(worker, |tracer| {
            out = tracer.trace_object(obj).to_raw_address().as_usize();
        });
        (self.done)(self.racer, worker.ordinal, out);
    }
}

fn upcall_hook(name: &'static str, tls: usize) {
    if let Some(h) = UPCALL_HOOK.get() {
        h(name, tls);
    }
}

// Logical synchronisation objects of the binding when the calling thread is scheduled by a baton
// instance (their addresses are the identities): the mutex guarding "the mutator is blocked" /
// "a collection finished", and the two condition variables.
static BATON_GC_MUTEX: u8 = 0;
static BATON_GC_DONE_CV: u8 = 0;
static BATON_BLOCKED_CV: u8 = 0;

fn baton_ids() -> (usize, usize, usize) {
    (&BATON_GC_MUTEX as *const u8 as usize, &BATON_GC_DONE_CV as *const u8 as usize, &BATON_BLOCKED_CV as *const u8 as usize)
}

/// Whether the calling thread is scheduled by a baton instance that models mutexes and condition
/// variables: the binding's own waits must then be logical, too.
fn under_baton() -> bool {
    crate::baton::is_registered() && mmtk::util::verif::rt::controls(mmtk::util::verif::rt::Class::Sync)
}

// ---- several mutator threads under a baton instance (scenario `req2` of props/sched.rs)
//
// Without this mode the harness thread plays every mutator and `BLOCKED` says whether it sits in
// `block_for_gc`.  In multi-mutator mode (baton scenarios only) every bound mutator has its own OS
// thread and a state: Running, Blocked (inside `block_for_gc`) or Idle (at a harness-level
// safepoint: it is not inside an MMTk call and will not touch the heap until it has passed
// `multi_enter_running`).  `stop_all_mutators` returns once every mutator is Blocked or Idle; a
// mutator leaves Blocked / Idle only when no collection is running or about to run.  All of it is
// protected by the logical mutex `BATON_GC_MUTEX`.

#[derive(Clone, Copy, Debug, PartialEq, Eq)]
pub enum MutSt {
    Running,
    Blocked,
    Idle,
}

pub struct Multi {
    pub st: Vec<MutSt>,
    /// collection count when the mutator last announced a request (`multi_note_request_base`)
    pub base: Vec<u64>,
    /// `stop_all_mutators` has found every mutator stopped; cleared by `resume_mutators`
    pub stopping: bool,
}

pub static MULTI: Mutex<Option<Multi>> = Mutex::new(None);

fn multi_active() -> bool {
    MULTI.lock().unwrap_or_else(|p| p.into_inner()).is_some()
}

fn multi_with<R>(f: impl FnOnce(&mut Multi) -> R) -> R {
    let mut g = MULTI.lock().unwrap_or_else(|p| p.into_inner());
    f(g.as_mut().expect("multi-mutator mode is not active"))
}

/// Enter multi-mutator mode with `n` mutators: mutator 0 (the calling controller) Running, the
/// others Idle.  Call at a quiescent point.
pub fn multi_begin(n: usize) {
    let c = with_state(|s| s.gc_count);
    let mut st = vec![MutSt::Idle; n];
    st[0] = MutSt::Running;
    *MULTI.lock().unwrap_or_else(|p| p.into_inner()) = Some(Multi { st, base: vec![c; n], stopping: false });
}

pub fn multi_end() {
    *MULTI.lock().unwrap_or_else(|p| p.into_inner()) = None;
    BLOCKED.store(false, Ordering::SeqCst);
}

/// Mutator `m` announces that its next MMTk call may request a collection.
pub fn multi_note_request_base(m: usize) {
    let c = with_state(|s| s.gc_count);
    multi_with(|x| x.base[m] = c);
}

/// Mutator `m` leaves its safepoint: waits (logically) while a collection is running or starting.
pub fn multi_enter_running(m: usize) {
    use mmtk::util::verif::rt;
    let (mx, done_cv, _) = baton_ids();
    rt::lock_acquire(mx, rt::LockMode::Mutex);
    while multi_with(|x| x.stopping) || with_state(|s| s.gc_active) {
        rt::cond_wait(done_cv, mx);
    }
    multi_with(|x| x.st[m] = MutSt::Running);
    rt::lock_release(mx, rt::LockMode::Mutex);
}

/// Mutator `m` arrives at a harness-level safepoint.
pub fn multi_enter_idle(m: usize) {
    use mmtk::util::verif::rt;
    let (mx, _, blocked_cv) = baton_ids();
    rt::lock_acquire(mx, rt::LockMode::Mutex);
    multi_with(|x| x.st[m] = MutSt::Idle);
    rt::cond_notify(blocked_cv, true);
    rt::lock_release(mx, rt::LockMode::Mutex);
}

/// Call before any MMTk call that may request a collection.
pub fn note_request_base() {
    let c = with_state(|s| s.gc_count);
    REQUEST_BASE.store(c, Ordering::SeqCst);
}

/// Set by drivers that want a collection that never finishes (the 60 s guards below) reported as
/// a crash of the running program (`CHILD-CRASH GC-HANG ...`) instead of a bare exit status.
pub static HANG_AS_CRASH: AtomicBool = AtomicBool::new(false);

fn hang_exit() -> ! {
    if HANG_AS_CRASH.load(Ordering::SeqCst) {
        crate::shadowvm::worker_panic_to_crash("panicked at harness/vm.rs:0:0: a collection did not finish within 60 s (the mutator waited in block_for_gc / the collector waited for the mutator)");
    }
    std::process::exit(3);
}

pub fn with_state<R>(f: impl FnOnce(&mut VmState) -> R) -> R {
    let mut g = STATE.lock().unwrap_or_else(|p| p.into_inner());
    f(g.as_mut().expect("VM state not initialised"))
}

pub fn log_event(e: VmEvent) {
    with_state(|s| s.events.push(e));
}

pub fn take_events() -> Vec<VmEvent> {
    with_state(|s| std::mem::take(&mut s.events))
}

fn leak_roots() -> *mut [usize; MAX_ROOTS] {
    Box::into_raw(Box::new([0usize; MAX_ROOTS]))
}

pub fn init_state() {
    let mut g = STATE.lock().unwrap();
    *g = Some(VmState {
        mutators: vec![],
        global_roots: leak_roots(),
        gc_active: false,
        gc_count: 0,
        events: vec![],
        ephemerons: vec![],
        weak_round: 0,
        worker_threads: vec![],
        record_copies: false,
        expected_stages: vec![],
        oracle_failures: vec![],
    });
}

pub fn worker_tls(ordinal: usize) -> VMWorkerThread {
    VMWorkerThread(VMThread(OpaquePointer::from_address(unsafe { Address::from_usize(1 + ordinal) })))
}

pub fn mutator_tls(index: usize) -> VMMutatorThread {
    VMMutatorThread(VMThread(OpaquePointer::from_address(unsafe { Address::from_usize(MUTATOR_TLS_BASE + index) })))
}

pub fn tls_value(t: VMThread) -> usize {
    t.0.to_address().as_usize()
}

// ---------------------------------------------------------------------------------------------
// object layout helpers

pub fn obj_start(o: ObjectReference) -> Address {
    o.to_raw_address()
}

pub fn read_word(a: Address) -> usize {
    unsafe { a.load::<usize>() }
}

pub fn write_word(a: Address, v: usize) {
    unsafe { a.store::<usize>(v) }
}

pub fn obj_size(o: ObjectReference) -> usize {
    read_word(obj_start(o) + 8usize) & 0xffff_ffff
}

pub fn obj_nrefs(o: ObjectReference) -> usize {
    (read_word(obj_start(o) + 8usize) >> 32) & 0xff
}

pub fn obj_flags(o: ObjectReference) -> u8 {
    ((read_word(obj_start(o) + 8usize) >> 40) & 0xff) as u8
}

pub fn obj_log_align(o: ObjectReference) -> usize {
    (read_word(obj_start(o) + 8usize) >> 48) & 0xff
}

pub fn obj_id(o: ObjectReference) -> u64 {
    read_word(obj_start(o) + 16usize) as u64
}

pub fn field_addr(o: ObjectReference, i: usize) -> Address {
    obj_start(o) + HEADER_BYTES + 8 * i
}

pub fn referent_addr(o: ObjectReference) -> Address {
    field_addr(o, obj_nrefs(o))
}

pub fn payload_start(o: ObjectReference) -> Address {
    let extra = if obj_flags(o) & FLAG_REFERENCE != 0 { 1 } else { 0 };
    field_addr(o, obj_nrefs(o) + extra)
}

pub fn payload_byte(id: u64, k: usize) -> u8 {
    (id.wrapping_mul(31).wrapping_add(k as u64 * 7) & 0xff) as u8
}

pub fn min_size(nrefs: usize, reference: bool) -> usize {
    HEADER_BYTES + 8 * nrefs + if reference { 8 } else { 0 }
}

/// Initialise a freshly allocated (zeroed) object.
pub fn init_object(start: Address, size: usize, nrefs: usize, flags: u8, align: usize, id: u64) -> ObjectReference {
    debug_assert!(size >= min_size(nrefs, flags & FLAG_REFERENCE != 0) && size % 8 == 0);
    let desc = size | (nrefs << 32) | ((flags as usize) << 40) | ((align.trailing_zeros() as usize) << 48);
    write_word(start + 8usize, desc);
    write_word(start + 16usize, id as usize);
    let o = ObjectReference::from_raw_address(start).unwrap();
    let p = payload_start(o);
    let n = start + size - p;
    for k in 0..n {
        unsafe { (p + k).store::<u8>(payload_byte(id, k)) };
    }
    o
}

/// Check the self-describing parts of an object: size sane, payload intact.
pub fn check_object(o: ObjectReference) -> Result<(), String> {
    let size = obj_size(o);
    let nrefs = obj_nrefs(o);
    if size < min_size(nrefs, obj_flags(o) & FLAG_REFERENCE != 0) || size % 8 != 0 || size > (1 << 30) {
        return Err(format!("object {} has corrupt descriptor: size {} nrefs {}", o, size, nrefs));
    }
    let id = obj_id(o);
    let p = payload_start(o);
    let n = obj_start(o) + size - p;
    for k in 0..n {
        let b = unsafe { (p + k).load::<u8>() };
        if b != payload_byte(id, k) {
            return Err(format!("object {} (id {}) payload byte {} is {:#x}, expected {:#x}", o, id, k, b, payload_byte(id, k)));
        }
    }
    Ok(())
}

// ---------------------------------------------------------------------------------------------
// ObjectModel

#[cfg(not(feature = "placement_b"))]
mod specs {
    use mmtk::vm::*;
    pub const LOG_BIT: VMGlobalLogBitSpec = VMGlobalLogBitSpec::side_first();
    pub const FWD_PTR: VMLocalForwardingPointerSpec = VMLocalForwardingPointerSpec::in_header(0);
    pub const FWD_BITS: VMLocalForwardingBitsSpec = VMLocalForwardingBitsSpec::in_header(0);
    pub const MARK: VMLocalMarkBitSpec = VMLocalMarkBitSpec::side_first();
    pub const LOS: VMLocalLOSMarkNurserySpec = VMLocalLOSMarkNurserySpec::side_after(MARK.as_spec());
    #[cfg(feature = "pinning")]
    pub const PIN: VMLocalPinningBitSpec = VMLocalPinningBitSpec::side_after(LOS.as_spec());
    pub const NAME: &str = "A";
}

#[cfg(feature = "placement_b")]
mod specs {
    use mmtk::vm::*;
    pub const LOG_BIT: VMGlobalLogBitSpec = VMGlobalLogBitSpec::side_first();
    // the forwarding pointer has to live in the header (a side table of one word per word of
    // heap cannot be reserved); everything else is on side
    pub const FWD_PTR: VMLocalForwardingPointerSpec = VMLocalForwardingPointerSpec::in_header(0);
    pub const FWD_BITS: VMLocalForwardingBitsSpec = VMLocalForwardingBitsSpec::side_first();
    pub const MARK: VMLocalMarkBitSpec = VMLocalMarkBitSpec::side_after(FWD_BITS.as_spec());
    pub const LOS: VMLocalLOSMarkNurserySpec = VMLocalLOSMarkNurserySpec::side_after(MARK.as_spec());
    #[cfg(feature = "pinning")]
    pub const PIN: VMLocalPinningBitSpec = VMLocalPinningBitSpec::side_after(LOS.as_spec());
    pub const NAME: &str = "B";
}

pub const PLACEMENT: &str = specs::NAME;

impl ObjectModel<VerifVM> for VerifVM {
    const GLOBAL_LOG_BIT_SPEC: VMGlobalLogBitSpec = specs::LOG_BIT;
    const LOCAL_FORWARDING_POINTER_SPEC: VMLocalForwardingPointerSpec = specs::FWD_PTR;
    const LOCAL_FORWARDING_BITS_SPEC: VMLocalForwardingBitsSpec = specs::FWD_BITS;
    const LOCAL_MARK_BIT_SPEC: VMLocalMarkBitSpec = specs::MARK;
    const LOCAL_LOS_MARK_NURSERY_SPEC: VMLocalLOSMarkNurserySpec = specs::LOS;
    #[cfg(feature = "pinning")]
    const LOCAL_PINNING_BIT_SPEC: VMLocalPinningBitSpec = specs::PIN;

    const UNIFIED_OBJECT_REFERENCE_ADDRESS: bool = true;
    const OBJECT_REF_OFFSET_LOWER_BOUND: isize = 0;

    fn copy(from: ObjectReference, semantics: CopySemantics, copy_context: &mut GCWorkerCopyContext<VerifVM>) -> ObjectReference {
        let bytes = obj_size(from);
        let align = 1usize << obj_log_align(from);
        let dst = copy_context.alloc_copy(from, bytes, align, 0, semantics);
        assert!(!dst.is_zero(), "alloc_copy returned null");
        if let Some(f) = COPY_ORACLE.get() {
            f(from.to_raw_address().as_usize(), dst.as_usize(), bytes);
        }
        // the GC header word belongs to MMTk: the copy starts with a clean one
        unsafe {
            std::ptr::copy_nonoverlapping((obj_start(from) + 8usize).to_ptr::<u8>(), (dst + 8usize).to_mut_ptr::<u8>(), bytes - 8);
            dst.store::<usize>(0);
        }
        let to = ObjectReference::from_raw_address(dst).unwrap();
        copy_context.post_copy(to, bytes, semantics);
        if RECORD_COPIES.load(Ordering::Relaxed) {
            log_event(VmEvent::Copy { from: from.to_raw_address().as_usize(), to: dst.as_usize() });
        }
        COPY_COUNT.fetch_add(1, Ordering::Relaxed);
        to
    }

    fn copy_to(from: ObjectReference, to: ObjectReference, region: Address) -> Address {
        let bytes = obj_size(from);
        let dst = obj_start(to);
        if dst != obj_start(from) {
            unsafe {
                std::ptr::copy((obj_start(from) + 8usize).to_ptr::<u8>(), (dst + 8usize).to_mut_ptr::<u8>(), bytes - 8);
            }
        }
        unsafe { dst.store::<usize>(0) };
        if !region.is_zero() {
            let mut a = region;
            while a < dst {
                unsafe { a.store::<u8>(VerifVM::ALIGNMENT_VALUE) };
                a += 1usize;
            }
        }
        COPY_COUNT.fetch_add(1, Ordering::Relaxed);
        dst + bytes
    }

    fn get_reference_when_copied_to(_from: ObjectReference, to: Address) -> ObjectReference {
        ObjectReference::from_raw_address(to).unwrap()
    }

    fn get_current_size(object: ObjectReference) -> usize {
        obj_size(object)
    }

    fn get_size_when_copied(object: ObjectReference) -> usize {
        obj_size(object)
    }

    fn get_align_when_copied(object: ObjectReference) -> usize {
        1usize << obj_log_align(object)
    }

    fn get_align_offset_when_copied(_object: ObjectReference) -> usize {
        0
    }

    fn get_type_descriptor(_reference: ObjectReference) -> &'static [i8] {
        unreachable!()
    }

    fn ref_to_object_start(object: ObjectReference) -> Address {
        object.to_raw_address()
    }

    fn ref_to_header(object: ObjectReference) -> Address {
        object.to_raw_address()
    }

    fn dump_object(object: ObjectReference) {
        eprintln!("object {} id {} size {} nrefs {}", object, obj_id(object), obj_size(object), obj_nrefs(object));
    }
}

pub static COPY_COUNT: AtomicUsize = AtomicUsize::new(0);
/// Optional oracle (C34) called by `ObjectModel::copy` with (from, to, bytes) right after the
/// destination has been allocated and before anything is written to it.  Unset = no effect.
pub static COPY_ORACLE: OnceLock<Box<dyn Fn(usize, usize, usize) + Send + Sync>> = OnceLock::new();
pub static RECORD_COPIES: AtomicBool = AtomicBool::new(false);

// ---------------------------------------------------------------------------------------------
// ActivePlan

impl ActivePlan<VerifVM> for VerifVM {
    fn is_mutator(tls: VMThread) -> bool {
        tls_value(tls) >= MUTATOR_TLS_BASE
    }

    fn mutator(tls: VMMutatorThread) -> &'static mut Mutator<VerifVM> {
        let v = tls_value(tls.0);
        with_state(|s| {
            let m = s.mutators.iter().find(|m| m.tls == v).expect("unknown mutator tls");
            unsafe { &mut *m.mutator }
        })
    }

    fn mutators<'a>() -> Box<dyn Iterator<Item = &'a mut Mutator<VerifVM>> + 'a> {
        let ptrs: Vec<*mut Mutator<VerifVM>> = with_state(|s| s.mutators.iter().map(|m| m.mutator).collect());
        Box::new(ptrs.into_iter().map(|p| unsafe { &mut *p }))
    }

    fn number_of_mutators() -> usize {
        with_state(|s| s.mutators.len())
    }
}

// ---------------------------------------------------------------------------------------------
// Collection

impl Collection<VerifVM> for VerifVM {
    fn stop_all_mutators<F>(_tls: VMWorkerThread, mut mutator_visitor: F)
    where
        F: FnMut(&'static mut Mutator<VerifVM>),
    {
        // The harness thread plays every mutator.  Every pause in this tree is requested from a
        // mutator poll site or a user request, both of which are followed by `block_for_gc`: the
        // world is stopped once the harness thread has arrived there (a collection must not run
        // while the requesting mutator is still between the poll and `block_for_gc`, e.g. with a
        // page reservation pending in `Space::acquire`).
        if under_baton() && multi_active() {
            // multi-mutator mode: wait logically until every mutator is Blocked or Idle; from then
            // on none of them leaves that state until resume_mutators (`stopping`)
            use mmtk::util::verif::rt;
            let (m, _, blocked_cv) = baton_ids();
            rt::lock_acquire(m, rt::LockMode::Mutex);
            while !multi_with(|x| x.st.iter().all(|s| *s != MutSt::Running)) {
                rt::cond_wait(blocked_cv, m);
            }
            multi_with(|x| x.stopping = true);
            BLOCKED.store(true, Ordering::SeqCst);
            rt::lock_release(m, rt::LockMode::Mutex);
        }
        if under_baton() {
            // wait logically until the mutator thread sits in block_for_gc
            use mmtk::util::verif::rt;
            let (m, _, blocked_cv) = baton_ids();
            rt::lock_acquire(m, rt::LockMode::Mutex);
            while !BLOCKED.load(Ordering::SeqCst) {
                rt::cond_wait(blocked_cv, m);
            }
            rt::lock_release(m, rt::LockMode::Mutex);
        }
        let t0 = std::time::Instant::now();
        while !BLOCKED.load(Ordering::SeqCst) {
            std::thread::yield_now();
            if t0.elapsed().as_secs() > 60 {
                eprintln!("VerifVM: stop_all_mutators waited 60 s for the mutator to block");
                hang_exit();
            }
        }
        log_event(VmEvent::StopAllMutators);
        upcall_hook("stopped", tls_value(_tls.0));
        let ms: Vec<(usize, *mut Mutator<VerifVM>)> = with_state(|s| {
            s.gc_active = true;
            s.mutators.iter().map(|m| (m.tls, m.mutator)).collect()
        });
        for (tls, m) in ms {
            mutator_visitor(unsafe { &mut *m });
            log_event(VmEvent::MutatorVisited(tls));
        }
    }

    fn resume_mutators(_tls: VMWorkerThread) {
        upcall_hook("resume", tls_value(_tls.0));
        let baton = under_baton();
        if baton {
            use mmtk::util::verif::rt;
            rt::lock_acquire(baton_ids().0, rt::LockMode::Mutex);
        }
        if baton && multi_active() {
            multi_with(|x| x.stopping = false);
            BLOCKED.store(false, Ordering::SeqCst);
        }
        with_state(|s| {
            s.events.push(VmEvent::ResumeMutators);
            s.gc_active = false;
            s.gc_count += 1;
        });
        GC_CV.notify_all();
        if baton {
            use mmtk::util::verif::rt;
            let (m, done_cv, _) = baton_ids();
            rt::lock_release(m, rt::LockMode::Mutex);
            rt::cond_notify(done_cv, true);
        }
        upcall_hook("resumed", tls_value(_tls.0));
    }

    fn block_for_gc(tls: VMMutatorThread) {
        let v = tls_value(tls.0);
        if under_baton() && multi_active() {
            // multi-mutator mode: this mutator is Blocked until a collection that stopped the world
            // after its request has resumed the mutators and no further one is running or starting
            use mmtk::util::verif::rt;
            let me = v - MUTATOR_TLS_BASE;
            let (m, done_cv, blocked_cv) = baton_ids();
            rt::lock_acquire(m, rt::LockMode::Mutex);
            with_state(|s| s.events.push(VmEvent::BlockForGcEnter(v)));
            let base = multi_with(|x| {
                x.st[me] = MutSt::Blocked;
                x.base[me]
            });
            rt::cond_notify(blocked_cv, true);
            while !(with_state(|s| s.gc_count > base && !s.gc_active) && !multi_with(|x| x.stopping)) {
                rt::cond_wait(done_cv, m);
            }
            let c = with_state(|s| {
                s.events.push(VmEvent::BlockForGcExit(v));
                s.gc_count
            });
            multi_with(|x| {
                x.st[me] = MutSt::Running;
                x.base[me] = c;
            });
            REQUEST_BASE.store(c, Ordering::SeqCst);
            rt::lock_release(m, rt::LockMode::Mutex);
            return;
        }
        if under_baton() {
            // the same protocol with logical waiting (a really blocked controller would stop the
            // whole instance)
            use mmtk::util::verif::rt;
            let (m, done_cv, blocked_cv) = baton_ids();
            rt::lock_acquire(m, rt::LockMode::Mutex);
            let start_count = with_state(|s| {
                s.events.push(VmEvent::BlockForGcEnter(v));
                REQUEST_BASE.load(Ordering::SeqCst)
            });
            BLOCKED.store(true, Ordering::SeqCst);
            rt::cond_notify(blocked_cv, true);
            while !with_state(|s| s.gc_count > start_count && !s.gc_active) {
                rt::cond_wait(done_cv, m);
            }
            BLOCKED.store(false, Ordering::SeqCst);
            with_state(|s| {
                REQUEST_BASE.store(s.gc_count, Ordering::SeqCst);
                s.events.push(VmEvent::BlockForGcExit(v));
            });
            rt::lock_release(m, rt::LockMode::Mutex);
            return;
        }
        let mut g = STATE.lock().unwrap_or_else(|p| p.into_inner());
        // The collection this call waits for may already have finished by the time the mutator
        // gets here (workers are woken by the request itself), so the baseline is the count
        // recorded before the request was made (`note_request_base`), not the count now.
        let start_count = {
            let s = g.as_mut().unwrap();
            s.events.push(VmEvent::BlockForGcEnter(v));
            REQUEST_BASE.load(Ordering::SeqCst)
        };
        BLOCKED.store(true, Ordering::SeqCst);
        // wait until a collection that started after the request has resumed the mutators
        let t0 = std::time::Instant::now();
        loop {
            {
                let s = g.as_mut().unwrap();
                if s.gc_count > start_count && !s.gc_active {
                    break;
                }
            }
            let (ng, _) = GC_CV.wait_timeout(g, std::time::Duration::from_millis(200)).unwrap_or_else(|p| p.into_inner());
            g = ng;
            if t0.elapsed().as_secs() > 60 {
                eprintln!("VerifVM: block_for_gc waited 60 s without a GC finishing");
                hang_exit();
            }
        }
        BLOCKED.store(false, Ordering::SeqCst);
        let s = g.as_mut().unwrap();
        REQUEST_BASE.store(s.gc_count, Ordering::SeqCst);
        s.events.push(VmEvent::BlockForGcExit(v));
    }

    fn spawn_gc_thread(_tls: VMThread, ctx: GCThreadContext<VerifVM>) {
        match ctx {
            GCThreadContext::Worker(w) => {
                let ordinal = w.ordinal;
                if let Some(spawner) = GC_THREAD_SPAWNER.get() {
                    let h = spawner(
                        ordinal,
                        Box::new(move || {
                            mmtk::memory_manager::start_worker::<VerifVM>(mmtk(), worker_tls(ordinal), w);
                        }),
                    );
                    with_state(|s| s.worker_threads.push(h));
                    return;
                }
                let h = std::thread::Builder::new()
                    .name(format!("gcworker-{}", ordinal))
                    .spawn(move || {
                        mmtk::memory_manager::start_worker::<VerifVM>(mmtk(), worker_tls(ordinal), w);
                    })
                    .unwrap();
                with_state(|s| s.worker_threads.push(h));
            }
        }
    }

    fn out_of_memory(tls: VMThread, err_kind: AllocationError) {
        OOM_COUNT.fetch_add(1, Ordering::SeqCst);
        log_event(VmEvent::OutOfMemory(tls_value(tls), format!("{:?}", err_kind)));
    }

    fn schedule_finalization(_tls: VMWorkerThread) {
        log_event(VmEvent::ScheduleFinalization);
    }

    fn post_forwarding(_tls: VMWorkerThread) {
        upcall_hook("post_forwarding", tls_value(_tls.0));
        log_event(VmEvent::PostForwarding);
    }

    fn is_collection_enabled() -> bool {
        COLLECTION_ENABLED.load(Ordering::SeqCst)
    }
}

// ---------------------------------------------------------------------------------------------
// Scanning

impl Scanning<VerifVM> for VerifVM {
    fn scan_object<SV: SlotVisitor<Address>>(_tls: VMWorkerThread, object: ObjectReference, slot_visitor: &mut SV) {
        let n = obj_nrefs(object);
        let points = SCAN_SLOT_POINTS.load(Ordering::Relaxed);
        for i in 0..n {
            if points {
                // scenario `satb2`: the visitor is about to load the field (a plain load in
                // mmtk-core) while another mutator may be storing to it
                mmtk::util::verif::rt::sched_point(mmtk::util::verif::rt::Kind::AtomicLoad, field_addr(object, i).as_usize());
            }
            slot_visitor.visit_slot(field_addr(object, i));
        }
    }

    fn notify_initial_thread_scan_complete(_partial_scan: bool, _tls: VMWorkerThread) {}

    fn scan_roots_in_mutator_thread(_tls: VMWorkerThread, mutator: &'static mut Mutator<VerifVM>, mut factory: impl RootsWorkFactory<Address>) {
        let v = tls_value(mutator.mutator_tls.0);
        let (slots, pinning, tpinning) = with_state(|s| {
            s.events.push(VmEvent::ScanMutatorRoots(v));
            let m = s.mutators.iter().find(|m| m.tls == v).expect("scan roots of unknown mutator");
            let base = Address::from_mut_ptr(m.roots as *mut usize);
            let slots: Vec<Address> = (0..MAX_ROOTS).map(|i| base + 8 * i).collect();
            (slots, m.pinning_roots.clone(), m.tpinning_roots.clone())
        });
        factory.create_process_roots_work(slots);
        if !pinning.is_empty() {
            factory.create_process_pinning_roots_work(pinning);
        }
        if !tpinning.is_empty() {
            factory.create_process_tpinning_roots_work(tpinning);
        }
    }

    fn scan_vm_specific_roots(_tls: VMWorkerThread, mut factory: impl RootsWorkFactory<Address>) {
        upcall_hook("vm_roots", tls_value(_tls.0));
        let slots = with_state(|s| {
            s.events.push(VmEvent::ScanVmRoots);
            let base = Address::from_mut_ptr(s.global_roots as *mut usize);
            (0..MAX_ROOTS).map(|i| base + 8 * i).collect::<Vec<Address>>()
        });
        factory.create_process_roots_work(slots);
    }

    fn supports_return_barrier() -> bool {
        false
    }

    fn prepare_for_roots_re_scanning() {}

    fn process_weak_refs(worker: &mut mmtk::scheduler::GCWorker<VerifVM>, tracer_context: impl ObjectTracerContext<VerifVM>) -> bool {
        upcall_hook("weak_refs", tls_value(worker.tls.0));
        let fanout = TRACE_FANOUT.lock().unwrap_or_else(|p| p.into_inner()).take();
        if let Some(f) = fanout {
            let obj = ObjectReference::from_raw_address(unsafe { Address::from_usize(f.obj) }).unwrap();
            (f.on_fanout)();
            for racer in 0..f.racers {
                let p = TraceRacePacket { ctx: tracer_context.clone(), obj, racer, done: f.done.clone() };
                mmtk::memory_manager::add_work_packet(mmtk(), mmtk::scheduler::WorkBucketStage::VMRefClosure, p);
            }
            return true;
        }
        // Ephemeron semantics: a value is retained iff its key is reachable.  One round retains
        // the values of all entries whose key is currently reachable and that were not retained
        // before; if any value was newly retained another round is needed (it may have made more
        // keys reachable).  Entries whose key stays unreachable are dropped in the last round.
        let (table, round, stages) = with_state(|s| {
            s.weak_round += 1;
            (s.ephemerons.clone(), s.weak_round, s.expected_stages.clone())
        });
        // C13 oracle: the closure of everything traced so far must be complete now.
        if !stages.is_empty() {
            let mut missing = vec![];
            for (k, st) in stages.iter().enumerate().take(round) {
                for a in st {
                    let o = ObjectReference::from_raw_address(unsafe { Address::from_usize(*a) }).unwrap();
                    if !o.is_reachable() {
                        missing.push((k, *a));
                    }
                }
            }
            if let Some((k, a)) = missing.first() {
                with_state(|s| s.oracle_failures.push(format!("weak:closure_incomplete|process_weak_refs call #{} ran while object {:#x} (closure stage {}) was not yet reached; {} such objects", round, a, k, missing.len())));
            }
        }
        if table.is_empty() {
            log_event(VmEvent::ProcessWeakRefs { round, more: false });
            with_state(|s| s.weak_round = 0);
            return false;
        }
        let mut new_table = vec![];
        let mut traced_any = false;
        // liveness of every key is sampled before anything is traced in this round, so that the
        // number of rounds is exactly the depth of the ephemeron chains (deterministic)
        let key_live: Vec<bool> = table.iter().map(|(k, _)| ObjectReference::from_raw_address(unsafe { Address::from_usize(*k) }).unwrap().is_reachable()).collect();
        tracer_context.with_tracer(worker, |tracer| {
            for (i, (k, v)) in table.iter().copied().enumerate() {
                let ko = ObjectReference::from_raw_address(unsafe { Address::from_usize(k) }).unwrap();
                let vo = ObjectReference::from_raw_address(unsafe { Address::from_usize(v) }).unwrap();
                if key_live[i] {
                    let nk = ko.get_forwarded_object().unwrap_or(ko);
                    let was_reachable = vo.is_reachable();
                    let nv = tracer.trace_object(vo);
                    if !was_reachable {
                        traced_any = true;
                    }
                    new_table.push((nk.to_raw_address().as_usize(), nv.to_raw_address().as_usize()));
                } else {
                    new_table.push((k, v));
                }
            }
        });
        if !traced_any {
            // fixed point: drop the entries whose key is dead
            new_table.retain(|(k, _)| {
                let ko = ObjectReference::from_raw_address(unsafe { Address::from_usize(*k) }).unwrap();
                ko.is_reachable()
            });
            // keys that were reachable have been updated above already
            with_state(|s| {
                s.ephemerons = new_table;
                s.weak_round = 0;
                s.events.push(VmEvent::ProcessWeakRefs { round, more: false });
            });
            false
        } else {
            with_state(|s| {
                s.ephemerons = new_table;
                s.events.push(VmEvent::ProcessWeakRefs { round, more: true });
            });
            true
        }
    }

    fn forward_weak_refs(worker: &mut mmtk::scheduler::GCWorker<VerifVM>, tracer_context: impl ObjectTracerContext<VerifVM>) {
        let table = with_state(|s| s.ephemerons.clone());
        let mut new_table = vec![];
        tracer_context.with_tracer(worker, |tracer| {
            for (k, v) in table {
                let ko = ObjectReference::from_raw_address(unsafe { Address::from_usize(k) }).unwrap();
                let vo = ObjectReference::from_raw_address(unsafe { Address::from_usize(v) }).unwrap();
                let nk = tracer.trace_object(ko);
                let nv = tracer.trace_object(vo);
                new_table.push((nk.to_raw_address().as_usize(), nv.to_raw_address().as_usize()));
            }
        });
        with_state(|s| {
            s.ephemerons = new_table;
            s.events.push(VmEvent::ForwardWeakRefs);
        });
    }
}

// ---------------------------------------------------------------------------------------------
// ReferenceGlue

impl ReferenceGlue<VerifVM> for VerifVM {
    type FinalizableType = ObjectReference;

    fn clear_referent(new_reference: ObjectReference) {
        write_word(referent_addr(new_reference), 0);
    }

    fn get_referent(object: ObjectReference) -> Option<ObjectReference> {
        ObjectReference::from_raw_address(unsafe { Address::from_usize(read_word(referent_addr(object))) })
    }

    fn set_referent(reff: ObjectReference, referent: ObjectReference) {
        write_word(referent_addr(reff), referent.to_raw_address().as_usize());
    }

    fn enqueue_references(references: &[ObjectReference], _tls: VMWorkerThread) {
        log_event(VmEvent::EnqueueReferences(references.iter().map(|r| r.to_raw_address().as_usize()).collect()));
    }
}
