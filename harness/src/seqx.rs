//! `seqx`: explicit-state breadth-first exploration of operation histories on a real component,
//! compared step by step with a reference model (DESIGN.md 4.1).
//!
//! A state is identified by the history that reaches it; the real component is rebuilt and the
//! history replayed to expand it (real objects owning mapped memory cannot be cloned).  States
//! are deduplicated on a canonical key supplied by the subject, which must include every part
//! of the real state that can influence later results.

use crate::common::{catch, Run};
use serde_json::{json, Value};
use std::collections::{HashSet, VecDeque};
use std::fmt::Debug;

pub trait Subject {
    type Op: Clone + Debug;
    /// Real component + reference model.
    type State;
    fn name(&self) -> String;
    fn fresh(&self) -> Self::State;
    /// Enabled operations, simplest first.
    fn enabled(&self, st: &Self::State) -> Vec<Self::Op>;
    /// Apply to real and model, compare the result.  Ok(true) = the transition exercised the
    /// collision the driver is built to force (counted as non-trivial).
    fn apply(&self, st: &mut Self::State, op: &Self::Op) -> Result<bool, String>;
    /// Full-state oracle: the observable real state must equal the model.
    fn check(&self, st: &Self::State) -> Result<(), String>;
    /// Canonical key for deduplication.
    fn key(&self, st: &Self::State) -> Vec<u8>;
    fn op_json(&self, op: &Self::Op) -> Value {
        json!(format!("{:?}", op))
    }
    /// Signature class of a violating operation (for known-findings matching).
    fn signature(&self, op: &Self::Op, _msg: &str) -> String {
        let s = format!("{:?}", op);
        s.split(|c: char| !c.is_alphanumeric() && c != '_').next().unwrap_or("op").to_string()
    }
    /// Tear down a state (unmap memory ...).  Default: drop.
    fn dispose(&self, _st: Self::State) {}
}

#[derive(Default, Debug, Clone)]
pub struct Stats {
    pub states: u64,
    pub transitions: u64,
    pub nontrivial: u64,
    pub max_depth: u64,
    pub closed: bool,
    pub violations: u64,
}

/// Replay a history on a fresh state; returns the state or the (step index, message) of a
/// mismatch.
pub fn replay<S: Subject>(s: &S, hist: &[S::Op]) -> Result<S::State, (usize, String)> {
    let mut st = s.fresh();
    for (i, op) in hist.iter().enumerate() {
        let r = catch(|| s.apply(&mut st, op).and_then(|nt| s.check(&st).map(|_| nt)));
        match r {
            Ok(Ok(_)) => {}
            Ok(Err(m)) => {
                s.dispose(st);
                return Err((i, m));
            }
            Err(p) => {
                // state may be inconsistent after a panic; leak it rather than dispose
                std::mem::forget(st);
                return Err((i, format!("panic: {} @ {}", p, crate::common::last_panic_location())));
            }
        }
    }
    Ok(st)
}

/// Breadth-first search.  Stops expanding at `max_depth` or `max_states`; `closed` tells whether
/// the frontier emptied (state space closed) before a cap was hit.  Every violating transition is
/// reported (first per signature kept by `Run`), and the successor of a violating transition is
/// not expanded.
pub fn bfs<S: Subject>(s: &S, run: &mut Run, cfg_json: Value, max_depth: usize, max_states: usize) -> Stats {
    let mut stats = Stats::default();
    let mut seen: HashSet<Vec<u8>> = HashSet::new();
    let mut frontier: VecDeque<Vec<S::Op>> = VecDeque::new();
    let init = s.fresh();
    if let Err(m) = s.check(&init) {
        run.violation(
            format!("{}:init", s.name()),
            format!("initial state mismatch: {}", m),
            json!({"subject": s.name(), "cfg": cfg_json, "history": []}),
        );
        stats.violations += 1;
    }
    seen.insert(s.key(&init));
    s.dispose(init);
    frontier.push_back(vec![]);
    stats.states = 1;
    let mut capped = false;
    while let Some(hist) = frontier.pop_front() {
        if hist.len() >= max_depth {
            capped = true;
            continue;
        }
        let st = match replay(s, &hist) {
            Ok(st) => st,
            Err((i, m)) => crate::common::machinery_failure(&format!(
                "seqx replay divergence in {} at step {} of {:?}: {}",
                s.name(),
                i,
                hist,
                m
            )),
        };
        let ops = s.enabled(&st);
        s.dispose(st);
        for op in ops {
            let mut st = match replay(s, &hist) {
                Ok(st) => st,
                Err((i, m)) => crate::common::machinery_failure(&format!("seqx replay divergence (2) in {} at {}: {}", s.name(), i, m)),
            };
            stats.transitions += 1;
            let r = catch(|| s.apply(&mut st, &op).and_then(|nt| s.check(&st).map(|_| nt)));
            let mut h2 = hist.clone();
            h2.push(op.clone());
            match r {
                Ok(Ok(nt)) => {
                    if nt {
                        stats.nontrivial += 1;
                    }
                    let k = s.key(&st);
                    s.dispose(st);
                    if seen.insert(k) {
                        stats.states += 1;
                        stats.max_depth = stats.max_depth.max(h2.len() as u64);
                        if stats.states as usize >= max_states {
                            capped = true;
                        } else {
                            frontier.push_back(h2);
                        }
                    }
                }
                other => {
                    let msg = match other {
                        Ok(Err(m)) => m,
                        Err(p) => {
                            std::mem::forget(st);
                            format!("panic: {} @ {}", p, crate::common::last_panic_location())
                        }
                        _ => unreachable!(),
                    };
                    stats.violations += 1;
                    run.violation(
                        format!("{}:{}", s.name().split('[').next().unwrap_or(""), s.signature(&op, &msg)),
                        format!("{} after history {:?}: {}", s.name(), h2, msg),
                        json!({"subject": s.name(), "cfg": cfg_json, "history": h2.iter().map(|o| s.op_json(o)).collect::<Vec<_>>()}),
                    );
                }
            }
        }
        if capped && stats.states as usize >= max_states {
            break;
        }
    }
    stats.closed = !capped && frontier.is_empty();
    stats
}

pub fn add_stats(run: &mut Run, st: &Stats) {
    run.add("states", st.states);
    run.add("transitions", st.transitions);
    run.add("evaluations", st.transitions);
    run.add("traces_validated_against_impl", st.transitions);
    run.add("distinct_nontrivial", st.nontrivial);
    let d = run.get("max_depth").max(st.max_depth);
    run.set("max_depth", d);
    let ex = run.coverage.get("exhaustive").and_then(|v| v.as_bool()).unwrap_or(true);
    run.set("exhaustive", ex && st.closed);
}
