//! `seqx`: explicit-state breadth-first exploration of operation histories on a real component,
//! compared step by step with a reference model (DESIGN.md 4.1).
//!
//! A state is identified by the history that reaches it.  To expand a state the real component
//! is either rebuilt from a snapshot (subjects whose complete state can be copied, e.g. a
//! free-list table) or rebuilt fresh with the history replayed (subjects owning mapped memory or
//! process-global state).  States are deduplicated on a canonical key supplied by the subject,
//! which must include every part of the real state that can influence later results.

use crate::common::{catch, Run};
use serde_json::{json, Value};
use std::collections::{HashSet, VecDeque};
use std::fmt::Debug;

pub trait Subject {
    type Op: Clone + Debug;
    /// Real component + reference model.
    type State;
    /// Snapshot of a state (see `snapshot`); `()` if unsupported.
    type Snap: Clone;
    fn name(&self) -> String;
    fn fresh(&self) -> Self::State;
    /// Enabled operations, simplest first.
    fn enabled(&self, st: &Self::State) -> Vec<Self::Op>;
    /// Apply to real and model, compare the result.  Ok(true) = the transition exercised the
    /// collision the driver is built to force (counted as non-trivial).
    fn apply(&self, st: &mut Self::State, op: &Self::Op) -> Result<bool, String>;
    /// Full-state oracle: the observable real state must equal the model.
    fn check(&self, st: &Self::State) -> Result<(), String>;
    /// Canonical key for deduplication.
    fn key(&self, st: &Self::State) -> Vec<u8>;
    fn op_json(&self, op: &Self::Op) -> Value {
        json!(format!("{:?}", op))
    }
    /// Signature class of a violating operation (for known-findings matching).
    fn signature(&self, op: &Self::Op, _msg: &str) -> String {
        let s = format!("{:?}", op);
        s.split(|c: char| !c.is_alphanumeric() && c != '_').next().unwrap_or("op").to_string()
    }
    /// Tear down a state (unmap memory ...).  Default: drop.
    fn dispose(&self, _st: Self::State) {}
    /// Optional fast path: copy out the complete state so that it can be rebuilt without
    /// replaying its history.  `None` = not supported.
    fn snapshot(&self, _st: &Self::State) -> Option<Self::Snap> {
        None
    }
    fn restore(&self, _snap: &Self::Snap) -> Self::State {
        unreachable!()
    }
}

#[derive(Default, Debug, Clone)]
pub struct Stats {
    pub states: u64,
    pub transitions: u64,
    pub nontrivial: u64,
    pub max_depth: u64,
    pub closed: bool,
    pub violations: u64,
}

/// Replay a history on a fresh state; returns the state or the (step index, message) of a
/// mismatch.
pub fn replay<S: Subject>(s: &S, hist: &[S::Op]) -> Result<S::State, (usize, String)> {
    let mut st = s.fresh();
    for (i, op) in hist.iter().enumerate() {
        let r = catch(|| s.apply(&mut st, op).and_then(|nt| s.check(&st).map(|_| nt)));
        match r {
            Ok(Ok(_)) => {}
            Ok(Err(m)) => {
                s.dispose(st);
                return Err((i, m));
            }
            Err(p) => {
                // state may be inconsistent after a panic; leak it rather than dispose
                std::mem::forget(st);
                return Err((i, format!("panic: {} @ {}", p, crate::common::last_panic_location())));
            }
        }
    }
    Ok(st)
}

struct Node<O, P> {
    parent: usize,
    op: Option<O>,
    depth: u32,
    snap: Option<P>,
}

/// Breadth-first search.  Stops expanding at `max_depth` or `max_states`; `closed` tells whether
/// the frontier emptied (state space closed) before a cap was hit.  Every violating transition is
/// reported (first per signature kept by `Run`), and the successor of a violating transition is
/// not expanded.
pub fn bfs<S: Subject>(s: &S, run: &mut Run, cfg_json: Value, max_depth: usize, max_states: usize) -> Stats {
    let mut stats = Stats::default();
    let mut seen: HashSet<Vec<u8>> = HashSet::new();
    let mut nodes: Vec<Node<S::Op, S::Snap>> = vec![];
    let mut frontier: VecDeque<usize> = VecDeque::new();
    let init = s.fresh();
    if let Err(m) = s.check(&init) {
        run.violation(
            format!("{}:init", s.name().split('[').next().unwrap_or("")),
            format!("{}: initial state mismatch: {}", s.name(), m),
            json!({"subject": s.name(), "cfg": cfg_json, "history": []}),
        );
        stats.violations += 1;
    }
    seen.insert(s.key(&init));
    nodes.push(Node { parent: usize::MAX, op: None, depth: 0, snap: s.snapshot(&init) });
    s.dispose(init);
    frontier.push_back(0);
    stats.states = 1;
    let mut capped = false;

    let history = |nodes: &Vec<Node<S::Op, S::Snap>>, mut i: usize| -> Vec<S::Op> {
        let mut h = vec![];
        while nodes[i].parent != usize::MAX {
            h.push(nodes[i].op.clone().unwrap());
            i = nodes[i].parent;
        }
        h.reverse();
        h
    };
    let rebuild = |nodes: &Vec<Node<S::Op, S::Snap>>, i: usize| -> S::State {
        if let Some(sn) = &nodes[i].snap {
            s.restore(sn)
        } else {
            let h = history(nodes, i);
            match replay(s, &h) {
                Ok(st) => st,
                Err((k, m)) => crate::common::machinery_failure(&format!("seqx replay divergence in {} at step {} of {:?}: {}", s.name(), k, h, m)),
            }
        }
    };

    while let Some(ni) = frontier.pop_front() {
        let depth = nodes[ni].depth as usize;
        if depth >= max_depth {
            capped = true;
            continue;
        }
        let st = rebuild(&nodes, ni);
        let ops = s.enabled(&st);
        s.dispose(st);
        for op in ops {
            let mut st = rebuild(&nodes, ni);
            stats.transitions += 1;
            let r = catch(|| s.apply(&mut st, &op).and_then(|nt| s.check(&st).map(|_| nt)));
            match r {
                Ok(Ok(nt)) => {
                    if nt {
                        stats.nontrivial += 1;
                    }
                    let k = s.key(&st);
                    if seen.insert(k) {
                        stats.states += 1;
                        stats.max_depth = stats.max_depth.max(depth as u64 + 1);
                        if stats.states as usize >= max_states {
                            capped = true;
                        } else {
                            nodes.push(Node { parent: ni, op: Some(op.clone()), depth: depth as u32 + 1, snap: s.snapshot(&st) });
                            frontier.push_back(nodes.len() - 1);
                        }
                    }
                    s.dispose(st);
                }
                other => {
                    let msg = match other {
                        Ok(Err(m)) => {
                            s.dispose(st);
                            m
                        }
                        Err(p) => {
                            std::mem::forget(st);
                            format!("panic: {} @ {}", p, crate::common::last_panic_location())
                        }
                        _ => unreachable!(),
                    };
                    stats.violations += 1;
                    let mut h2 = history(&nodes, ni);
                    h2.push(op.clone());
                    run.violation(
                        format!("{}:{}", s.name().split('[').next().unwrap_or(""), s.signature(&op, &msg)),
                        format!("{} after history {:?}: {}", s.name(), h2, msg),
                        json!({"subject": s.name(), "cfg": cfg_json, "history": h2.iter().map(|o| s.op_json(o)).collect::<Vec<_>>()}),
                    );
                }
            }
        }
        // the snapshot of an expanded node is no longer needed
        nodes[ni].snap = None;
        if capped && stats.states as usize >= max_states {
            break;
        }
    }
    stats.closed = !capped && frontier.is_empty();
    stats
}

pub fn add_stats(run: &mut Run, st: &Stats) {
    run.add("states", st.states);
    run.add("transitions", st.transitions);
    run.add("evaluations", st.transitions);
    run.add("traces_validated_against_impl", st.transitions);
    run.add("distinct_nontrivial", st.nontrivial);
    let d = run.get("max_depth").max(st.max_depth);
    run.set("max_depth", d);
    let ex = run.coverage.get("exhaustive").and_then(|v| v.as_bool()).unwrap_or(true);
    run.set("exhaustive", ex && st.closed);
}

/// Run one BFS per configuration, in parallel on up to `run.jobs` threads; each configuration
/// gets its own sub-`Run`, merged in order afterwards.  `make` builds the subject inside the
/// worker thread.
pub fn bfs_many<C: Send + Sync + Clone, S: Subject>(
    run: &mut Run,
    cfgs: &[C],
    make: impl Fn(&C) -> S + Sync,
    cfg_json: impl Fn(&C) -> Value + Sync,
    max_depth: usize,
    max_states: usize,
) -> Vec<Stats> {
    let next = std::sync::atomic::AtomicUsize::new(0);
    let results: std::sync::Mutex<Vec<Option<(Stats, Value)>>> = std::sync::Mutex::new(vec![None; cfgs.len()]);
    let tier = run.tier;
    let id = run.id.clone();
    std::thread::scope(|sc| {
        for _ in 0..run.jobs.min(cfgs.len()).max(1) {
            sc.spawn(|| {
                crate::common::quiet_panics();
                loop {
                    let i = next.fetch_add(1, std::sync::atomic::Ordering::SeqCst);
                    if i >= cfgs.len() {
                        break;
                    }
                    let mut sub = Run::new(&id, tier);
                    let subj = make(&cfgs[i]);
                    let st = bfs(&subj, &mut sub, cfg_json(&cfgs[i]), max_depth, max_states);
                    results.lock().unwrap()[i] = Some((st, sub.to_child_json()));
                }
            });
        }
    });
    let mut out = vec![];
    for r in results.into_inner().unwrap() {
        let (st, j) = r.unwrap();
        // only violations (and their counter) come from the sub-run; stats are added by add_stats
        if let Some(a) = j.get("violations").and_then(|c| c.as_array()) {
            for x in a {
                run.violation(x["signature"].as_str().unwrap_or("?").to_string(), x["message"].as_str().unwrap_or("").to_string(), x["case"].clone());
            }
        }
        add_stats(run, &st);
        out.push(st);
    }
    out
}
