//! C09 — garbage is fully reclaimable: no space leak across GC cycles.
//!
//! For every collecting plan (own processes, real `MMTK` instance through the `VerifVM` binding,
//! one GC worker): histories of *cycles*.  A cycle of kind K allocates objects of K's size mix
//! until 60 % of the heap has been requested (most objects are garbage at once, every k-th is kept
//! on a rooted list so that the collections triggered on the way find live and dead data), then
//! drops every reference and forces an exhaustive collection.
//!
//! Histories: (a) segment `win`: one run per plan whose kind sequence is a de Bruijn sequence of
//! order n over the five kinds {small, span, los, mixed, twomut}: every sequence of <= n kinds
//! occurs as consecutive cycles (n = 3 quick, 5 thorough; 16 MiB heap); (b) segments `rep:K`: each
//! kind repeated R times in a fresh process (R = 130 quick on a 4 MiB heap, 300 thorough on
//! 16 MiB: crosses the 127-epoch wrap of the Immix line mark state, which every full-heap
//! collection bumps).  PageProtect (one mprotect'ed page per object) gets n = 2 / 3, R = 20 / 60.
//!
//! Oracle (the property's two clauses):
//!  * no `out_of_memory` upcall and no allocation returning null (`oom:unexpected`);
//!  * after the exhaustive collection closing every cycle, for every space of the plan the page
//!    resource's reserved and committed page counters are <= FLOOR(space policy), a constant
//!    derived from the code (thread-local allocation buffers that a plan may legitimately retain;
//!    see `Floors::floor`), and `used_bytes` <= sum over spaces of FLOOR + the side metadata
//!    estimate for FLOOR (`leak:`).  The floor does not depend on the cycle number, so a leak of
//!    >= 1 page (block) per cycle exceeds it within the repetition runs.  (On the unchanged tree
//!    every plan is back to exactly 0 data pages after every cycle.)
//!  * additionally (reading of "fully reclaimable": reclaimed address space is reused): the span of
//!    addresses returned by allocations in any one space stays <= 8 x heap (`leak:address_span`).
//!
//! ConcurrentImmix: a forced collection that arrives while concurrent marking is in progress is
//! that cycle's FinalMark pause (snapshot-at-the-beginning: floating garbage survives by design);
//! the oracle is evaluated after one more forced collection, which is a full pause.

use crate::common::{catch, emit_child_result, machinery_failure, run_children, Run, Tier};
use crate::shadowvm::{install_crash_handlers, set_current_case, worker_panic_to_crash, BootCfg, Fail, SObj, Sem, World, COLLECTING_PLANS};
use crate::vm::*;
use mmtk::util::verif::c09 as hook;
use serde_json::{json, Value};
use std::collections::{BTreeMap, HashSet};
use std::sync::atomic::Ordering;

const PAGE: usize = 4096;
const KINDS: [&str; 5] = ["small", "span", "los", "mixed", "twomut"];
/// mutators bound at the same time (the two-mutator kind) and GC workers of the deciding runs
const MAX_MUTATORS: usize = 2;
const WORKERS: usize = 1;

fn fail<T>(sig: &str, msg: String) -> Result<T, Fail> {
    Err((sig.to_string(), msg))
}

pub fn owns(sig: &str) -> bool {
    sig.starts_with("leak:") || sig.starts_with("oom:unexpected")
}

// ---------------------------------------------------------------------------------------------
// the per-space floor

/// Which policy a space belongs to, from the name the plan gave it.
fn policy_of(_plan: &str, space: &str) -> &'static str {
    match space {
        "los" | "pageprotect" => "los",
        // never allocated into by C09's programs (Default and Los semantics only)
        "immortal" | "code_space" | "code_lo_space" | "ro_space" | "vm_space" | "nonmoving" => "immortal",
        "copyspace0" | "copyspace1" | "nursery" | "mc" | "compressor_space" => "bump",
        "immix" | "immix_mature" => "immix",
        "ms" => "marksweep",
        _ => "unknown",
    }
}

/// Size classes of the native mark-sweep space that C09's programs allocate from (see `recipe`).
const MS_CLASSES_USED: usize = 4;

struct Floors {
    bump_block_pages: usize,
    immix_block_pages: usize,
    ms_block_pages: usize,
    ms_bins: usize,
}

impl Floors {
    fn get() -> Floors {
        let (bump, immix, ms, bins) = hook::plan_constants();
        Floors { bump_block_pages: bump / PAGE, immix_block_pages: immix / PAGE, ms_block_pages: ms / PAGE, ms_bins: bins }
    }
    /// Data pages a space of this policy may retain after every object in it has died and an
    /// exhaustive collection has run.
    ///
    /// * bump-allocated spaces (CopySpace, MarkCompactSpace, CompressorSpace; MonotonePageResource
    ///   reset / cursor reset returns everything): one bump block (`BLOCK_SIZE`) per thread-local
    ///   allocator: one per mutator, one per GC worker copy context.
    /// * ImmixSpace: every block without a marked line is released by the sweep; allocators are
    ///   reset at every collection.  Allowed: per mutator two blocks (bump + overflow cursor), per
    ///   worker copy and defrag allocators with two blocks each.
    /// * native MarkSweepSpace: every unmarked block is released at the collection (eagerly, or
    ///   by `sweep_later` with lazy sweeping); allowed is one block per mutator for every size
    ///   class the programs allocate from (`MS_CLASSES_USED`: 40 B, 264 B, 2 KiB, 60 000 B), a
    ///   margin for blocks a thread-local free-list allocator might keep.
    /// * LargeObjectSpace: every dead object's pages are released by the sweep: nothing.
    /// * immortal-like spaces: C09's programs allocate nothing there: nothing.
    fn floor(&self, policy: &str) -> usize {
        match policy {
            "bump" => (MAX_MUTATORS + WORKERS) * self.bump_block_pages,
            "immix" => (MAX_MUTATORS * 2 + WORKERS * 4) * self.immix_block_pages,
            "marksweep" => MS_CLASSES_USED.min(self.ms_bins) * MAX_MUTATORS * self.ms_block_pages,
            _ => 0,
        }
    }
}

/// Backing regions of the Compressor's RegionPageResource are committed whole (1 MiB each) and
/// stay committed: at most one region per MiB of heap plus one.
const REGION_PAGES: usize = 256;

#[derive(Clone, Debug)]
struct Snap {
    used_pages: usize,
    spaces: Vec<hook::SpacePages>,
}

impl Snap {
    fn take(w: &World, fl: &Floors) -> Snap {
        let plan = w.cfg.plan.clone();
        let f = |name: &str| fl.floor(policy_of(&plan, name));
        Snap { used_pages: mmtk::memory_manager::used_bytes(w.mmtk) / PAGE, spaces: hook::space_pages(w.mmtk, &f) }
    }
    fn total_reserved(&self) -> usize {
        self.spaces.iter().map(|s| s.pr_reserved).sum()
    }
    fn json(&self) -> Value {
        json!({"used_pages": self.used_pages, "spaces": self.spaces.iter().filter(|s| s.pr_reserved + s.pr_committed > 0).map(|s| json!([s.name, s.pr_reserved, s.pr_committed])).collect::<Vec<_>>()})
    }
}

// ---------------------------------------------------------------------------------------------
// allocation

struct Filler {
    /// per space-sized address slot (addr >> 41: the extent of one space under the 64-bit layout): lowest and highest address returned by an allocation
    span: BTreeMap<usize, (usize, usize)>,
    requested: usize,
    allocs: u64,
    heap: usize,
    /// the bound mutators (cached per cycle)
    mutators: [Option<*mut mmtk::Mutator<VerifVM>>; MAX_MUTATORS],
}

/// Heap size, window order and repetition count per (plan, tier, segment).  Quick keeps the
/// 16 MiB heap for the window run and uses a 4 MiB heap for the repetition runs (a 40-byte-object
/// cycle of a 16 MiB heap is 250 000 allocations); PageProtect (one mprotect'ed page per object,
/// ~100x slower per object) gets shorter histories.
fn heap_bytes(plan: &str, t: Tier, segment: &str) -> usize {
    match (t, plan, segment) {
        (Tier::Thorough, _, _) => 16 << 20,
        (Tier::Quick, "PageProtect", _) => 4 << 20,
        (Tier::Quick, _, "win") => 16 << 20,
        (Tier::Quick, _, _) => 4 << 20,
    }
}

fn window_order(plan: &str, t: Tier) -> usize {
    match (plan, t) {
        ("PageProtect", Tier::Quick) => 2,
        ("PageProtect", Tier::Thorough) => 3,
        (_, Tier::Quick) => 3,
        (_, Tier::Thorough) => 5,
    }
}

fn repetitions(plan: &str, t: Tier) -> usize {
    match (plan, t) {
        ("PageProtect", Tier::Quick) => 20,
        ("PageProtect", Tier::Thorough) => 60,
        (_, Tier::Quick) => 130,
        (_, Tier::Thorough) => 300,
    }
}

fn mutator_of(m: usize) -> &'static mut mmtk::Mutator<VerifVM> {
    with_state(|s| {
        let r = s.mutators.iter().find(|x| x.tls == MUTATOR_TLS_BASE + m).expect("unbound mutator");
        unsafe { &mut *r.mutator }
    })
}

impl Filler {
    /// Bytes of heap one object of `size` takes at least (page granularity in page-based spaces).
    fn footprint(w: &World, size: usize) -> usize {
        if w.cfg.plan == "PageProtect" || size > w.max_non_los {
            size.div_ceil(PAGE) * PAGE
        } else {
            size
        }
    }

    /// Allocate one object; if `keep`, push it on the list rooted in `slot` of mutator `m`.
    fn alloc(&mut self, w: &mut World, m: usize, slot: usize, size: usize, keep: bool) -> Result<(), Fail> {
        let sem = w.effective_sem(size, Sem::Default);
        let mu: &mut mmtk::Mutator<VerifVM> = unsafe { &mut *self.mutators[m].expect("unbound mutator") };
        // = note_request_base(): every collection so far was awaited by this thread, so the
        // binding's collection count equals the count the world saw last
        REQUEST_BASE.store(w.last_gc_count, Ordering::SeqCst);
        let a = mmtk::memory_manager::alloc(mu, size, 8, 0, sem.to_mmtk());
        w.stats.allocs += 1;
        w.stats.ops += 1;
        self.allocs += 1;
        // the allocation may have run collections: re-synchronise the shadow heap (foreign classes)
        w.after_possible_gc()?;
        if OOM_COUNT.load(Ordering::SeqCst) != 0 {
            return fail("oom:unexpected:upcall", format!("out_of_memory upcall while allocating {} bytes ({}) with {} bytes requested so far in this cycle", size, sem.name(), self.requested));
        }
        if a.is_zero() {
            return fail("oom:unexpected:null", format!("alloc({} bytes, {}) returned null with {} bytes requested so far in this cycle", size, sem.name(), self.requested));
        }
        self.requested += Self::footprint(w, size);
        let e = self.span.entry(a.as_usize() >> 41).or_insert((a.as_usize(), a.as_usize() + size));
        e.0 = e.0.min(a.as_usize());
        e.1 = e.1.max(a.as_usize() + size);
        let id = NEXT_ID.fetch_add(1, Ordering::SeqCst);
        let o = init_object(a, size, 2, 0, 8, id);
        mmtk::memory_manager::post_alloc(mu, o, size, sem.to_mmtk());
        if keep {
            w.shadow.objs.insert(id, SObj { id, size, align: 8, sem, addr: a.as_usize(), fields: vec![None; 2], is_ref: false, referent: None, pinned: false, moved: 0, age: 0 });
            let head = w.root(m, slot);
            w.write_field(m, id, 0, head);
            w.set_root(m, slot, Some(id));
        }
        Ok(())
    }

    fn check_span(&self) -> Result<(), Fail> {
        let heap = self.heap;
        for (k, (lo, hi)) in &self.span {
            if hi - lo > 8 * heap {
                return fail("leak:address_span", format!("allocations in the address range {:#x}.. span {} bytes ([{:#x},{:#x})), more than 8 x the {} byte heap: reclaimed address space is not reused", k << 41, hi - lo, lo, hi, heap));
            }
        }
        Ok(())
    }
}

/// Size of the i-th allocation of a cycle of `kind`, whether it is kept, and its mutator.
fn recipe(kind: &str, i: usize) -> (usize, bool, usize) {
    match kind {
        "small" => (40, i % 16 == 0, 0),
        "span" => (if i % 2 == 0 { 264 } else { 2048 }, i % 8 == 0, 0),
        "los" => (81920, i % 2 == 0, 0),
        "mixed" => {
            if i % 64 == 63 {
                (81920, i % 128 == 63, 0)
            } else if i % 64 == 31 {
                // just below 64 KiB: the largest non-LOS size class of the free-list allocator
                (60000, i % 128 == 31, 0)
            } else {
                ([40, 40, 264, 40, 2048, 40, 264, 40][i % 8], i % 8 == 2 || i % 16 == 4, 0)
            }
        }
        "twomut" => ([40, 264, 2048, 40][(i / 2) % 4], i % 8 < 2, i % 2),
        _ => machinery_failure("unknown cycle kind"),
    }
}

#[derive(Default)]
struct CycleFacts {
    allocs: u64,
    gcs: u64,
    peak: usize,
    after: usize,
    peak_snap: Option<Value>,
    after_snap: Option<Value>,
}

fn check_floor(w: &World, fl: &Floors, heap: usize, snap: &Snap, at: &str) -> Result<(), Fail> {
    let plan = w.cfg.plan.as_str();
    let mut used_floor = 0usize;
    for s in &snap.spaces {
        let pol = policy_of(plan, s.name);
        if pol == "unknown" {
            machinery_failure(&format!("space '{}' of plan {} has no policy class in C09", s.name, plan));
        }
        let f = fl.floor(pol);
        used_floor += f + s.meta_for_floor;
        if s.pr_reserved > f {
            return fail(
                &format!("leak:reserved:{}", s.name),
                format!("{}: space '{}' ({}) still has {} reserved pages, more than the floor of {} pages for its policy ({})", at, s.name, pol, s.pr_reserved, f, snap.json()),
            );
        }
        let cf = if s.name == "compressor_space" { f + REGION_PAGES * (heap / (REGION_PAGES * PAGE) + 1) } else { f };
        if s.pr_committed > cf {
            return fail(
                &format!("leak:committed:{}", s.name),
                format!("{}: space '{}' ({}) still has {} committed pages, more than the floor of {} pages ({})", at, s.name, pol, s.pr_committed, cf, snap.json()),
            );
        }
    }
    if snap.used_pages > used_floor {
        return fail("leak:used_bytes", format!("{}: used_bytes = {} pages, more than the floor of {} pages (sum of per-space floors and their side metadata estimate) ({})", at, snap.used_pages, used_floor, snap.json()));
    }
    Ok(())
}

/// ConcurrentImmix: a forced collection requested while concurrent marking is in progress is the
/// FinalMark pause of that snapshot-at-the-beginning cycle (`schedule_collection`), which by design
/// keeps everything that was live at the snapshot; whether marking is in progress depends on how
/// far the concurrent worker got.  One more forced collection is then a full stop-the-world pause
/// (user-triggered, no marking in progress): only that one is "exhaustive" for this plan.
fn second_gc_if_concurrent(w: &mut World, m: usize) -> Result<(), Fail> {
    if w.cfg.plan == "ConcurrentImmix" {
        w.gc(m, true)?;
    }
    Ok(())
}

fn cycle(w: &mut World, fl: &Floors, filler: &mut Filler, kind: &str) -> Result<CycleFacts, Fail> {
    let gcs0 = w.stats.gcs;
    filler.requested = 0;
    let a0 = filler.allocs;
    if kind == "twomut" {
        w.bind(1);
    }
    filler.mutators = [Some(mutator_of(0) as *mut _), if kind == "twomut" { Some(mutator_of(1) as *mut _) } else { None }];
    let target = filler.heap * 6 / 10;
    let mut i = 0usize;
    while filler.requested < target {
        let (size, keep, m) = recipe(kind, i);
        filler.alloc(w, m, 0, size, keep)?;
        i += 1;
    }
    filler.check_span()?;
    filler.mutators = [None; MAX_MUTATORS];
    // with 60 % of the heap in use: two half-heap requests that are not at a safepoint (refused, or
    // granted where the plan has the room); whatever they reserved must be given back like
    // everything else
    if kind == "los" || kind == "mixed" {
        for _ in 0..2 {
            w.nonsafepoint_request(0, (filler.heap / 2) & !4095)?;
        }
    }
    // in some kinds the kept objects survive one collection before they are dropped (what dies in
    // the closing collection is then mature / has been swept around once)
    if kind == "mixed" || kind == "span" {
        w.gc(0, true)?;
    }
    let peak = Snap::take(w, fl);
    if kind == "twomut" {
        // first with both mutators still bound: drop the references, collect, measure
        w.set_root(0, 0, None);
        w.set_root(1, 0, None);
        w.gc(1, true)?;
        second_gc_if_concurrent(w, 1)?;
        let mid = Snap::take(w, fl);
        check_floor(w, fl, filler.heap, &mid, "after dropping every reference and an exhaustive GC with two mutators bound")?;
    }
    w.reset()?;
    second_gc_if_concurrent(w, 0)?;
    if OOM_COUNT.load(Ordering::SeqCst) != 0 {
        return fail("oom:unexpected:upcall", "out_of_memory upcall during the closing collection".to_string());
    }
    let after = Snap::take(w, fl);
    check_floor(w, fl, filler.heap, &after, "after dropping every reference and an exhaustive GC")?;
    Ok(CycleFacts { allocs: filler.allocs - a0, gcs: w.stats.gcs - gcs0, peak: peak.total_reserved(), after: after.total_reserved(), peak_snap: Some(peak.json()), after_snap: Some(after.json()) })
}

// ---------------------------------------------------------------------------------------------
// histories

/// De Bruijn sequence B(k, n) (Lyndon word concatenation), linearised by appending its first
/// n - 1 symbols: every word of length n over k symbols occurs exactly once as a window.
pub fn de_bruijn(k: usize, n: usize) -> Vec<usize> {
    fn db(t: usize, p: usize, k: usize, n: usize, a: &mut Vec<usize>, out: &mut Vec<usize>) {
        if t > n {
            if n % p == 0 {
                out.extend_from_slice(&a[1..=p]);
            }
        } else {
            a[t] = a[t - p];
            db(t + 1, p, k, n, a, out);
            for j in a[t - p] + 1..k {
                a[t] = j;
                db(t + 1, t, k, n, a, out);
            }
        }
    }
    let mut a = vec![0; k * n + 1];
    let mut out = vec![];
    db(1, 1, k, n, &mut a, &mut out);
    let head: Vec<usize> = out[..n - 1].to_vec();
    out.extend(head);
    out
}

fn sequence(plan: &str, segment: &str, t: Tier) -> Vec<&'static str> {
    if segment == "win" {
        de_bruijn(KINDS.len(), window_order(plan, t)).into_iter().map(|i| KINDS[i]).collect()
    } else if let Some(k) = segment.strip_prefix("rep:") {
        let kind = KINDS.iter().find(|x| **x == k).unwrap_or_else(|| machinery_failure("bad segment"));
        vec![*kind; repetitions(plan, t)]
    } else {
        machinery_failure("bad segment")
    }
}

fn segments() -> Vec<String> {
    let mut v = vec!["win".to_string()];
    v.extend(KINDS.iter().map(|k| format!("rep:{}", k)));
    v
}

const RULE: &str = "per collecting plan (own processes, 1 GC worker): cycles = allocate objects of the kind's size mix (small: 40 B; span: 264 B / 2 KiB alternating; los: 80 KiB; mixed: 40/264/2048 B, 60 000 B (largest non-LOS size class) and 80 KiB; twomut: two mutators alternating 40/264/2048 B) until 60 % of the heap has been requested, keeping every k-th on a rooted list, then drop every reference and force an exhaustive GC (twomut: once with both mutators still bound, once after destroying the second; ConcurrentImmix: one more forced GC, because the first may be the FinalMark pause of a concurrent cycle). Histories: segment win = a de Bruijn sequence of order n over the 5 kinds run back to back on a 16 MiB heap (every sequence of <= n kinds occurs as consecutive cycles; n = 3 quick / 5 thorough); segments rep:K = each kind repeated R times in a fresh process (R = 130 quick on a 4 MiB heap / 300 thorough on 16 MiB, crossing the 127-epoch Immix line-mark wrap); PageProtect: n = 2 / 3, R = 20 / 60, quick heap 4 MiB. Oracle after every cycle: no out_of_memory upcall, no null allocation; every space's page-resource reserved and committed pages <= floor(policy) (bump spaces: (2 mutators + 1 worker) x 8-page bump block; Immix: (2x2 + 1x4) x 8-page block; native mark-sweep: the 4 size classes the programs use x 2 mutators x 16-page block; LOS and immortal spaces: 0; Compressor committed: + whole backing regions) and used_bytes <= sum of floors + their side-metadata estimate; address span of allocation results per space <= 8 x heap. states = distinct kind-sequences of length <= n covered as consecutive cycles + repetition prefixes; transitions = allocations + collections; evaluations = cycles; distinct_nontrivial = cycles in which the requested volume reached 60 % of the heap and the closing collection returned pages (reserved pages before the drop > after)";

pub fn run(run: &mut Run) {
    let mut plans: Vec<&str> = COLLECTING_PLANS.to_vec();
    if cfg!(feature = "fs_s4") {
        // configuration s4a (lazy sweeping) only changes the native mark-sweep space
        plans.retain(|p| *p == "MarkSweep");
    }
    let mut jobs: Vec<(String, String)> = vec![];
    for s in segments() {
        for p in &plans {
            jobs.push((p.to_string(), s.clone()));
        }
    }
    let args: Vec<Vec<String>> = jobs.iter().map(|(p, s)| vec!["--child".into(), "C09".into(), p.clone(), run.tier.name().into(), "run".into(), s.clone()]).collect();
    let results = run_children(args, run.jobs, run.tier.pick(900, 6000));
    absorb(run, &jobs, results);
    run.set("rule", RULE);
    run.set("plans", json!(plans));
    run.set("max_depth", window_order("", run.tier) as u64);
    run.set("repetitions", repetitions("", run.tier) as u64);
    run.set("features", json!(crate::shadowvm::feature_set()));
    run.assume("one GC worker, at most two mutators (played by one thread); heap fixed at 16 MiB (quick repetition runs and PageProtect quick: 4 MiB); object sizes 40 B, 264 B, 2 KiB, 60 000 B, 80 KiB");
    run.assume("'any number of cycles' is covered by 130 / 300 repetitions per kind and a cycle-independent floor, not by induction");
    run.assume("the floor is a per-policy constant derived from block sizes and allocator counts read from the code; Default and Los semantics only (nothing is allocated in immortal / non-moving spaces)");
}

fn absorb(run: &mut Run, jobs: &[(String, String)], results: Vec<Value>) {
    for ((plan, seg), r) in jobs.iter().zip(results) {
        if r.get("child_crashed").is_some() {
            let crash = r["crash"].as_str().unwrap_or("");
            run.assume(&format!("plan {} segment {}: exploration stopped by a crash that belongs to another property's failure class ({})", plan, seg, crash.chars().take(160).collect::<String>()));
            run.set("exhaustive", false);
            run.add("children_crashed", 1);
            continue;
        }
        if r.get("child_died").is_some() {
            machinery_failure(&format!("child for plan {} segment {} died without a result: {}", plan, seg, r));
        }
        run.absorb_child_json(&r);
    }
}

pub fn child(args: &[String]) -> ! {
    let plan = args[0].as_str();
    let tier = if args.get(1).map(|s| s.as_str()) == Some("thorough") { Tier::Thorough } else { Tier::Quick };
    let mode = args.get(2).map(|s| s.as_str()).unwrap_or("run");
    let segment = args.get(3).cloned().unwrap_or_else(|| "win".to_string());
    install_crash_handlers();
    let _ = crate::common::WORKER_PANIC_HANDLER.set(Box::new(worker_panic_to_crash));
    let mut cfg = BootCfg::new(plan);
    let heap = heap_bytes(plan, tier, &segment);
    cfg.heap_bytes = heap;
    cfg.workers = WORKERS;
    set_current_case(&json!({"plan": plan, "segment": segment, "cycle": "boot"}));
    let mut w = World::boot(cfg.clone());
    let fl = Floors::get();
    let mut seq = sequence(plan, &segment, tier);
    if let Some(n) = std::env::var("VERIF_C09_LIMIT").ok().and_then(|s| s.parse::<usize>().ok()) {
        // debugging aid: run only the first n cycles
        seq.truncate(n);
    }
    if mode == "replay" {
        let upto: usize = args.get(4).and_then(|s| s.parse().ok()).unwrap_or(0);
        seq.truncate(upto + 1);
    }
    let mut sub = Run::new("C09", tier);
    let mut filler = Filler { span: BTreeMap::new(), requested: 0, allocs: 0, heap, mutators: [None; MAX_MUTATORS] };
    let mut windows: HashSet<Vec<&str>> = HashSet::new();
    let order = window_order(plan, tier);
    let mut nontrivial = 0u64;
    let mut done = 0u64;
    let mut stopped = false;
    let mut max_after = 0usize;
    let mut min_peak = usize::MAX;
    let total = seq.len();
    for (i, kind) in seq.iter().enumerate() {
        let case = json!({"plan": plan, "segment": segment, "cycle": i, "kind": kind, "tier": tier.name(), "boot": cfg.json()});
        set_current_case(&case);
        let r = catch(|| cycle(&mut w, &fl, &mut filler, kind));
        let failure: Option<Fail> = match r {
            Ok(Ok(f)) => {
                done += 1;
                if f.peak > f.after && filler.requested >= heap * 6 / 10 {
                    nontrivial += 1;
                }
                max_after = max_after.max(f.after);
                min_peak = min_peak.min(f.peak);
                if segment == "win" {
                    for len in 1..=order.min(i + 1) {
                        windows.insert(seq[i + 1 - len..=i].to_vec());
                    }
                }
                if i % (total / 2 + 1) == 0 && plan_sampled(plan) {
                    sub.sample(json!({"plan": plan, "segment": segment, "cycle": i, "kind": kind, "allocations": f.allocs, "collections": f.gcs, "before_drop": f.peak_snap, "after_closing_gc": f.after_snap}));
                }
                None
            }
            Ok(Err(e)) => Some(e),
            Err(pm) => Some((format!("panic{}", crate::shadow_check::panic_slug(&format!("{}:0: {}", crate::common::last_panic_location(), pm))), format!("panic at {}: {}", crate::common::last_panic_location(), pm.lines().next().unwrap_or("")))),
        };
        if let Some((sig, msg)) = failure {
            sub.sample(json!({"plan": plan, "segment": segment, "cycle": i, "kind": kind, "failed": sig}));
            if owns(&sig) || std::env::var("VERIF_OWN_ALL").is_ok() {
                sub.violation(format!("{}:{}:{}", sig, plan, kind), format!("plan {} segment {} cycle #{} ({}): {}", plan, segment, i, kind, msg), case);
            } else {
                sub.assume(&format!("plan {} segment {}: exploration stopped at cycle #{} by a failure of another property's class ({})", plan, segment, i, sig));
                sub.set("foreign_failures", json!([format!("{}: {}", sig, msg)]));
            }
            stopped = true;
            break;
        }
    }
    let states = if segment == "win" { windows.len() as u64 } else { done };
    sub.add("states", states);
    sub.add("transitions", filler.allocs + w.stats.gcs);
    sub.add("evaluations", done);
    sub.add("traces_validated_against_impl", done);
    sub.add("distinct_nontrivial", nontrivial);
    sub.add("collections", w.stats.gcs);
    sub.add("allocations", filler.allocs);
    sub.set("exhaustive", !stopped);
    sub.set("per_plan", json!({format!("{}/{}", plan, segment): {"cycles": done, "collections": w.stats.gcs, "allocations": filler.allocs, "max_reserved_pages_after_closing_gc": max_after, "min_reserved_pages_before_drop": if min_peak == usize::MAX { 0 } else { min_peak }}}));
    emit_child_result(&sub.to_child_json());
}

fn plan_sampled(plan: &str) -> bool {
    matches!(plan, "SemiSpace" | "MarkSweep" | "Immix")
}

pub fn replay(case: &Value, run: &mut Run) {
    let plan = case["plan"].as_str().unwrap_or("SemiSpace").to_string();
    let seg = case["segment"].as_str().unwrap_or("win").to_string();
    let cyc = case["cycle"].as_u64().unwrap_or(0).to_string();
    let tier = case["tier"].as_str().unwrap_or(run.tier.name()).to_string();
    let args = vec!["--child".to_string(), "C09".to_string(), plan.clone(), tier, "replay".to_string(), seg.clone(), cyc];
    let r = run_children(vec![args], 1, 3000);
    absorb(run, &[(plan, seg)], r);
}
