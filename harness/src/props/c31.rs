//! C31 — address-to-space resolution is total and exact.
//!
//! One child process per (plan, VM layout).  The child boots a real `MMTK` instance through the
//! `shadowvm` world, runs a small fixed workload that makes every space of the plan acquire
//! memory (objects of every allocation semantics, small / multi-chunk LOS sizes, bursts, two
//! collections, allocation into reclaimed memory) and then resolves a grid of addresses through
//! the four public routes: `SFT_MAP.get_checked(a).name()` (documented total),
//! `SFT_MAP.has_sft_entry(a)` + `get_unchecked(a)` (only where the former holds — the documented
//! precondition), `VM_MAP.get_descriptor_for_address(a)` (documented total: "UNINITIALIZED if the
//! address is not within the MMTk heap range, or not within MMTk spaces"),
//! `memory_manager::is_in_mmtk_spaces(objref(a))` ("never panics") and `Space::in_space` of every
//! space of the plan.
//!
//! Layouts / SFT map kinds: the default 64-bit layout selects `SFTSpaceMap` + `Map64` (all 11
//! plans); a 35-bit compressed-pointer style layout (`force_use_contiguous_spaces = false`,
//! installed before boot) selects `SFTSparseChunkMap` + `Map32` with discontiguous spaces;
//! a build with `malloc_mark_sweep` (harness feature set `fs_s3`) selects `SFTDenseChunkMap`.
//! The child reports the map kind it actually ran on (hook `sft_map_kind`).
//!
//! Oracle (what is asserted, per address a; n = SFT name, d = VM-map descriptor):
//!  T  none of the lookups panics (totality);  `!has_sft_entry(a)` => n == "empty";
//!     `has_sft_entry(a)` => `get_unchecked(a)` names the same space as `get_checked(a)`.
//!  G  a inside memory handed out by an allocation of the workload (first byte, middle, last
//!     word; immediately after the allocation) => n == name of the space behind the allocator the
//!     plan maps the semantics to, d == that space's descriptor, `is_in_mmtk_spaces`, and exactly
//!     that space claims the address (`in_space`).  For objects that survived a collection (the
//!     shadow heap knows their new addresses) the owning space is whatever the VM map says: n must
//!     be the name of the plan space with descriptor d, claimed by exactly that space.
//!  D0 d empty => n == "empty", `is_in_mmtk_spaces` false, no space claims a.  (Off-heap malloc
//!     memory — name "MallocSpace" — is the documented exception and is exempt.)
//!  D1 d non-empty => d is the descriptor of exactly one space S of the plan; n == S.name (the
//!     dense chunk map is chunk-precise inside a 2 TiB slot: there "empty" is accepted outside
//!     S's [start, start+extent)); no other space claims a; S claims a iff S is discontiguous or
//!     a in [start, start+extent).
//!  R  independent of the VM map: a in [start, start+extent) of a contiguous space S => d == S's
//!     descriptor (hence n == S.name by D1); a outside the heap range of the layout, or (all
//!     spaces contiguous, Map64) outside every space's 2^log_space_extent slot => d empty (hence
//!     n "empty" and `is_in_mmtk_spaces` false by D0).
//! Reading of the ambiguous clause: for addresses that lie in a space's *reserved but not yet
//! allocated* range (the 2 TiB slot of a Map64 space) the implementation resolves to that space;
//! the property's "or the empty space" is read as allowing both, so nothing beyond D1 is asserted
//! there, and `is_in_mmtk_spaces` is only required to be true on allocated memory and false
//! outside every reservation.

use crate::common::{self, catch, emit_child_result, machinery_failure, run_children, Run, Tier};
use crate::shadowvm::{install_crash_handlers, set_current_case, worker_panic_to_crash, BootCfg, Fail, Sem, World, ALL_PLANS};
use crate::vm::{with_state, MUTATOR_TLS_BASE};
use mmtk::util::heap::vm_layout::{vm_layout, VMLayout, BYTES_IN_CHUNK, LOG_BYTES_IN_CHUNK};
use mmtk::util::verif::c31 as hook;
use mmtk::util::{Address, ObjectReference};
use serde_json::{json, Value};
use std::collections::{BTreeMap, BTreeSet, HashSet};

const EMPTY: &str = "empty";
const MALLOC: &str = "MallocSpace";
/// log2 of the address space the chunk sweep covers (`VMLayout::LOG_ARCH_ADDRESS_SPACE`).
const LOG_SWEEP: usize = 47;

/// Plans under which objects with NonMoving semantics hit defects already recorded under C01
/// (`/verif/known_findings.json`): there NonMoving memory is only requested after the last
/// collection of the workload, as raw memory (no object is created).
fn nonmoving_is_known_bad(plan: &str) -> bool {
    matches!(plan, "GenCopy" | "GenImmix" | "MarkCompact" | "StickyImmix" | "ConcurrentImmix")
}

fn compressed_layout() -> VMLayout {
    VMLayout {
        log_address_space: 35,
        heap_start: unsafe { Address::from_usize(0x4000_0000) },
        heap_end: unsafe { Address::from_usize(32usize << 30) },
        log_space_extent: 31,
        force_use_contiguous_spaces: false,
    }
}

fn layouts_for(plan: &str, tier: Tier) -> Vec<&'static str> {
    let mut v = vec!["default"];
    if tier == Tier::Thorough || matches!(plan, "NoGC" | "SemiSpace" | "Immix" | "MarkSweep") {
        v.push("compressed");
    }
    v
}

fn short_kind(k: &str) -> &'static str {
    if k.contains("SFTSpaceMap") {
        "SFTSpaceMap"
    } else if k.contains("SFTDenseChunkMap") {
        "SFTDenseChunkMap"
    } else if k.contains("SFTSparseChunkMap") {
        "SFTSparseChunkMap"
    } else {
        "unknown"
    }
}

#[derive(Clone, Debug, PartialEq)]
struct Obs {
    n: &'static str,
    d: usize,
}

struct Cx {
    plan: String,
    layout: String,
    kind: &'static str,
    map64: bool,
    spaces: Vec<hook::SpaceInfo>,
    all_contiguous: bool,
    heap_start: usize,
    heap_end: usize,
    slot_shift: usize,
    sub: Run,
    seen_sigs: HashSet<String>,
    violating: u64,
    probes: u64,
    lookups: u64,
    distinct: HashSet<usize>,
    track_distinct: bool,
    count_untracked: bool,
    /// addresses of the thorough chunk sweep (pairwise distinct by construction) that were not
    /// probed by the earlier parts of the fixed grid
    untracked_new: u64,
    nontrivial: u64,
    granted_probes: u64,
    survivor_probes: u64,
    boundary_flips: u64,
    resolved_nonempty: u64,
    in_spaces_true: u64,
    /// chunks touched by allocations of the workload
    touched_chunks: BTreeSet<usize>,
    /// per space name: bytes handed out by the workload
    granted_by_space: BTreeMap<&'static str, u64>,
    only_addr: Option<usize>,
    /// debugging aid (VERIF_C31_DUMP): print every granted range
    dump: bool,
}

fn addr(a: usize) -> Address {
    unsafe { Address::from_usize(a) }
}

impl Cx {
    fn case(&self, a: usize, what: &str) -> Value {
        json!({"plan": self.plan, "layout": self.layout, "sft_map": self.kind, "addr": format!("{:#x}", a), "what": what, "features": crate::shadowvm::feature_set()})
    }

    fn violate(&mut self, class: &str, a: usize, what: &str, msg: String) {
        self.violating += 1;
        // lookups of the VM map are attributed to the VM map implementation
        let imp = if class.starts_with("descriptor_") { if self.map64 { "Map64" } else { "Map32" } } else { self.kind };
        let sig = format!("sft:{}:{}:{}", class, imp, self.addr_class(a));
        if self.seen_sigs.insert(sig.clone()) {
            let m = format!("plan {} ({} layout, {}): address {:#x} [{}]: {}", self.plan, self.layout, self.kind, a, what, msg);
            let c = self.case(a, what);
            self.sub.violation(sig, m, c);
        }
    }

    /// Coarse position of an address relative to the layout and the spaces (signature class).
    fn addr_class(&self, a: usize) -> String {
        if a < self.heap_start {
            return "below_heap".into();
        }
        if a > self.heap_end {
            return "above_heap".into();
        }
        if self.map64 && (a >> self.slot_shift) >= hook::MAX_SPACES {
            return "heap_top_slot".into();
        }
        if a == self.heap_end {
            return "heap_end".into();
        }
        for s in &self.spaces {
            if s.off_heap || !s.contiguous {
                continue;
            }
            let (st, en) = (s.start.as_usize(), s.start.as_usize() + s.extent);
            if a == st {
                return "space_start".into();
            }
            if a >= st && a < en {
                return "inside_space".into();
            }
            if self.map64 && (a >> self.slot_shift) == (st >> self.slot_shift) {
                return "space_slot_beyond_extent".into();
            }
        }
        "heap_range".into()
    }

    fn space_by_descriptor(&self, d: usize) -> Vec<&hook::SpaceInfo> {
        self.spaces.iter().filter(|s| !s.off_heap && s.descriptor == d).collect()
    }

    fn space_by_name(&self, n: &str) -> Option<&hook::SpaceInfo> {
        self.spaces.iter().find(|s| s.name == n)
    }

    /// Resolve one address through every route and check T, D0, D1, R.  `expect` = the space that
    /// must own the address (granted memory), `survivor` = the address is inside a live object.
    fn probe(&mut self, a: usize, what: &str, expect: Option<&'static str>, survivor: bool) -> Option<Obs> {
        if let Some(o) = self.only_addr {
            if o != a {
                return None;
            }
        }
        self.probes += 1;
        if self.dump && self.track_distinct {
            eprintln!("[C31 probe] {:#x} {}", a, what);
        }
        if self.track_distinct {
            self.distinct.insert(a);
        } else if self.count_untracked && !self.distinct.contains(&a) {
            self.untracked_new += 1;
        }
        let ad = addr(a);
        // --- T: totality
        self.lookups += 1;
        let n = match catch(|| hook::sft_name_for(ad)) {
            Ok(n) => n,
            Err(p) => {
                self.violate("get_checked_panics", a, what, format!("SFT_MAP.get_checked panicked at {}: {}", common::last_panic_location(), p.lines().next().unwrap_or("")));
                return None;
            }
        };
        self.lookups += 1;
        match catch(|| hook::has_sft_entry(ad)) {
            Ok(true) => {
                self.lookups += 1;
                match catch(|| unsafe { hook::sft_name_unchecked(ad) }) {
                    Ok(u) if u == n => {}
                    Ok(u) => self.violate("unchecked_differs", a, what, format!("has_sft_entry holds, get_unchecked names space {:?} but get_checked names {:?}", u, n)),
                    Err(p) => self.violate("get_unchecked_panics", a, what, format!("has_sft_entry holds but get_unchecked panicked: {}", p.lines().next().unwrap_or(""))),
                }
            }
            Ok(false) => {
                if n != EMPTY {
                    self.violate("no_entry_not_empty", a, what, format!("has_sft_entry is false but get_checked names space {:?} (documented: an empty SFT is returned for out-of-bound addresses)", n));
                }
            }
            Err(p) => self.violate("has_sft_entry_panics", a, what, format!("SFT_MAP.has_sft_entry panicked at {}: {}", common::last_panic_location(), p.lines().next().unwrap_or(""))),
        }
        self.lookups += 1;
        let d = match catch(|| hook::descriptor_for(ad)) {
            Ok(d) => d,
            Err(p) => {
                self.violate("descriptor_panics", a, what, format!("VM_MAP.get_descriptor_for_address panicked at {} ({}); it is documented to return SpaceDescriptor::UNINITIALIZED for addresses outside the MMTk spaces; SFT name there: {:?}", common::last_panic_location(), p.lines().next().unwrap_or(""), n));
                return None;
            }
        };
        let (mut in_spaces, mut claims): (Option<bool>, Vec<&'static str>) = (None, vec![]);
        if a != 0 && a % 8 == 0 {
            let o = ObjectReference::from_raw_address(ad).unwrap();
            self.lookups += 2;
            match catch(|| mmtk::memory_manager::is_in_mmtk_spaces(o)) {
                Ok(b) => in_spaces = Some(b),
                Err(p) => self.violate("is_in_mmtk_spaces_panics", a, what, format!("is_in_mmtk_spaces panicked (documented: never panics): {}", p.lines().next().unwrap_or(""))),
            }
            let m = crate::vm::mmtk();
            match catch(|| hook::spaces_claiming(m, o)) {
                Ok(c) => claims = c,
                Err(p) => self.violate("in_space_panics", a, what, format!("Space::in_space panicked at {}: {}", common::last_panic_location(), p.lines().next().unwrap_or(""))),
            }
        }
        if n != EMPTY {
            self.resolved_nonempty += 1;
        }
        if in_spaces == Some(true) {
            self.in_spaces_true += 1;
        }
        let malloc = n == MALLOC;
        // --- D0 / D1: agreement between SFT, VM map and the spaces
        if d == 0 {
            if !malloc {
                if n != EMPTY {
                    self.violate("sft_without_descriptor", a, what, format!("the VM map has no space for the address (descriptor UNINITIALIZED) but the SFT resolves it to {:?}", n));
                }
                if in_spaces == Some(true) {
                    self.violate("in_mmtk_spaces_outside", a, what, format!("is_in_mmtk_spaces is true for an address outside every space (descriptor UNINITIALIZED, SFT {:?})", n));
                }
                let c: Vec<&&str> = claims.iter().filter(|c| **c != MALLOC).collect();
                if !c.is_empty() {
                    self.violate("claimed_without_descriptor", a, what, format!("space(s) {:?} claim the address (in_space) but the VM map has no space for it", c));
                }
            }
        } else {
            let owners = self.space_by_descriptor(d);
            if owners.len() != 1 {
                let names: Vec<&str> = owners.iter().map(|s| s.name).collect();
                self.violate("descriptor_of_no_space", a, what, format!("the VM map returns descriptor {:#x}, which is the descriptor of {} spaces of the plan {:?}; SFT name {:?}", d, owners.len(), names, n));
            } else {
                let s = owners[0].clone();
                let inside = !s.contiguous || (a >= s.start.as_usize() && a < s.start.as_usize() + s.extent);
                let empty_ok = self.kind == "SFTDenseChunkMap" && !inside;
                if n != s.name && !(n == EMPTY && empty_ok) {
                    self.violate("sft_disagrees_with_descriptor", a, what, format!("the VM map says the address belongs to space {:?} (descriptor {:#x}) but the SFT resolves it to {:?}", s.name, d, n));
                }
                for c in &claims {
                    if *c != s.name {
                        self.violate("claimed_by_other_space", a, what, format!("space {:?} claims the address (in_space) but the VM map says it belongs to {:?}", c, s.name));
                    }
                }
                let claimed = claims.iter().any(|c| *c == s.name);
                if a != 0 && a % 8 == 0 && claimed != inside {
                    self.violate("in_space_disagrees", a, what, format!("VM map owner {:?} (contiguous={}, [{:#x}, {:#x})): in_space is {} but the address is {} that range", s.name, s.contiguous, s.start.as_usize(), s.start.as_usize() + s.extent, claimed, if inside { "inside" } else { "outside" }));
                }
            }
        }
        // --- R: reservations computed from the spaces' own (start, extent), not from the VM map
        let mut in_contig: Option<hook::SpaceInfo> = None;
        let mut in_slot = false;
        for s in &self.spaces {
            if s.off_heap || !s.contiguous {
                continue;
            }
            let st = s.start.as_usize();
            if a >= st && a < st + s.extent {
                in_contig = Some(s.clone());
            }
            if self.map64 && (a >> self.slot_shift) == (st >> self.slot_shift) {
                in_slot = true;
            }
        }
        if let Some(s) = in_contig {
            if d != s.descriptor {
                self.violate("descriptor_misses_space", a, what, format!("the address lies in [start, start+extent) = [{:#x}, {:#x}) of contiguous space {:?} (descriptor {:#x}) but the VM map returns {:#x}", s.start.as_usize(), s.start.as_usize() + s.extent, s.name, s.descriptor, d));
            }
        } else {
            let outside_heap = a < self.heap_start || a >= self.heap_end;
            let outside_all = outside_heap || (self.all_contiguous && self.map64 && !in_slot);
            if outside_all && d != 0 {
                self.violate("descriptor_outside_spaces", a, what, format!("the address lies outside {} but the VM map returns descriptor {:#x} (SFT {:?})", if outside_heap { "the heap range of the layout" } else { "every space's reserved range" }, d, n));
            }
        }
        // --- G: granted memory
        if let Some(e) = expect {
            self.granted_probes += 1;
            let es = self.space_by_name(e).cloned();
            if n != e {
                self.violate("granted_wrong_space", a, what, format!("memory handed out by space {:?} resolves to {:?} in the SFT", e, n));
            }
            if let Some(es) = es {
                if !es.off_heap && d != es.descriptor {
                    self.violate("granted_wrong_descriptor", a, what, format!("memory handed out by space {:?} (descriptor {:#x}) has VM-map descriptor {:#x}", e, es.descriptor, d));
                }
            }
            if in_spaces == Some(false) {
                self.violate("granted_not_in_mmtk_spaces", a, what, format!("is_in_mmtk_spaces is false for memory handed out by space {:?}", e));
            }
            if a % 8 == 0 && claims != vec![e] {
                self.violate("granted_claims", a, what, format!("memory handed out by space {:?} is claimed (in_space) by {:?}", e, claims));
            }
        }
        if survivor {
            self.survivor_probes += 1;
            if n == EMPTY || self.space_by_name(n).is_none() {
                self.violate("survivor_unresolved", a, what, format!("a live object's memory resolves to {:?}, which is not a space of the plan", n));
            }
            if in_spaces == Some(false) && !malloc {
                self.violate("survivor_not_in_mmtk_spaces", a, what, "is_in_mmtk_spaces is false for a live object's memory".to_string());
            }
            if a % 8 == 0 && claims != vec![n] {
                self.violate("survivor_claims", a, what, format!("a live object's memory resolves to {:?} but is claimed (in_space) by {:?}", n, claims));
            }
        }
        Some(Obs { n, d })
    }

    /// b-8, b, b+8; counts the triple as non-trivial when the resolution changes across it.
    fn probe_boundary(&mut self, b: usize, what: &str) {
        let b = b & !7;
        let mut obs: Vec<Obs> = vec![];
        for a in [b.wrapping_sub(8), b, b.wrapping_add(8)] {
            // no wrap-around: below 0 and above usize::MAX there is nothing to probe
            if (a < b && b < 8) || (a > b && b > usize::MAX - 15) {
                continue;
            }
            if let Some(o) = self.probe(a, what, None, false) {
                obs.push(o);
            }
        }
        if obs.windows(2).any(|w| w[0] != w[1]) {
            self.boundary_flips += 1;
            self.nontrivial += 1;
        }
    }

    /// Memory [a, a+size) was just handed out by an allocation served by space `space`.
    fn granted(&mut self, a: usize, size: usize, space: &'static str, what: &str) {
        for c in (a >> LOG_BYTES_IN_CHUNK)..=((a + size - 1) >> LOG_BYTES_IN_CHUNK) {
            self.touched_chunks.insert(c);
        }
        *self.granted_by_space.entry(space).or_insert(0) += size as u64;
        if self.dump {
            eprintln!("[C31 granted] {:#x} {} {}", a, size, space);
        }
        let mut pts = vec![a, (a + size / 2) & !7, a + size - 8];
        // every chunk boundary inside a multi-chunk grant
        let mut c = (a | (BYTES_IN_CHUNK - 1)) + 1;
        while c < a + size {
            pts.push(c - 8);
            pts.push(c);
            c += BYTES_IN_CHUNK;
        }
        pts.dedup();
        let before = self.violating;
        for p in pts {
            self.probe(p, what, Some(space), false);
        }
        if self.violating == before {
            self.nontrivial += 1;
        }
    }
}

fn mutator0() -> &'static mmtk::Mutator<crate::vm::VerifVM> {
    with_state(|s| {
        let r = s.mutators.iter().find(|x| x.tls == MUTATOR_TLS_BASE).expect("mutator 0 not bound");
        unsafe { &*r.mutator }
    })
}

/// The space the plan serves `sem` from.
fn space_for(w: &World, sem: Sem) -> &'static str {
    let sel = mmtk::memory_manager::get_allocator_mapping(w.mmtk, sem.to_mmtk());
    unsafe { hook::allocator_space_name(mutator0(), sel) }
}

fn alloc_checked(w: &mut World, cx: &mut Cx, slot: usize, size: usize, sem: Sem, label: &str) -> Result<(), Fail> {
    let eff = w.effective_sem(size, sem);
    let space = space_for(w, eff);
    match w.alloc_obj(0, slot, size, 1, 8, sem, false)? {
        Some(id) => {
            let a = w.shadow.objs[&id].addr;
            cx.granted(a, size, space, &format!("{}: {} B object, semantics {} -> {}", label, size, eff.name(), space));
            Ok(())
        }
        None => Err(("c31:oom".to_string(), format!("allocation of {} B ({}) returned null in the fixed workload", size, eff.name()))),
    }
}

fn raw_checked(w: &mut World, cx: &mut Cx, size: usize, sem: Sem, label: &str) -> Result<(), Fail> {
    let space = space_for(w, sem);
    let a = w.alloc_raw(0, size, 8, 0, sem, None)?;
    if a.is_zero() {
        return Err(("c31:oom".to_string(), format!("raw allocation of {} B ({}) returned null", size, sem.name())));
    }
    cx.granted(a.as_usize(), size, space, &format!("{}: {} B raw memory, semantics {} -> {}", label, size, sem.name(), space));
    Ok(())
}

fn check_survivors(w: &World, cx: &mut Cx, label: &str) {
    let mut objs: Vec<(usize, usize, u64)> = w.shadow.objs.values().map(|o| (o.addr, o.size, o.id)).collect();
    objs.sort();
    for (a, size, id) in objs {
        let what = format!("{}: live object id {} of {} B", label, id, size);
        if cx.dump {
            eprintln!("[C31 survivor] {:#x} {} {}", a, size, label);
        }
        let before = cx.violating;
        for p in [a, (a + size / 2) & !7, a + size - 8] {
            cx.probe(p, &what, None, true);
        }
        if cx.violating == before {
            cx.nontrivial += 1;
        }
    }
}

/// The fixed workload.  Root slots: 0..=5 one object per semantics, 6 a 9 MiB large object,
/// 7 transient objects (bursts, garbage).
fn workload(w: &mut World, cx: &mut Cx) -> Result<(), Fail> {
    let plan = w.cfg.plan.clone();
    let bad_nm = nonmoving_is_known_bad(&plan);
    let keep = [Sem::Default, Sem::Immortal, Sem::Los, Sem::Code, Sem::ReadOnly, Sem::LargeCode];
    for round in 0..3 {
        let label = format!("round {}", round);
        for (i, sem) in keep.iter().enumerate() {
            // semantics the build does not map (Code / LargeCode / ReadOnly without the
            // code_space / ro_space features) must not be used by a binding
            if matches!(mmtk::memory_manager::get_allocator_mapping(w.mmtk, sem.to_mmtk()), mmtk::util::alloc::AllocatorSelector::None) {
                continue;
            }
            let big = matches!(sem, Sem::Los | Sem::LargeCode);
            alloc_checked(w, cx, 7, 48, *sem, &label)?;
            alloc_checked(w, cx, i, if big { 40 << 10 } else { 264 }, *sem, &label)?;
        }
        if !bad_nm {
            alloc_checked(w, cx, 7, 48, Sem::NonMoving, &label)?;
            alloc_checked(w, cx, 7, 264, Sem::NonMoving, &label)?;
        }
        // large objects spanning chunk boundaries (chunk-precise maps must cover every chunk)
        // NoGC serves every semantics from ImmortalSpaces (MonotonePageResource).  In its
        // discontiguous mode (Map32) a region of two or more chunks that is later filled up to
        // its end leaves `cursor` two chunks above `current_chunk`; the next alloc_pages of a
        // debug build then deadlocks in log_chunk_fields (re-locking `sync`) on its way to a
        // failing invariant assertion.  Not an address-resolution matter (see NOTES.md): under
        // NoGC + Map32 the large objects stay below one chunk.
        let multi_chunk_ok = !(plan == "NoGC" && cx.layout == "compressed");
        if round == 0 {
            alloc_checked(w, cx, 6, if multi_chunk_ok { (9 << 20) + 4096 } else { (3 << 20) + 4096 }, Sem::Los, &label)?;
        }
        alloc_checked(w, cx, 7, if multi_chunk_ok { (5 << 20) + 24 } else { (3 << 20) + 24 }, Sem::Los, &label)?;
        // a Default request above the plan's non-LOS limit is the binding's duty to send to LOS
        alloc_checked(w, cx, 7, w.max_non_los.min(1 << 20) + 8, Sem::Default, &label)?;
        // bursts: make the default space grow over a chunk boundary
        let (n_big, n_small) = if round == 0 { (1500, 2000) } else { (500, 500) };
        for _ in 0..n_big {
            alloc_checked(w, cx, 7, 4096, Sem::Default, &label)?;
        }
        for _ in 0..n_small {
            alloc_checked(w, cx, 7, 264, Sem::Default, &label)?;
        }
        if round < 2 {
            w.gc(0, round == 0)?;
            check_survivors(w, cx, &format!("after collection {}", round + 1));
        }
    }
    if bad_nm {
        raw_checked(w, cx, 48, Sem::NonMoving, "after the last collection")?;
        raw_checked(w, cx, 4096, Sem::NonMoving, "after the last collection")?;
    }
    check_survivors(w, cx, "end of workload");
    Ok(())
}

/// The probe grid (b)-(e) of the module comment.
fn sweep(cx: &mut Cx, tier: Tier) {
    // `states` counts the distinct addresses of the fixed grid only: the addresses the workload
    // was given (and hence the chunks it touched) can differ between runs (the large object
    // space releases pages in the iteration order of a std HashSet), and the side metadata range
    // is placed by the OS.
    cx.track_distinct = true;
    // (a) lowest addresses
    cx.probe(0, "address 0", None, false);
    cx.probe_boundary(8, "address 8");
    // (b) space boundaries
    let spaces = cx.spaces.clone();
    for s in &spaces {
        if s.off_heap || !s.contiguous {
            continue;
        }
        let st = s.start.as_usize();
        cx.probe_boundary(st, &format!("start of space {}", s.name));
        cx.probe_boundary(st + s.extent, &format!("end (start+extent) of space {}", s.name));
        if cx.map64 {
            let slot = (st >> cx.slot_shift) << cx.slot_shift;
            cx.probe_boundary(slot, &format!("start of the slot of space {}", s.name));
            cx.probe_boundary(slot + (1usize << cx.slot_shift), &format!("end of the slot of space {}", s.name));
        }
        // first 64 chunks and the last chunk of the extent
        let chunks = s.extent >> LOG_BYTES_IN_CHUNK;
        for k in (0..chunks.min(65)).chain(chunks.saturating_sub(1)..chunks) {
            cx.probe_boundary(st + (k << LOG_BYTES_IN_CHUNK), &format!("chunk {} of space {}", k, s.name));
        }
    }
    // chunks the workload touched (after the collections: some were released)
    let touched: Vec<usize> = cx.touched_chunks.iter().cloned().collect();
    cx.track_distinct = false;
    for c in touched {
        cx.probe_boundary(c << LOG_BYTES_IN_CHUNK, "chunk touched by the workload");
        cx.probe_boundary((c + 1) << LOG_BYTES_IN_CHUNK, "end of a chunk touched by the workload");
    }
    cx.track_distinct = true;
    // (e) edges of the layout, the side metadata range, the top of the address space
    let (hs, he) = (mmtk::memory_manager::starting_heap_address().as_usize(), mmtk::memory_manager::last_heap_address().as_usize());
    cx.probe_boundary(hs, "heap_start");
    cx.probe_boundary(he, "heap_end");
    // The side metadata range is quarantined wherever the OS puts it (it differs from run to
    // run): these probes are made, but kept out of the `states` count, which is deterministic.
    let (mb, mbytes) = mmtk::util::metadata::side_metadata::verif_hooks::reserved_range();
    let p0 = cx.probes;
    cx.track_distinct = false;
    cx.probe_boundary(mb.as_usize(), "start of the side metadata range");
    cx.probe_boundary(mb.as_usize() + mbytes / 2, "middle of the side metadata range");
    cx.probe_boundary(mb.as_usize() + mbytes, "end of the side metadata range");
    cx.track_distinct = true;
    cx.sub.add("side_metadata_range_probes", cx.probes - p0);
    cx.probe_boundary(usize::MAX & !7, "usize::MAX & !7");
    for b in 3..64 {
        cx.probe_boundary(1usize << b, &format!("2^{}", b));
    }
    // slot boundaries of the layout over the whole architecture address space
    for i in 0..=(1usize << (LOG_SWEEP - cx.slot_shift)) {
        cx.probe_boundary(i << cx.slot_shift, "multiple of the maximum space extent");
    }
    // (d) chunk boundaries
    let t_d = std::time::Instant::now();
    let probes_before_d = cx.probes;
    let mut swept: u64 = 0;
    if tier == Tier::Thorough {
        // 10^8 addresses, pairwise distinct by construction: counted, not stored
        cx.track_distinct = false;
        cx.count_untracked = true;
        for c in 0..=(1usize << (LOG_SWEEP - LOG_BYTES_IN_CHUNK)) {
            cx.probe_boundary(c << LOG_BYTES_IN_CHUNK, "chunk boundary");
            swept += 1;
        }
    } else {
        for g in 0..=(1usize << (LOG_SWEEP - 30)) {
            cx.probe_boundary(g << 30, "GiB boundary");
            swept += 1;
        }
        if !cx.map64 {
            // the whole heap range of the compressed layout, chunk by chunk
            for c in (hs >> LOG_BYTES_IN_CHUNK)..=(he >> LOG_BYTES_IN_CHUNK) {
                cx.probe_boundary(c << LOG_BYTES_IN_CHUNK, "chunk boundary in the heap range");
                swept += 1;
            }
        }
    }
    if std::env::var("VERIF_TIMING").is_ok() {
        eprintln!("[C31 timing] grid (a)-(c),(e): {} probes; sweep (d): {} probes in {} ms", probes_before_d, cx.probes - probes_before_d, t_d.elapsed().as_millis());
    }
    cx.sub.add("sweep_boundaries", swept);
}

fn parse_addr(s: &str) -> Option<usize> {
    usize::from_str_radix(s.trim_start_matches("0x"), 16).ok()
}

pub fn child(args: &[String]) -> ! {
    let plan = args[0].clone();
    let tier = if args.get(1).map(|s| s.as_str()) == Some("thorough") { Tier::Thorough } else { Tier::Quick };
    let layout = args.get(2).cloned().unwrap_or_else(|| "default".to_string());
    let only_addr = args.get(3).and_then(|s| parse_addr(s));
    install_crash_handlers();
    let _ = common::WORKER_PANIC_HANDLER.set(Box::new(worker_panic_to_crash));
    set_current_case(&json!({"plan": plan, "layout": layout, "phase": "boot"}));
    if layout == "compressed" {
        mmtk::util::verif::c32::set_custom_vm_layout(compressed_layout());
    }
    let mut cfg = BootCfg::new(&plan);
    cfg.heap_bytes = if plan == "NoGC" { 1 << 30 } else { 128 << 20 };
    let t0 = std::time::Instant::now();
    let mut w = World::boot(cfg.clone());
    let boot_ms = t0.elapsed().as_millis();
    let l = vm_layout();
    let kind = short_kind(hook::sft_map_kind());
    let spaces = hook::spaces(w.mmtk);
    {
        let names: BTreeSet<&str> = spaces.iter().map(|s| s.name).collect();
        if names.len() != spaces.len() || names.contains(EMPTY) {
            machinery_failure(&format!("C31: space names of plan {} are not unique: {:?}", plan, spaces.iter().map(|s| s.name).collect::<Vec<_>>()));
        }
    }
    if (layout == "compressed") == l.force_use_contiguous_spaces {
        machinery_failure("C31: the requested VM layout is not in effect");
    }
    let mut cx = Cx {
        plan: plan.clone(),
        layout: layout.clone(),
        kind,
        map64: hook::vm_map_is_map64(),
        all_contiguous: spaces.iter().all(|s| s.contiguous && !s.off_heap),
        spaces,
        heap_start: l.heap_start.as_usize(),
        heap_end: l.heap_end.as_usize(),
        slot_shift: l.log_space_extent,
        sub: Run::new("C31", tier),
        seen_sigs: HashSet::new(),
        violating: 0,
        probes: 0,
        lookups: 0,
        distinct: HashSet::new(),
        track_distinct: false,
        count_untracked: false,
        untracked_new: 0,
        nontrivial: 0,
        granted_probes: 0,
        survivor_probes: 0,
        boundary_flips: 0,
        resolved_nonempty: 0,
        in_spaces_true: 0,
        touched_chunks: BTreeSet::new(),
        granted_by_space: BTreeMap::new(),
        only_addr,
        dump: std::env::var("VERIF_C31_DUMP").is_ok(),
    };
    let label = format!("{}/{}", plan, layout);
    let mut stopped = false;
    set_current_case(&json!({"plan": plan, "layout": layout, "phase": "workload"}));
    match catch(|| workload(&mut w, &mut cx)) {
        Ok(Ok(())) => {}
        Ok(Err((sig, msg))) => {
            cx.sub.assume(&format!("{}: the workload was stopped by a failure of another property's class ({}: {})", label, sig, msg));
            cx.sub.set("foreign_failures", json!([format!("{}: {}: {}", label, sig, msg)]));
            stopped = true;
        }
        Err(pm) => {
            // MMTk's own assertions on the SFT / VM map (e.g. in Space::acquire, SFT update) are
            // this property's; any other panic belongs to the crash/panic classes of C01
            let loc = common::last_panic_location();
            let own = ["sft_map.rs", "map32.rs", "map64.rs", "policy/space.rs"].iter().any(|f| loc.contains(f));
            let first = pm.lines().next().unwrap_or("").to_string();
            if own {
                let sig = format!("sft:workload_panic:{}{}", kind, crate::shadow_check::panic_slug(&format!("{}:0: {}", loc, pm)));
                let c = cx.case(0, "workload");
                cx.sub.violation(sig, format!("plan {} ({} layout, {}): MMTk panicked at {} while the workload allocated / collected: {}", plan, layout, kind, loc, first), c);
            } else {
                cx.sub.assume(&format!("{}: the workload was stopped by a panic outside the SFT / VM-map code ({}: {})", label, loc, first));
                cx.sub.set("foreign_failures", json!([format!("{}: panic at {}: {}", label, loc, first)]));
            }
            stopped = true;
        }
    }
    let work_ms = t0.elapsed().as_millis() - boot_ms;
    set_current_case(&json!({"plan": plan, "layout": layout, "phase": "probe", "sft_map": kind}));
    // the probe grid does not depend on the heap being consistent: run it also after a stop
    cx.spaces = hook::spaces(w.mmtk);
    sweep(&mut cx, tier);
    if let Some(a) = only_addr {
        if cx.probes == 0 {
            // replay of an address that is not part of this run's grid (the workload's own
            // addresses can differ between runs)
            cx.only_addr = None;
            cx.probe(a, "replayed address", None, false);
        }
    }
    if std::env::var("VERIF_TIMING").is_ok() {
        eprintln!("[C31 timing] {}: boot {} ms, workload {} ms, probes {} ms", label, boot_ms, work_ms, t0.elapsed().as_millis() - boot_ms - work_ms);
    }
    let mut sub = std::mem::replace(&mut cx.sub, Run::new("C31", tier));
    sub.add("states", cx.distinct.len() as u64 + cx.untracked_new);
    sub.add("transitions", cx.lookups);
    sub.add("evaluations", cx.probes);
    sub.add("traces_validated_against_impl", cx.probes);
    sub.add("distinct_nontrivial", cx.nontrivial);
    sub.add("granted_range_probes", cx.granted_probes);
    sub.add("survivor_probes", cx.survivor_probes);
    sub.add("boundaries_where_resolution_changes", cx.boundary_flips);
    sub.add("probes_resolving_to_a_space", cx.resolved_nonempty);
    sub.add("probes_in_mmtk_spaces", cx.in_spaces_true);
    sub.add("violating_probes", cx.violating);
    sub.add("collections", w.stats.gcs);
    sub.add("objects_moved", w.stats.objects_moved);
    sub.set("max_depth", 1u64);
    sub.set("exhaustive", !stopped && only_addr.is_none());
    let sp: Vec<Value> = cx.spaces.iter().map(|s| json!({"name": s.name, "contiguous": s.contiguous, "start": format!("{:#x}", s.start.as_usize()), "extent": s.extent, "descriptor": format!("{:#x}", s.descriptor), "granted_bytes": cx.granted_by_space.get(s.name).cloned().unwrap_or(0)})).collect();
    let mut per = serde_json::Map::new();
    per.insert(label.clone(), json!({"sft_map": kind, "vm_map": if cx.map64 { "Map64" } else { "Map32" }, "probes": cx.probes, "granted_range_probes": cx.granted_probes, "survivor_probes": cx.survivor_probes, "resolution_changes": cx.boundary_flips, "chunks_touched": cx.touched_chunks.len(), "collections": w.stats.gcs, "objects_moved": w.stats.objects_moved, "spaces": sp}));
    sub.set("per_plan", Value::Object(per));
    let mut kinds = serde_json::Map::new();
    kinds.insert(kind.to_string(), json!(1u64));
    sub.set("children_by_sft_map", Value::Object(kinds));
    if plan == "SemiSpace" || plan == "GenImmix" || plan == "MarkSweep" {
        sub.sample(json!({"plan": plan, "layout": layout, "sft_map": kind, "probes": cx.probes, "granted_bytes_by_space": cx.granted_by_space.iter().map(|(k, v)| (k.to_string(), json!(v))).collect::<serde_json::Map<String, Value>>(), "resolution_changes": cx.boundary_flips, "objects_moved": w.stats.objects_moved}));
    }
    emit_child_result(&sub.to_child_json());
}

const RULE: &str = "per (plan, VM layout) process, on a real MMTK instance after a fixed workload (objects of every allocation semantics the plan maps, 48 B / 264 B / 40 KiB / 5 MiB+24 / 9 MiB+4 KiB (multi-chunk LOS) / max_non_los+8, bursts of 1500 x 4 KiB + 2000 x 264 B that grow the default space over a chunk boundary, a full and a normal collection, re-allocation into reclaimed memory): every address of the grid {0, 8; every contiguous space's start, start+extent, slot start, slot end, its first 65 chunk boundaries and last chunk; every chunk the workload touched (start and end, after the collections); heap_start, heap_end; start / middle / end of the side metadata range; usize::MAX & !7; every power of two 2^3..2^63; every multiple of the maximum space extent up to 2^47; quick: every GiB boundary up to 2^47 (compressed layout: every chunk boundary of the heap range), thorough: every chunk boundary 0..=2^47 (2^25+1 boundaries)} each as (b-8, b, b+8), plus first byte / middle / last word / inner chunk boundaries of every range an allocation of the workload returned (checked right after the allocation) and of every live object after each collection, is resolved through SFT_MAP.get_checked, has_sft_entry(+get_unchecked where it holds), VM_MAP.get_descriptor_for_address, is_in_mmtk_spaces and Space::in_space of every space, and checked against clauses T, G, D0, D1, R of the module comment. states = distinct addresses of the fixed grid (the workload's own addresses and the OS-placed side metadata range are probed but not counted there); distinct_nontrivial = boundary triples across which the resolution (SFT name or descriptor) changes + granted ranges + live objects whose probes all passed";

pub fn owns(sig: &str) -> bool {
    sig.starts_with("sft:")
}

fn jobs_for(tier: Tier) -> Vec<(String, String)> {
    let mut v = vec![];
    for p in ALL_PLANS {
        for l in layouts_for(p, tier) {
            v.push((p.to_string(), l.to_string()));
        }
    }
    // the compressed-layout children take longest to boot (2^25-entry tables): start them first
    v.sort_by_key(|(_, l)| l != "compressed");
    v
}

fn absorb(run: &mut Run, jobs: &[(String, String)], results: Vec<Value>) {
    for ((plan, layout), r) in jobs.iter().zip(results) {
        let label = format!("{}/{}", plan, layout);
        if r.get("child_crashed").is_some() {
            let crash = r["crash"].as_str().unwrap_or("");
            let (sigl, rest) = crash.split_once(' ').unwrap_or((crash, ""));
            let (case_s, detail) = rest.split_once(" ||| ").unwrap_or((rest, ""));
            let case: Value = serde_json::from_str(case_s).unwrap_or(json!({"plan": plan, "layout": layout, "raw": case_s}));
            run.add("children_crashed", 1);
            if case["phase"].as_str() == Some("probe") || std::env::var("VERIF_OWN_ALL").is_ok() {
                // the process died while resolving an address: totality is this property's
                run.violation(format!("sft:crash:{}:{}", sigl, case["sft_map"].as_str().unwrap_or("?")), format!("{}: the process died ({}) while resolving addresses {}", label, sigl, detail), json!({"plan": plan, "layout": layout, "addr": Value::Null, "what": "crash during the probe phase"}));
            } else {
                run.assume(&format!("{}: the process died ({}) during {} — a crash class of another property; no probes ran", label, sigl, case["phase"].as_str().unwrap_or("?")));
                run.set("exhaustive", false);
            }
            continue;
        }
        if r.get("child_died").is_some() {
            machinery_failure(&format!("C31 child {} died without a result: {}", label, r));
        }
        run.absorb_child_json(&r);
    }
}

pub fn run(run: &mut Run) {
    let jobs = jobs_for(run.tier);
    let args: Vec<Vec<String>> = jobs.iter().map(|(p, l)| vec!["--child".to_string(), "C31".to_string(), p.clone(), run.tier.name().to_string(), l.clone()]).collect();
    let results = run_children(args, run.jobs, run.tier.pick(600, 2400));
    absorb(run, &jobs, results);
    run.set("rule", RULE);
    run.set("children", jobs.len() as u64);
    run.set("features", json!(crate::shadowvm::feature_set()));
    run.set("placement", crate::vm::PLACEMENT);
    run.assume("ObjectReference values are built from every non-zero word-aligned probe address (VerifVM: reference == object start); is_in_mmtk_spaces is documented for arbitrary candidate references");
    run.assume("addresses in a space's reserved but unallocated range may resolve to that space or to the empty space (only agreement with the VM map is required there)");
    run.assume("NonMoving semantics under GenCopy/GenImmix/MarkCompact/StickyImmix/ConcurrentImmix (defects recorded under C01) are exercised as raw memory after the last collection only");
    run.assume("SFTDenseChunkMap is only covered when the harness is built with --no-default-features --features fs_s3 (children_by_sft_map reports the kinds this run covered)");
}

pub fn replay(case: &Value, run: &mut Run) {
    let plan = case["plan"].as_str().unwrap_or("SemiSpace").to_string();
    let layout = case["layout"].as_str().unwrap_or("default").to_string();
    let mut a = vec!["--child".to_string(), "C31".to_string(), plan.clone(), "quick".to_string(), layout.clone()];
    // a granted-range / survivor / workload case re-runs the workload with all its probes; a
    // grid case resolves only that address (after the same workload)
    let what = case["what"].as_str().unwrap_or("");
    let grid_case = !(what.contains("side metadata range") || what.starts_with("round") || what.starts_with("after") || what.starts_with("end of workload") || what == "workload" || case["addr"].is_null());
    if grid_case {
        if let Some(s) = case["addr"].as_str() {
            a.push(s.to_string());
        }
    }
    let jobs = vec![(plan, layout)];
    let results = run_children(vec![a], 1, 600);
    absorb(run, &jobs, results);
}
