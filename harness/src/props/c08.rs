//! C08 — interior-pointer and conservative lookups resolve to the right object.
//!
//! For any non-zero word-aligned address p: `is_mmtk_object(p)` is `Some(o)` iff p is the
//! reference (= object start for `VerifVM`) of a currently valid object o;
//! `find_object_from_internal_pointer(p, n)` returns the valid object o with
//! `o.start <= p < o.start + size` when such an object exists and `p - o.ref < n`
//! (`internal_ptr - max_search_bytes` is documented as *not included*), and `None` otherwise;
//! neither panics, wherever p lies.
//!
//! Engine `shadowvm`: programs up to a small depth per plan (all 11), three variants (own process
//! each): "" sizes 40 B / 264 B / 4104 B / 80 KiB / 1 MiB+8 with packed and fragmenting bursts,
//! "imm" with Immortal objects, "chunk" with a burst of 1100 x 4104 B that fills more than a 4 MiB
//! chunk.  After the closing exhaustive collection of each program (NoGC: at program end) the
//! valid objects are exactly the shadow survivors (C07 checks that MMTk agrees); a probe set is
//! derived from them (see `build_probes`) and both functions are called on every probe and
//! compared with the specification evaluated on the shadow heap.
//!
//! Reading of the `max_search_bytes` clause for `LargeObjectSpace`: its search is page-granular by
//! documented design ("We only need to check VO bit for each page"), so when the containing
//! object o exists but `p - o.ref >= n`, `Some(o)` is also accepted provided o.ref lies in or above
//! the page of `p - n` (the pages that search may legitimately visit); everywhere else the result
//! must be `None`.  A wrong object, an object that does not contain p, or `None` when
//! `p - o.ref < n`, is a violation in every space.

#![cfg(feature = "vo_bit")]

use crate::common::{catch, run_children, Run, Tier};
use crate::progs::{prog_json, Alphabet, Op, ProgFacts};
use crate::shadow_check::{count, panic_slug, Profile};
use crate::shadowvm::{set_current_case, BootCfg, Fail, Sem, World, ALL_PLANS};
use mmtk::util::{Address, ObjectReference};
use serde_json::{json, Value};
use std::collections::BTreeMap;
use std::sync::atomic::{AtomicU64, Ordering};
use std::sync::Mutex;

const PAGE: usize = 4096;
const CHUNK: usize = 4 << 20;
/// Immix block (32 KiB); the bump allocators of the copying / immortal spaces use the same size.
const BLOCK: usize = 32 << 10;
const BIG: usize = (1 << 20) + 8;

static PROG_COLLISIONS: AtomicU64 = AtomicU64::new(0);
static ORDINAL: AtomicU64 = AtomicU64::new(0);
static VARIANT: Mutex<String> = Mutex::new(String::new());

fn plans(_t: Tier) -> Vec<&'static str> {
    ALL_PLANS.to_vec()
}

fn variants(plan: &str, _t: Tier) -> Vec<&'static str> {
    // Compressor does not update references held in Immortal objects (recorded finding of another
    // property): its Immortal variant has no field writes
    if plan == "Compressor" {
        vec!["", "immnw", "chunk"]
    } else {
        vec!["", "imm", "chunk"]
    }
}

fn alphabet(plan: &str, v: &str, _t: Tier) -> Alphabet {
    // called once by the child before it enumerates: remember the variant for crash attribution
    *VARIANT.lock().unwrap() = v.to_string();
    let base = Alphabet { sizes: vec![], sems: vec![Sem::Default], gc_kinds: vec![false, true], bursts: vec![], refused_allocs: false, align_bursts: false, eph_chains: vec![], two_mutators: false, pins: false, cross_writes: false, fields: 1 };
    match v {
        "imm" => Alphabet { sizes: vec![40, 264], sems: vec![Sem::Default, Sem::Immortal], bursts: vec![(40, 200, 1)], ..base },
        "immnw" => Alphabet { sizes: vec![40, 264], sems: vec![Sem::Default, Sem::Immortal], bursts: vec![(40, 200, 1)], fields: 0, ..base },
        "chunk" => Alphabet { sizes: vec![4104], bursts: vec![(4104, 1100, 1)], ..base },
        // NoGC keeps everything for ever in immortal spaces, whose (debug-build, double-checked)
        // search is linear in n: a 12 KiB+8 object (three pages and a word) instead of 80 KiB / 1 MiB
        // a page (and an mprotect on release) per object: smaller bursts
        _ if plan == "PageProtect" => Alphabet { sizes: vec![40, 264, 4104, 81920, BIG as u32], bursts: vec![(40, 60, 1), (256, 60, 1), (264, 40, 2)], ..base },
        _ if plan == "NoGC" => Alphabet { sizes: vec![40, 264, 4104, 12296], bursts: vec![(40, 200, 1), (256, 300, 1), (264, 150, 2)], ..base },
        _ => Alphabet { sizes: vec![40, 264, 4104, 81920, BIG as u32], bursts: vec![(40, 200, 1), (256, 300, 1), (264, 150, 2)], ..base },
    }
}

fn depth(plan: &str, v: &str, t: Tier) -> usize {
    match (v, plan, t) {
        ("chunk", _, Tier::Quick) => 1,
        ("chunk", _, Tier::Thorough) => 2,
        (_, "NoGC", _) => 2,
        (_, "MarkCompact", Tier::Thorough) | (_, "PageProtect", Tier::Thorough) => 2,
        (_, _, Tier::Quick) => 2,
        (_, _, Tier::Thorough) => 3,
    }
}

fn boot(plan: &str, _v: &str, _t: Tier) -> BootCfg {
    let mut c = BootCfg::new(plan);
    c.heap_bytes = if plan == "NoGC" { 3 << 30 } else { 256 << 20 };
    c.record_dead = true;
    c
}

pub fn owns(sig: &str) -> bool {
    sig.starts_with("lookup:")
}

fn nontrivial(_f: &ProgFacts) -> bool {
    PROG_COLLISIONS.swap(0, Ordering::SeqCst) > 0
}

fn filter(v: &str, p: &[Op]) -> bool {
    match v {
        "imm" | "immnw" => p.iter().any(|o| matches!(o, Op::Alloc { sem: Sem::Immortal, .. })),
        "chunk" => p.iter().any(|o| matches!(o, Op::Burst { .. })),
        _ => p.iter().any(|o| matches!(o, Op::Alloc { .. } | Op::Burst { .. })),
    }
}

// -------------------------------------------------------------------------------------------------
// the reference model: the sorted table of valid objects

#[derive(Clone, Debug)]
struct Surv {
    start: usize,
    size: usize,
    id: u64,
    sem: Sem,
    /// lives in a `LargeObjectSpace` (page-granular interior search)
    los: bool,
    reachable: bool,
}

#[derive(Clone, Debug)]
struct SpaceInfo {
    name: &'static str,
    start: usize,
    extent: usize,
}

fn spaces(w: &World) -> Vec<SpaceInfo> {
    let mut v = vec![];
    w.mmtk.get_plan().for_each_space(&mut |s| {
        let c = s.common();
        v.push(SpaceInfo { name: c.name, start: c.start.as_usize(), extent: c.extent });
    });
    v.sort_by_key(|s| s.start);
    v
}

fn space_of<'a>(sp: &'a [SpaceInfo], a: usize) -> Option<&'a SpaceInfo> {
    sp.iter().find(|s| s.extent > 0 && a >= s.start && a - s.start < s.extent)
}

fn table(w: &World, sp: &[SpaceInfo]) -> Vec<Surv> {
    let is_los = |a: usize| match space_of(sp, a) {
        // under NoGC the space named "los" is an ImmortalSpace
        Some(s) => s.name == "pageprotect" || (s.name == "los" && w.cfg.plan != "NoGC"),
        None => false,
    };
    let mut t: Vec<Surv> = w
        .shadow
        .objs
        .values()
        .map(|o| (o, true))
        .chain(w.shadow.immortal_garbage.iter().map(|o| (o, false)))
        .map(|(o, r)| Surv { start: o.addr, size: o.size, id: o.id, sem: o.sem, los: is_los(o.addr), reachable: r })
        .collect();
    t.sort_by_key(|s| s.start);
    t
}

fn containing(t: &[Surv], p: usize) -> Option<&Surv> {
    let i = t.partition_point(|s| s.start <= p);
    if i == 0 {
        return None;
    }
    let s = &t[i - 1];
    (p - s.start < s.size).then_some(s)
}

// -------------------------------------------------------------------------------------------------
// probes

const C_EXACT: u32 = 1; // p is the reference of a valid object
const C_INTERIOR: u32 = 2; // inside a valid object, not its reference
const C_GAP: u32 = 4; // within 64 bytes of a valid object, inside none
const C_NEIGHBOUR: u32 = 8; // generated as "before/after object A" and lies inside another object B
const C_PAGE: u32 = 16; // within 16 words of a page boundary
const C_CHUNK: u32 = 32; // within 16 words of a chunk boundary
const C_OUTSIDE: u32 = 64; // fixed list: outside the heap / reserved but unused / unmapped
const C_DEAD: u32 = 128; // the start of an object that died or was moved away (since the previous check)
const C_LOS_INNER: u32 = 256; // in a page other than the first of a multi-page LOS object
const C_LAST_WORD: u32 = 512; // the last word of a valid object
const C_END: u32 = 1024; // the first word past a valid object

#[derive(Default, Clone)]
struct Probe {
    cats: u32,
    /// (start, size) of the survivors this probe was generated for
    gens: Vec<(usize, usize)>,
    /// further object sizes for the n-list (dead objects)
    sizes: Vec<usize>,
}

struct Probes {
    m: BTreeMap<usize, Probe>,
}

impl Probes {
    fn add(&mut self, p: usize, cat: u32, gen: Option<(usize, usize)>) {
        if p == 0 || p % 8 != 0 {
            return;
        }
        let e = self.m.entry(p).or_default();
        e.cats |= cat;
        if let Some(g) = gen {
            if !e.gens.contains(&g) {
                e.gens.push(g);
            }
        }
    }
    fn add_sized(&mut self, p: usize, cat: u32, size: usize) {
        self.add(p, cat, None);
        let e = self.m.get_mut(&p).unwrap();
        if !e.sizes.contains(&size) {
            e.sizes.push(size);
        }
    }
    fn around(&mut self, b: usize, words: usize, cat: u32, gen: Option<(usize, usize)>) {
        for k in 0..=2 * words {
            let p = (b + 8 * k).wrapping_sub(8 * words);
            if p < (1 << 47) {
                self.add(p, cat, gen);
            }
        }
    }
}

/// Object-level facts of one program (for the coverage counters).
#[derive(Default)]
struct ObjFacts {
    at_chunk_start: u64,
    at_block_start: u64,
    at_page_start: u64,
    end_at_block_end: u64,
    end_at_page_end: u64,
    adjacent: u64,
    multi_page: u64,
    spanning_page: u64,
    near_chunk_boundary: u64,
}

/// The probe set of one heap state.
///
/// * every word of [start-64, end+64) of every reachable survivor; for objects larger than two
///   pages: every word of the first two and last two pages (+-64 bytes outside), one word per page
///   in between and +-16 words around every page boundary inside;  in the "chunk" variant only the
///   objects within 64 KiB of a chunk boundary get every word, the others start+-64 and end+-64;
/// * the 256 most recent unreachable objects of never-collected spaces: start-8..start+8 and
///   end-8..end (all of them are in the model);
/// * +-16 words around every page boundary of every page that holds part of a reachable survivor
///   (and the page after), +-16 words around the boundaries of every chunk that holds one;
/// * the start (and the next word) of every object that died or was moved away since the
///   previous check;
/// * the fixed list outside the heap.
fn build_probes(w: &World, t: &[Surv], sp: &[SpaceInfo], dead: &[crate::shadowvm::SObj], thin: bool, facts: &mut ObjFacts) -> Probes {
    let mut pr = Probes { m: BTreeMap::new() };
    let mut chunks: Vec<usize> = vec![];
    for (i, s) in t.iter().enumerate() {
        let (st, en) = (s.start, s.start + s.size);
        if !s.reachable {
            continue;
        }
        if st % CHUNK == 0 {
            facts.at_chunk_start += 1;
        }
        if st % BLOCK == 0 {
            facts.at_block_start += 1;
        }
        if st % PAGE == 0 {
            facts.at_page_start += 1;
        }
        if en % BLOCK == 0 {
            facts.end_at_block_end += 1;
        }
        if en % PAGE == 0 {
            facts.end_at_page_end += 1;
        }
        if (i > 0 && t[i - 1].start + t[i - 1].size == st) || (i + 1 < t.len() && t[i + 1].start == en) {
            facts.adjacent += 1;
        }
        if st / PAGE != (en - 1) / PAGE {
            facts.spanning_page += 1;
        }
        let near_chunk = st % CHUNK < (64 << 10) || (CHUNK - en % CHUNK) % CHUNK < (64 << 10) || st / CHUNK != (en - 1) / CHUNK;
        if near_chunk {
            facts.near_chunk_boundary += 1;
        }
        for c in st / CHUNK..=(en - 1) / CHUNK {
            if !chunks.contains(&c) {
                chunks.push(c);
            }
        }
        let sz = Some((s.start, s.size));
        if s.size > 2 * PAGE {
            facts.multi_page += 1;
            let first_end = (st + 2 * PAGE).min(en);
            let last_start = (en - 2 * PAGE).max(first_end);
            let mut p = st - 64;
            while p < first_end {
                pr.add(p, 0, sz);
                p += 8;
            }
            p = last_start & !7;
            while p < en + 64 {
                pr.add(p, 0, sz);
                p += 8;
            }
            let mut pg = (first_end + PAGE - 1) & !(PAGE - 1);
            while pg < last_start {
                pr.add(pg + 2048, 0, sz);
                pr.around(pg, 16, C_PAGE, sz);
                pg += PAGE;
            }
        } else if thin && !near_chunk {
            pr.around(st, 8, 0, sz);
            pr.around(en, 8, 0, sz);
        } else {
            let mut p = st - 64;
            while p < en + 64 {
                pr.add(p, 0, sz);
                p += 8;
            }
        }
        // page boundaries of the pages holding the object, and the one after
        if s.size <= 2 * PAGE {
            let mut pg = st & !(PAGE - 1);
            while pg <= ((en - 1) & !(PAGE - 1)) + PAGE {
                pr.around(pg, 16, C_PAGE, sz);
                pg += PAGE;
            }
        } else {
            for pg in [st & !(PAGE - 1), (st & !(PAGE - 1)) + PAGE, (en - 1) & !(PAGE - 1), ((en - 1) & !(PAGE - 1)) + PAGE] {
                pr.around(pg, 16, C_PAGE, sz);
            }
        }
    }
    // unreachable objects of never-collected spaces: light probing of the most recent ones
    let g = &w.shadow.immortal_garbage;
    for o in g.iter().rev().take(256) {
        pr.around(o.addr, 1, 0, Some((o.addr, o.size)));
        pr.add(o.addr + o.size - 8, 0, Some((o.addr, o.size)));
        pr.add(o.addr + o.size, 0, Some((o.addr, o.size)));
    }
    chunks.sort_unstable();
    for c in chunks {
        pr.around(c * CHUNK, 16, C_CHUNK, None);
        pr.around((c + 1) * CHUNK, 16, C_CHUNK, None);
    }
    for d in dead {
        pr.add_sized(d.addr, C_DEAD, d.size);
        pr.add_sized(d.addr + 8, C_DEAD, d.size);
    }
    // fixed list
    let hs = mmtk::memory_manager::starting_heap_address().as_usize();
    let he = mmtk::memory_manager::last_heap_address().as_usize();
    let mut fixed = vec![8usize, 16, hs - 8, hs, hs + 8, he - 8, he, he + 8, mmtk::util::metadata::vo_bit::vo_bit_side_metadata_addr().as_usize(), usize::MAX & !7, (usize::MAX & !7) - 8, 1usize << 47, (1usize << 47) - 8];
    let used = |s: &SpaceInfo| t.iter().any(|o| o.start >= s.start && o.start - s.start < s.extent) || dead.iter().any(|o| o.addr >= s.start && o.addr - s.start < s.extent);
    let mut last_end = hs;
    for s in sp.iter().filter(|s| s.extent > 0) {
        // an address deep inside the reserved range (never mapped), the first and last word
        fixed.extend([s.start, s.start + 8, s.start + s.extent / 2, s.start + s.extent - 8]);
        if !used(s) {
            // a reserved space this run never allocated in
            fixed.extend([s.start + PAGE + 8, s.start + CHUNK, s.start + CHUNK - 8]);
        }
        if s.start > last_end {
            // between two spaces
            fixed.extend([last_end, last_end + (s.start - last_end) / 2 & !7, s.start - 8]);
        }
        last_end = last_end.max(s.start + s.extent);
    }
    if last_end + CHUNK < he {
        fixed.extend([last_end, last_end + CHUNK, last_end + (he - last_end) / 2 & !7]);
    }
    for f in fixed {
        pr.add(f, C_OUTSIDE, None);
    }
    pr
}

fn n_list(p: usize, pb: &Probe, c: Option<&Surv>) -> Vec<usize> {
    let mut v = vec![1usize, 8, 4096, 1 << 20];
    for &s in pb.sizes.iter().chain(pb.gens.iter().map(|(_, s)| s)) {
        v.extend([s - 8, s, s + 8]);
    }
    if let Some(c) = c {
        // the exact threshold of the max_search_bytes clause at this offset
        let off = p - c.start;
        v.extend([off, off + 1, off + 8]);
    }
    v.retain(|n| *n > 0);
    v.sort_unstable();
    v.dedup();
    v
}

fn fail<T>(sig: String, msg: String) -> Result<T, Fail> {
    Err((sig, msg))
}

fn where_is(p: usize, t: &[Surv], sp: &[SpaceInfo]) -> String {
    let space = space_of(sp, p).map(|s| s.name).unwrap_or("no space");
    match containing(t, p) {
        Some(c) => format!("{} (+{} in object id {} [{:#x},{:#x}) {}, space {})", adr(p), p - c.start, c.id, c.start, c.start + c.size, c.sem.name(), space),
        None => {
            let i = t.partition_point(|s| s.start <= p);
            let below = if i > 0 { format!("{} B above the end of object id {}", p - (t[i - 1].start + t[i - 1].size), t[i - 1].id) } else { "no object below".to_string() };
            format!("{} (in no valid object; {}; space {})", adr(p), below, space)
        }
    }
}

fn adr(p: usize) -> Address {
    unsafe { Address::from_usize(p) }
}

fn space_class(p: usize, t: &[Surv], sp: &[SpaceInfo]) -> String {
    match containing(t, p) {
        Some(c) if c.los => "los".to_string(),
        Some(c) => c.sem.name().to_string(),
        None => space_of(sp, p).map(|s| format!("space_{}", s.name)).unwrap_or("outside".to_string()),
    }
}

/// Evaluate both lookups on every probe and compare with the model.
fn check_lookups(w: &mut World, p_ops: &[Op]) -> Result<(), Fail> {
    let mut dead = std::mem::take(&mut w.dead_log);
    // addresses that moved objects vacated are probed like the starts of dead objects
    dead.append(&mut w.vacated_log);
    let variant = VARIANT.lock().unwrap().clone();
    let ordinal = ORDINAL.fetch_add(1, Ordering::SeqCst);
    let case = json!({"plan": w.cfg.plan, "variant": variant, "ordinal": ordinal, "program": prog_json(p_ops), "boot": w.cfg.json()});
    let mut lookup_case = case.clone();
    lookup_case["phase"] = json!("lookup");
    set_current_case(&lookup_case);
    let r = check_lookups_inner(w, &dead, variant == "chunk");
    set_current_case(&case);
    r
}

fn check_lookups_inner(w: &mut World, dead: &[crate::shadowvm::SObj], thin: bool) -> Result<(), Fail> {
    let sp = spaces(w);
    let t = table(w, &sp);
    for pair in t.windows(2) {
        if pair[0].start + pair[0].size > pair[1].start {
            return fail("graph:overlap".into(), format!("shadow survivors id {} and id {} overlap", pair[0].id, pair[1].id));
        }
    }
    // dead starts that a survivor occupies now are ordinary probes
    let dead: Vec<crate::shadowvm::SObj> = dead.to_vec();
    let mut facts = ObjFacts::default();
    let probes = build_probes(w, &t, &sp, &dead, thin, &mut facts);
    let (mut n_is, mut n_find, mut n_some, mut n_none, mut n_weak_some, mut n_weak_none) = (0u64, 0u64, 0u64, 0u64, 0u64, 0u64);
    let mut cat_counts: BTreeMap<&'static str, u64> = BTreeMap::new();
    let mut bump = |k: &'static str| *cat_counts.entry(k).or_insert(0) += 1;
    for (&p, pb) in &probes.m {
        let addr = adr(p);
        let c = containing(&t, p);
        let exact = c.filter(|c| c.start == p);
        // categories
        let mut cats = pb.cats;
        match c {
            Some(c) if c.start == p => cats |= C_EXACT,
            Some(_) => cats |= C_INTERIOR,
            None => {
                if cats & (C_OUTSIDE | C_DEAD) == 0 || cats & (C_PAGE | C_CHUNK) != 0 {
                    cats |= C_GAP
                }
            }
        }
        if let Some(c) = c {
            // generated for one survivor, lies inside another one: adjacency collision
            if pb.gens.iter().any(|(g, _)| *g != c.start) {
                cats |= C_NEIGHBOUR;
            }
            if p == c.start + c.size - 8 {
                cats |= C_LAST_WORD;
            }
            if c.los && p / PAGE != c.start / PAGE {
                cats |= C_LOS_INNER;
            }
        }
        if p >= 8 && containing(&t, p - 8).map(|o| o.start + o.size == p).unwrap_or(false) {
            cats |= C_END;
            if c.is_some() {
                // first word of an object that starts exactly where another ends
                cats |= C_NEIGHBOUR;
            }
        }
        for (bit, name) in [
            (C_EXACT, "c08_probes_exact_reference"),
            (C_INTERIOR, "c08_probes_interior"),
            (C_GAP, "c08_probes_in_no_object"),
            (C_NEIGHBOUR, "c08_probes_adjacent_object_collision"),
            (C_PAGE, "c08_probes_page_boundary"),
            (C_CHUNK, "c08_probes_chunk_boundary"),
            (C_OUTSIDE, "c08_probes_outside_or_unmapped"),
            (C_DEAD, "c08_probes_dead_or_vacated_object_start"),
            (C_LOS_INNER, "c08_probes_los_inner_page"),
            (C_LAST_WORD, "c08_probes_last_word_of_object"),
            (C_END, "c08_probes_first_word_past_object"),
        ] {
            if cats & bit != 0 {
                bump(name);
            }
        }

        // ---- is_mmtk_object
        n_is += 1;
        match catch(|| mmtk::memory_manager::is_mmtk_object(addr)) {
            Err(pm) => {
                return fail(
                    format!("lookup:is_mmtk_object:panic{}:{}", panic_slug(&format!("{}:0: {}", crate::common::last_panic_location(), pm)), space_class(p, &t, &sp)),
                    format!("is_mmtk_object({}) panicked at {}: {}", where_is(p, &t, &sp), crate::common::last_panic_location(), pm.lines().next().unwrap_or("")),
                )
            }
            Ok(r) => {
                let got = r.map(|o: ObjectReference| o.to_raw_address().as_usize());
                let want = exact.map(|c| c.start);
                if got != want {
                    let kind = match (want, got) {
                        (Some(_), None) => "valid_rejected",
                        (None, Some(_)) if cats & C_DEAD != 0 => "dead_or_vacated_accepted",
                        (None, Some(_)) if c.is_some() => "interior_accepted",
                        (None, Some(_)) => "non_object_accepted",
                        _ => "wrong_object",
                    };
                    return fail(format!("lookup:is_mmtk_object:{}:{}", kind, space_class(p, &t, &sp)), format!("is_mmtk_object({}) = {:?}, expected {:?}", where_is(p, &t, &sp), r, want.map(adr)));
                }
            }
        }

        // ---- find_object_from_internal_pointer
        for n in n_list(p, pb, c) {
            n_find += 1;
            let r = match catch(|| mmtk::memory_manager::find_object_from_internal_pointer(addr, n)) {
                Err(pm) => {
                    return fail(
                        format!("lookup:find_object:panic{}:{}", panic_slug(&format!("{}:0: {}", crate::common::last_panic_location(), pm)), space_class(p, &t, &sp)),
                        format!("find_object_from_internal_pointer({}, {}) panicked at {}: {}", where_is(p, &t, &sp), n, crate::common::last_panic_location(), pm.lines().next().unwrap_or("")),
                    )
                }
                Ok(r) => r,
            };
            let got = r.map(|o: ObjectReference| o.to_raw_address().as_usize());
            let (want, also_ok): (Option<usize>, Option<usize>) = match c {
                Some(c) if p - c.start < n => (Some(c.start), None),
                // the object exists but its reference is not within the n bytes searched
                Some(c) if c.los && c.start >= (p.saturating_sub(n) & !(PAGE - 1)) => (None, Some(c.start)),
                _ => (None, None),
            };
            if got == want {
                if got.is_some() {
                    n_some += 1
                } else {
                    n_none += 1
                }
                if also_ok.is_some() {
                    n_weak_none += 1;
                }
                continue;
            }
            if got.is_some() && got == also_ok {
                n_some += 1;
                n_weak_some += 1;
                continue;
            }
            let kind = match (want, got, c) {
                (Some(_), None, Some(c)) if c.start == p => "reference_not_found",
                (Some(_), None, Some(c)) if p == c.start + c.size - 8 => "last_word_not_found",
                (Some(_), None, Some(c)) if c.size > 2 * PAGE && p / PAGE != c.start / PAGE => "inner_page_not_found",
                (Some(_), None, _) => "interior_not_found",
                (None, Some(g), Some(c)) if g == c.start => "found_beyond_max_search_bytes",
                (None, Some(_), None) if cats & C_END != 0 => "found_past_object_end",
                (None, Some(_), None) => "found_for_non_interior_pointer",
                _ => "wrong_object",
            };
            return fail(
                format!("lookup:find_object:{}:{}", kind, space_class(p, &t, &sp)),
                format!("find_object_from_internal_pointer({}, max_search_bytes={}) = {:?}, expected {:?}", where_is(p, &t, &sp), n, r, want.map(adr)),
            );
        }
    }
    count("c08_states_probed", 1);
    count("c08_probes", probes.m.len() as u64);
    count("c08_is_mmtk_object_calls", n_is);
    count("c08_find_object_calls", n_find);
    count("c08_find_object_some", n_some);
    count("c08_find_object_none", n_none);
    count("c08_los_page_granular_window_some", n_weak_some);
    count("c08_los_page_granular_window_none", n_weak_none);
    for (k, v) in &cat_counts {
        count(k, *v);
    }
    count("c08_objects_fully_probed", t.iter().filter(|s| s.reachable).count() as u64);
    count("c08_objects_at_chunk_start", facts.at_chunk_start);
    count("c08_objects_at_block_start", facts.at_block_start);
    count("c08_objects_at_page_start", facts.at_page_start);
    count("c08_objects_end_at_block_end", facts.end_at_block_end);
    count("c08_objects_end_at_page_end", facts.end_at_page_end);
    count("c08_objects_adjacent_to_another", facts.adjacent);
    count("c08_objects_larger_than_two_pages", facts.multi_page);
    count("c08_objects_spanning_a_page_boundary", facts.spanning_page);
    count("c08_objects_within_64k_of_chunk_boundary", facts.near_chunk_boundary);
    let collisions = cat_counts.get("c08_probes_adjacent_object_collision").copied().unwrap_or(0) + cat_counts.get("c08_probes_los_inner_page").copied().unwrap_or(0);
    if collisions > 0 && (facts.at_page_start + facts.at_block_start + facts.end_at_page_end + facts.spanning_page) > 0 {
        PROG_COLLISIONS.fetch_add(1, Ordering::SeqCst);
    }
    Ok(())
}

fn post(w: &mut World, p: &[Op]) -> Result<(), Fail> {
    check_lookups(w, p)
}

pub const PROFILE: Profile = Profile {
    id: "C08",
    plans,
    variants,
    alphabet,
    depth,
    boot,
    owns,
    nontrivial,
    filter,
    rule: "per plan (all 11) and variant, every program of length <= depth (2 quick / 3 thorough; 'chunk' 1/2) over: '' {alloc 40 B | 264 B | 4104 B | 80 KiB | 1 MiB+8 (the last two -> LOS; under NoGC 12 KiB+8 replaces them), burst(40 B x200 packed), burst(256 B x300 packed: objects start at page/block starts and end at page/block ends), burst(264 B x150 keep every 2nd) (PageProtect: x60/x60/x40), write root.f0, drop root, GC(normal), GC(exhaustive)}; 'imm' {alloc 40|264 B Default|Immortal, burst(40x200), ...} (Compressor: without field writes); 'chunk' {alloc 4104 B, burst(4104 B x1100 = 4.3 MiB: crosses a 4 MiB chunk boundary), ...}. After the closing exhaustive GC of each program (NoGC: at its end) a probe set is built from the shadow survivors: every word of [start-64, end+64) of every reachable survivor (objects > 2 pages: every word of the first and last two pages, one word per page between, +-16 words around every inner page boundary; 'chunk': every word only for objects within 64 KiB of a chunk boundary, start+-64 and end+-64 for the rest), +-16 words around every page boundary of the pages holding a survivor and around the boundaries of its chunks, the start (and next word) of every object that died or was moved away since the previous check, light probes of the 256 newest unreachable immortal objects, and a fixed list (8, 16, heap_start-8/+0/+8, heap_end-8/+0/+8, VO-bit side-metadata base, usize::MAX&!7, 2^47, first/last/middle word of every space's reserved range, addresses in spaces the run never used, between spaces, past the last space). For every probe p: is_mmtk_object(p) == Some(p) iff p is the start of a survivor; find_object_from_internal_pointer(p, n) for n in {1, 8, 4096, 2^20, size-8, size, size+8 (size of each object the probe was generated for), off, off+1, off+8 (off = p - start of the containing survivor)} == the survivor containing p if p - start < n, else None (LargeObjectSpace: page-granular window accepted, see NOTES); no panic. distinct_nontrivial = programs whose probe set contained a probe generated for one object that lies inside an adjacent one (or in an inner page of a multi-page LOS object) and a survivor starting/ending on a page or block boundary",
    post: Some(post),
    timeout_s: |t| t.pick(300, 3000),
};

/// As `shadow_check::run`, but a fatal signal while the lookups were running (the crash case
/// carries `"phase":"lookup"`) is this property's violation, not a foreign crash.
pub fn run(run: &mut Run) {
    let plans = (PROFILE.plans)(run.tier);
    let mut jobs: Vec<(&str, &str)> = vec![];
    for p in &plans {
        for v in (PROFILE.variants)(p, run.tier) {
            jobs.push((p, v));
        }
    }
    let args: Vec<Vec<String>> = jobs.iter().map(|(p, v)| vec!["--child".to_string(), "C08".to_string(), p.to_string(), run.tier.name().to_string(), "run".to_string(), v.to_string()]).collect();
    let results = run_children(args, run.jobs, (PROFILE.timeout_s)(run.tier));
    let names: Vec<String> = jobs.iter().map(|(p, v)| if v.is_empty() { p.to_string() } else { format!("{}/{}", p, v) }).collect();
    absorb_own_crashes(run, &names, results);
    run.set("rule", PROFILE.rule);
    if run.samples.is_empty() {
        // every process failed in its first program: the violating cases are the samples
        let cases: Vec<Value> = run.violations.iter().take(3).map(|v| v.case.clone()).collect();
        for c in cases {
            run.sample(c);
        }
    }
    run.set("plans", json!(plans));
    run.set("placement", crate::vm::PLACEMENT);
    run.set("features", json!(crate::shadowvm::feature_set()));
    run.assume("the valid objects after an exhaustive collection are the shadow survivors (C07 checks that MMTk reports exactly those)");
    run.assume("probes are non-zero and word-aligned (documented precondition of is_mmtk_object); max_search_bytes >= 1");
    run.assume("LargeObjectSpace searches page by page (documented): when the containing object's reference is not within max_search_bytes but in or above the page of p - max_search_bytes, Some(object) is accepted as well as None");
    run.assume("NonMoving semantics not used (known findings); one GC worker; reference == object start (VerifVM)");
}

fn absorb_own_crashes(run: &mut Run, names: &[String], results: Vec<Value>) {
    let mut rest_names: Vec<&str> = vec![];
    let mut rest: Vec<Value> = vec![];
    for (name, r) in names.iter().zip(results) {
        let crash = r["crash"].as_str().unwrap_or("").to_string();
        if r.get("child_crashed").is_some() && crash.contains("\"phase\":\"lookup\"") {
            let (sig, tail) = crash.split_once(' ').unwrap_or((crash.as_str(), ""));
            let (case_s, detail) = tail.split_once(" ||| ").unwrap_or((tail, ""));
            let case: Value = serde_json::from_str(case_s).unwrap_or(json!({"raw": case_s}));
            run.violation(format!("lookup:crash:{}:{}", sig, name), format!("plan {}: the process died ({}) inside is_mmtk_object / find_object_from_internal_pointer after the program {} {}", name, sig, case["program"], detail), case);
            run.add("children_crashed", 1);
            continue;
        }
        rest_names.push(name.as_str());
        rest.push(r);
    }
    crate::shadow_check::absorb(&PROFILE, run, &rest_names, rest);
}

/// As `shadow_check::replay` (single program in a fresh process, then the enumeration prefix),
/// with the same crash attribution as `run`.
pub fn replay(case: &Value, run: &mut Run) {
    let plan = case["plan"].as_str().unwrap_or("SemiSpace").to_string();
    let prog = serde_json::to_string(&case["program"]).unwrap();
    let ord = case["ordinal"].as_u64().unwrap_or(0).to_string();
    let variant = case["variant"].as_str().unwrap_or("").to_string();
    let base = vec!["--child".to_string(), "C08".to_string(), plan.clone(), run.tier.name().to_string(), "replay".to_string(), variant, prog];
    let r = run_children(vec![base.clone()], 1, 600);
    let before = run.violations.len();
    absorb_own_crashes(run, &[plan.clone()], r);
    if run.violations.len() == before {
        let mut a = base;
        a.push("prefix".to_string());
        a.push(ord);
        let r = run_children(vec![a], 1, (PROFILE.timeout_s)(run.tier));
        absorb_own_crashes(run, &[plan], r);
    }
}

pub fn child(args: &[String]) {
    crate::shadow_check::child(&PROFILE, args);
}
