//! Shared infrastructure of C14 / C15 / C16: the real work-packet scheduler of a real `MMTK<VerifVM>`
//! instance under the `baton` engine in persistent mode.
//!
//! One child process per (plan, scenario kind, shard of spawning patterns).  In the child the
//! harness thread is the baton controller and plays the mutator (logical thread 0); the GC worker
//! threads are created through `VerifVM::spawn_gc_thread` -> `vm::GC_THREAD_SPAWNER` ->
//! `Inst::spawn` (logical thread 1 + ordinal).  Every lock / wait / notify of the worker monitor
//! and the worker-group mutex goes through the `verif::sync` shim and is modelled logically;
//! the scheduler protocol points (bucket add / open / close / poll, designated work, sentinels,
//! local queues, the request flag) are scheduling points of class `Sched`; the binding's own
//! waits (`stop_all_mutators` waiting for the mutator, `block_for_gc`) are logical waits too.
//! An execution starts and ends at a scheduler-quiescent point (all workers waiting on the
//! monitor, no goal, no request) and consists of the scenario's requests; the heap is small and
//! the same for every execution.  The oracle reads the event log (`rt::event`) of the execution
//! and the real scheduler state at quiescence.

use crate::baton::{self, Arming, Config, End, Event, ExecInfo, Inst, Op, Prefix, Verdict};
use crate::common::{catch, emit_child_result, machinery_failure, run_children, Run, Tier};
use crate::shadowvm::{install_crash_handlers, set_current_case, worker_panic_to_crash, BootCfg, Sem, World};
use crate::vm::{self, VerifVM};
use mmtk::scheduler::{GCWork, GCWorker, WorkBucketStage};
use mmtk::util::verif::c14 as view;
use mmtk::util::verif::rt::{self, Class};
use mmtk::MMTK;
use serde_json::{json, Value};
use std::collections::BTreeMap;
use std::sync::{Arc, Mutex};

// ---------------------------------------------------------------------------------------------
// spawning patterns: trees of harness packets

/// Buckets a harness packet may be added to.
pub const STAGES: [WorkBucketStage; 5] = [WorkBucketStage::Unconstrained, WorkBucketStage::Prepare, WorkBucketStage::Closure, WorkBucketStage::VMRefClosure, WorkBucketStage::Release];
pub const STAGE_NAMES: [&str; 5] = ["U", "P", "C", "V", "R"];

/// A tree of harness packets: node i is added to bucket `STAGES[stage[i]]` by its parent when the
/// parent runs (node 0 by the binding's `scan_vm_specific_roots` upcall); children are added in
/// index order.  `parent[0]` is unused.
#[derive(Clone, Debug, PartialEq, Eq)]
pub struct Pattern {
    pub parent: Vec<usize>,
    pub stage: Vec<usize>,
}

impl Pattern {
    pub fn empty() -> Pattern {
        Pattern { parent: vec![], stage: vec![] }
    }
    pub fn len(&self) -> usize {
        self.parent.len()
    }
    pub fn children(&self, n: usize) -> Vec<usize> {
        (1..self.len()).filter(|c| self.parent[*c] == n).collect()
    }
    /// e.g. `P(C,V(R))`
    pub fn name(&self) -> String {
        fn rec(p: &Pattern, n: usize) -> String {
            let ch = p.children(n);
            if ch.is_empty() {
                STAGE_NAMES[p.stage[n]].to_string()
            } else {
                format!("{}({})", STAGE_NAMES[p.stage[n]], ch.iter().map(|c| rec(p, *c)).collect::<Vec<_>>().join(","))
            }
        }
        if self.len() == 0 {
            "-".to_string()
        } else {
            rec(self, 0)
        }
    }
    pub fn json(&self) -> Value {
        json!({"parent": self.parent, "stage": self.stage, "name": self.name()})
    }
    pub fn from_json(v: &Value) -> Pattern {
        let f = |k: &str| -> Vec<usize> { v[k].as_array().map(|a| a.iter().map(|x| x.as_u64().unwrap_or(0) as usize).collect()).unwrap_or_default() };
        Pattern { parent: f("parent"), stage: f("stage") }
    }
}

/// Every tree with at most `max` nodes over the five target buckets, smallest first; trees that
/// only differ in the numbering of their nodes are listed once.
pub fn all_patterns(max: usize) -> Vec<Pattern> {
    let mut out = vec![Pattern::empty()];
    let mut seen = std::collections::BTreeSet::new();
    for k in 1..=max {
        // parent arrays: parent[i] < i
        let mut parents: Vec<Vec<usize>> = vec![vec![0]];
        for i in 1..k {
            let mut next = vec![];
            for p in &parents {
                for q in 0..i {
                    let mut v = p.clone();
                    v.push(q);
                    next.push(v);
                }
            }
            parents = next;
        }
        for par in parents {
            let combos = STAGES.len().pow(k as u32);
            for c in 0..combos {
                let mut stage = vec![];
                let mut x = c;
                for _ in 0..k {
                    stage.push(x % STAGES.len());
                    x /= STAGES.len();
                }
                let p = Pattern { parent: par.clone(), stage };
                if seen.insert(p.name()) {
                    out.push(p);
                }
            }
        }
    }
    out
}

struct HPacket {
    pat: Arc<Pattern>,
    node: usize,
    via_worker: bool,
}

impl GCWork<VerifVM> for HPacket {
    fn do_work(&mut self, worker: &mut GCWorker<VerifVM>, mmtk: &'static MMTK<VerifVM>) {
        rt::event("h_run", self.node, worker.ordinal);
        for c in self.pat.children(self.node) {
            let stage = STAGES[self.pat.stage[c]];
            rt::event("h_add", c, view::stage_index(stage));
            let p = HPacket { pat: self.pat.clone(), node: c, via_worker: self.via_worker };
            if self.via_worker {
                worker.add_work(stage, p);
            } else {
                mmtk::memory_manager::add_work_packet(mmtk, stage, p);
            }
        }
    }
}

/// What the binding's upcall hook injects in the collections of the current execution.
struct Inject {
    pat: Arc<Pattern>,
    via_worker: bool,
}

static INJECT: Mutex<Option<Inject>> = Mutex::new(None);

/// Scenario `satb`: outcome facts of the current execution (marked objects of A..D when the
/// program started / ended, whether the cycle ended inside the program).
static SATB_OUT: Mutex<String> = Mutex::new(String::new());

/// Scenario `satb`: the pause that is about to end is the one that starts concurrent marking.
static SATB_HOLD: std::sync::atomic::AtomicBool = std::sync::atomic::AtomicBool::new(false);

fn upcall(name: &'static str, tls: usize) {
    match name {
        "vm_roots" => {
            let inj = INJECT.lock().unwrap_or_else(|p| p.into_inner());
            if let Some(i) = inj.as_ref() {
                if i.pat.len() > 0 {
                    let stage = STAGES[i.pat.stage[0]];
                    rt::event("h_add", 0, view::stage_index(stage));
                    let p = HPacket { pat: i.pat.clone(), node: 0, via_worker: i.via_worker };
                    let mmtk = vm::mmtk();
                    drop(inj);
                    mmtk::memory_manager::add_work_packet(mmtk, stage, p);
                }
            }
        }
        "stopped" => rt::event("vm_stopped", tls, 0),
        "resume" => rt::event("vm_resume", tls, 0),
        "weak_refs" => rt::event("vm_weak_refs", tls, 0),
        "resumed" => {
            // scenario `satb`: after the initial-mark pause the worker lets the mutator run first
            // (a yield, not a preemption), so that by default the program runs before the
            // concurrent marking packets instead of after them
            if SATB_HOLD.load(std::sync::atomic::Ordering::SeqCst) {
                rt::yield_point(1);
            }
        }
        _ => {}
    }
}

// ---------------------------------------------------------------------------------------------
// scenarios

#[derive(Clone, Copy, Debug, PartialEq, Eq)]
pub enum Kind {
    /// one collection request
    Gc1,
    /// two consecutive requests; the second is made as soon as `block_for_gc` returns, i.e. it
    /// races with the tail of `on_gc_finished`
    Gc2,
    /// GC, prepare_to_fork (as soon as block_for_gc returned: races with the tail of the GC), all
    /// worker threads exit and are joined, after_fork, GC; `rounds` times
    Fork { rounds: usize, race: bool },
    /// C17 seam (b): one collection in which the first `process_weak_refs` call fans out
    /// `racers` packets that all trace the same, not yet reached, object through clones of the
    /// tracer context (`vm::TRACE_FANOUT`); the metadata atomics on that object's forwarding
    /// word / bits (and mark bit) are scheduling points; only the race is explored (the
    /// exploration window is open from the fan-out until the last racer has returned)
    Race { racers: usize },
    /// two mutator threads (the controller = mutator 0 and a second OS thread = mutator 1) each
    /// make one forced user collection request, concurrently: mutator 1's request may be made
    /// before, while or after mutator 0's is pending / being served (the binding's
    /// multi-mutator mode, `vm::multi_*`)
    Req2,
    /// C12: one concurrent marking cycle of ConcurrentImmix (initial-mark pause triggered by an
    /// allocation burst, the mutator program `Job::prog` racing with the concurrent marking
    /// packets, final-mark pause, line-reusing allocation burst, full collection); see
    /// `Child::satb_execution`
    Satb,
    /// C12 with two mutators: one concurrent marking cycle as in `Satb`, but the program
    /// (`Job::prog`, see `SATB2_OPS`) is split between mutator 0 (the controller) and mutator 1 (a
    /// second baton thread with its own `Mutator`, i.e. its own SATB barrier and buffers); both write
    /// reference fields of the same unlogged snapshot object A through the real pre-write barrier
    /// while the marking packets run; optionally mutator 1 is destroyed at the end of its program;
    /// see `Child::satb2_execution`
    Satb2,
    /// a GC request and a fork request in flight together: a second thread plays mutator 0 and
    /// makes one forced user collection request while the controller (the VM's forking thread)
    /// calls `prepare_to_fork`; both start at quiescence, so the fork request lands before / while
    /// / after the GC goal is current and the GC request before / while / after StopForFork is
    /// current.  Then the fork round trip (all worker threads returned, joined, `after_fork`), after
    /// which the GC request must have been served, and a further plain collection
    Forkreq,
}

impl Kind {
    pub fn name(&self) -> String {
        match self {
            Kind::Gc1 => "gc1".into(),
            Kind::Gc2 => "gc2".into(),
            Kind::Fork { rounds, race } => format!("fork{}{}", rounds, if *race { "r" } else { "" }),
            Kind::Race { racers } => format!("race{}", racers),
            Kind::Req2 => "req2".into(),
            Kind::Satb => "satb".into(),
            Kind::Satb2 => "satb2".into(),
            Kind::Forkreq => "forkreq".into(),
        }
    }
    pub fn from_name(s: &str) -> Kind {
        match s {
            "gc1" => Kind::Gc1,
            "gc2" => Kind::Gc2,
            "fork1" => Kind::Fork { rounds: 1, race: false },
            "fork1r" => Kind::Fork { rounds: 1, race: true },
            "fork2" => Kind::Fork { rounds: 2, race: false },
            "fork2r" => Kind::Fork { rounds: 2, race: true },
            "race2" => Kind::Race { racers: 2 },
            "race3" => Kind::Race { racers: 3 },
            "req2" => Kind::Req2,
            "satb" => Kind::Satb,
            "satb2" => Kind::Satb2,
            "forkreq" => Kind::Forkreq,
            other => machinery_failure(&format!("unknown scheduler scenario {}", other)),
        }
    }
    pub fn is_fork(&self) -> bool {
        matches!(self, Kind::Fork { .. })
    }
    pub fn is_race(&self) -> bool {
        matches!(self, Kind::Race { .. })
    }
    /// the scenario part of a signature
    pub fn scenario(&self) -> String {
        if self.is_fork() {
            "fork".to_string()
        } else if self.is_race() {
            "race".to_string()
        } else {
            self.name()
        }
    }
    fn requests(&self) -> usize {
        match self {
            Kind::Gc1 => 1,
            Kind::Gc2 => 2,
            Kind::Fork { rounds, .. } => 1 + rounds,
            Kind::Race { .. } => 1,
            Kind::Req2 => 2,
            Kind::Satb => 0,
            Kind::Satb2 => 0,
            Kind::Forkreq => 2,
        }
    }
}

/// One exploration job inside a child: a scenario kind + a spawning pattern + variant flags.
#[derive(Clone, Debug)]
pub struct Job {
    pub kind: Kind,
    pub pattern: Pattern,
    /// harness packets add their children through `GCWorker::add_work` (local queue if the bucket
    /// is open) instead of `memory_manager::add_work_packet`
    pub via_worker: bool,
    /// preemption bound
    pub bound: u32,
    /// bound on free deviations (see `baton::Config::free_bound`)
    pub free_bound: u32,
    /// spurious condition-variable wake-ups the strategy may inject per execution (each costs a
    /// preemption)
    pub spurious: u32,
    /// `Kind::Satb`: the mutator program (op codes, see `SATB_OPS`); `Kind::Satb2`: the programs of
    /// both mutators (`16 * mutator + op code`, see `SATB2_OPS`; the order between ops of different
    /// mutators has no meaning)
    pub prog: Vec<u8>,
}

impl Job {
    pub fn json(&self) -> Value {
        let mut v = json!({"kind": self.kind.name(), "pattern": self.pattern.json(), "via_worker": self.via_worker, "bound": self.bound, "free_bound": self.free_bound, "spurious": self.spurious});
        if self.kind == Kind::Satb {
            v["prog"] = json!(self.prog);
            v["prog_text"] = json!(satb_prog_name(&self.prog));
        }
        if self.kind == Kind::Satb2 {
            v["prog"] = json!(self.prog);
            v["prog_text"] = json!(satb2_prog_name(&self.prog));
        }
        v
    }
    pub fn from_json(v: &Value) -> Job {
        Job { kind: Kind::from_name(v["kind"].as_str().unwrap_or("gc1")), pattern: Pattern::from_json(&v["pattern"]), via_worker: v["via_worker"].as_bool().unwrap_or(false), bound: v["bound"].as_u64().unwrap_or(1) as u32, free_bound: v["free_bound"].as_u64().unwrap_or(1) as u32, spurious: v["spurious"].as_u64().unwrap_or(0) as u32, prog: v["prog"].as_array().map(|a| a.iter().map(|x| x.as_u64().unwrap_or(0) as u8).collect()).unwrap_or_default() }
    }
    pub fn name(&self) -> String {
        if self.kind == Kind::Satb {
            return format!("satb/{}", satb_prog_name(&self.prog));
        }
        if self.kind == Kind::Satb2 {
            return format!("satb2/{}", satb2_prog_name(&self.prog));
        }
        format!("{}/{}{}{}", self.kind.name(), self.pattern.name(), if self.via_worker { "/local" } else { "" }, if self.spurious > 0 { "/spurious" } else { "" })
    }
}

/// Static configuration of a child: plan, workers, heap shape.
#[derive(Clone, Debug)]
pub struct ChildCfg {
    pub plan: String,
    pub workers: usize,
    /// length of the ephemeron chain in the heap (number of extra `process_weak_refs` rounds,
    /// i.e. of sentinel re-armings per collection)
    pub eph_chain: usize,
    /// enable mmtk's own reference / finalizer processing packets
    pub refs: bool,
    /// extra MMTk options (`name`, `value`), e.g. Immix forced defragmentation
    pub options: Vec<(String, String)>,
    /// number of bound mutators (2 for the `req2` scenario; mutator 1 has no roots)
    pub mutators: usize,
    /// no standard heap (the scenario builds its own objects in every execution)
    pub bare: bool,
}

impl ChildCfg {
    pub fn json(&self) -> Value {
        let mut v = json!({"plan": self.plan, "workers": self.workers, "eph_chain": self.eph_chain, "refs": self.refs, "placement": vm::PLACEMENT});
        if !self.options.is_empty() {
            v["options"] = json!(self.options);
        }
        if self.mutators != 1 {
            v["mutators"] = json!(self.mutators);
        }
        if self.bare {
            v["bare"] = json!(true);
        }
        v
    }
    pub fn from_json(v: &Value) -> ChildCfg {
        ChildCfg { plan: v["plan"].as_str().unwrap_or("SemiSpace").to_string(), workers: v["workers"].as_u64().unwrap_or(2) as usize, eph_chain: v["eph_chain"].as_u64().unwrap_or(1) as usize, refs: v["refs"].as_bool().unwrap_or(false), options: v["options"].as_array().map(|a| a.iter().map(|kv| (kv[0].as_str().unwrap_or("").to_string(), kv[1].as_str().unwrap_or("").to_string())).collect()).unwrap_or_default(), mutators: v["mutators"].as_u64().unwrap_or(1) as usize, bare: v["bare"].as_bool().unwrap_or(false) }
    }
}

// ---------------------------------------------------------------------------------------------
// C12: mutator programs racing with concurrent marking (scenario `satb`)

/// The graph at the start of marking is root0 -> A -> B -> C and root3 -> D (D.f = null); E is
/// allocated by the program (root4), R is root5.  Every op goes through the plan's write barrier
/// (`World::write_field`) resp. is a plain root update.
pub const SATB_OPS: [&str; 6] = ["A.f<-null", "D.f<-A.f,drop(D)", "E=alloc", "E.f<-A.f.f", "A.f<-E", "R<-A.f"];

pub fn satb_prog_name(p: &[u8]) -> String {
    if p.is_empty() {
        "-".to_string()
    } else {
        p.iter().map(|o| SATB_OPS.get(*o as usize).copied().unwrap_or("?")).collect::<Vec<_>>().join(";")
    }
}

/// What the mutator sees of the graph: the targets of the fields ('B', 'E', 'C' or none).
#[derive(Clone, Debug, PartialEq, Eq)]
pub struct SatbModel {
    pub af: Option<char>,
    pub df: Option<char>,
    pub ef: Option<char>,
    pub d_rooted: bool,
    pub e: bool,
    pub r: Option<char>,
}

impl SatbModel {
    pub fn new() -> SatbModel {
        SatbModel { af: Some('B'), df: None, ef: None, d_rooted: true, e: false, r: None }
    }
    /// Apply `op`; `false` = the op is not applicable in this state (the program is skipped).
    pub fn apply(&mut self, op: u8) -> bool {
        match op {
            0 => {
                if self.af.is_none() {
                    return false;
                }
                self.af = None;
            }
            1 => {
                if !self.d_rooted || self.af.is_none() {
                    return false;
                }
                self.df = self.af;
                self.d_rooted = false;
            }
            2 => {
                if self.e {
                    return false;
                }
                self.e = true;
            }
            3 => {
                // A.f.f is C only while A.f is B
                if !self.e || self.af != Some('B') || self.ef.is_some() {
                    return false;
                }
                self.ef = Some('C');
            }
            4 => {
                if !self.e || self.af == Some('E') {
                    return false;
                }
                self.af = Some('E');
            }
            5 => {
                if self.af.is_none() || self.r.is_some() {
                    return false;
                }
                self.r = self.af;
            }
            _ => return false,
        }
        true
    }
}

/// Every applicable program of at most `max` ops, shortest first.
pub fn satb_programs(max: usize) -> Vec<Vec<u8>> {
    let mut out: Vec<Vec<u8>> = vec![vec![]];
    let mut frontier: Vec<(Vec<u8>, SatbModel)> = vec![(vec![], SatbModel::new())];
    for _ in 0..max {
        let mut next = vec![];
        for (p, m) in &frontier {
            for op in 0..SATB_OPS.len() as u8 {
                let mut m2 = m.clone();
                if m2.apply(op) {
                    let mut p2 = p.clone();
                    p2.push(op);
                    out.push(p2.clone());
                    next.push((p2, m2));
                }
            }
        }
        frontier = next;
    }
    out
}

// ---------------------------------------------------------------------------------------------
// C12: two mutators writing fields of the same object during concurrent marking (scenario `satb2`)

/// The graph at the start of marking is root0 -> A, A.f -> B -> C, A.g -> G (B, C, G reachable only
/// through A).  Every op is a reference store into A through the writing mutator's own SATB barrier.
pub const SATB2_OPS: [&str; 3] = ["A.f<-null", "A.g<-null", "A.f<-G"];

/// Pseudo op of mutator 1 (anywhere in its list; it acts at the end of its program): the mutator
/// is destroyed (`memory_manager::destroy_mutator`, on its own thread, while the marking is still in
/// progress) instead of staying bound until the final-mark pause: what its barrier has buffered
/// must reach the collector through the flush of the destroy path.
pub const SATB2_DESTROY: u8 = 15;

/// (field index, target: 0 = null, 'G')
fn satb2_op(code: u8) -> (usize, Option<char>) {
    match code {
        0 => (0, None),
        1 => (1, None),
        2 => (0, Some('G')),
        _ => machinery_failure(&format!("satb2 scenario: unknown op code {}", code)),
    }
}

pub fn satb2_prog_name(p: &[u8]) -> String {
    let side = |m: u8| -> String {
        let ops: Vec<&str> = p.iter().filter(|o| **o / 16 == m).map(|o| if *o % 16 == SATB2_DESTROY { "destroy" } else { SATB2_OPS.get((*o % 16) as usize).copied().unwrap_or("?") }).collect();
        if ops.is_empty() { "-".to_string() } else { ops.join(";") }
    };
    format!("m0:{}|m1:{}", side(0), side(1))
}

/// The programs of scenario `satb2`: (ops of mutator 0, ops of mutator 1), encoded as `Job::prog`.
/// `level` 0: the quick set; 1: the thorough set (a superset).
pub fn satb2_programs(level: usize) -> Vec<Vec<u8>> {
    let enc = |m0: &[u8], m1: &[u8]| -> Vec<u8> { m0.iter().copied().chain(m1.iter().map(|o| 16 + *o)).collect() };
    let mut out = vec![
        enc(&[0], &[1]),    // different fields
        enc(&[0], &[0]),    // the same field
        enc(&[1], &[0]),    // different fields, roles swapped
        enc(&[0, 1], &[1]), // mutator 0 comes back to A for a second field
        enc(&[0], &[1, 0]), // mutator 1 does
        enc(&[2], &[1]),    // A.f <- G overwrites B while the other mutator cuts the old path to G
        enc(&[0], &[1, SATB2_DESTROY]), // mutator 1 is destroyed when its program has ended
    ];
    if level >= 1 {
        out.push(enc(&[0, 1], &[1, 0]));
        out.push(enc(&[1], &[2]));
        out.push(enc(&[2, 1], &[1]));
        out.push(enc(&[1, 0], &[0, 1]));
        out.push(enc(&[1], &[0, SATB2_DESTROY]));
        out.push(enc(&[0, 1], &[1, 0, SATB2_DESTROY]));
    }
    out
}

/// Scenario `satb2`: which of the two programs have ended (the last one closes the exploration
/// window).  Only touched by the thread that holds the baton.
static SATB2: Mutex<Satb2State> = Mutex::new(Satb2State { done: [false; 2], in_op: [false; 2], overlap: false, snapshot: Vec::new(), marked_at_close: 0 });

struct Satb2State {
    done: [bool; 2],
    in_op: [bool; 2],
    /// an op of one mutator began while an op of the other was in progress
    overlap: bool,
    /// addresses of the snapshot objects
    snapshot: Vec<usize>,
    /// how many of them were marked when the second program ended
    marked_at_close: usize,
}

fn satb2_marked(addrs: &[usize]) -> usize {
    addrs.iter().filter(|a| mmtk::util::ObjectReference::from_raw_address(unsafe { mmtk::util::Address::from_usize(**a) }).unwrap().is_reachable()).count()
}

/// One reference store of scenario `satb2` on the calling baton thread: the plan's pre-write
/// barrier of `mu`, then the store (a visible operation at the slot's address).
fn satb2_store(mu: usize, src: usize, slot: usize, target: usize) {
    use mmtk::util::{Address, ObjectReference};
    let so = ObjectReference::from_raw_address(unsafe { Address::from_usize(src) }).unwrap();
    let sl = unsafe { Address::from_usize(slot) };
    let tg = ObjectReference::from_raw_address(unsafe { Address::from_usize(target) });
    let mu = unsafe { &mut *(mu as *mut mmtk::Mutator<VerifVM>) };
    mmtk::memory_manager::object_reference_write_pre(mu, so, sl, tg);
    rt::sched_point(rt::Kind::AtomicStore, slot);
    vm::write_word(sl, target);
}

/// The program of mutator `m` of scenario `satb2` on the calling baton thread.  `ops` = (field
/// slot address, target address).
fn satb2_run_program(inst: &Inst, m: usize, mu: usize, a: usize, ops: &[(u8, usize, usize)], destroy: bool) {
    for (k, (code, slot, target)) in ops.iter().enumerate() {
        baton::step(10 + 16 * m as u32 + *code as u32);
        rt::event("satb2_op_begin", m, k);
        {
            let mut d = SATB2.lock().unwrap_or_else(|p| p.into_inner());
            if d.in_op[1 - m] {
                d.overlap = true;
            }
            d.in_op[m] = true;
        }
        satb2_store(mu, a, *slot, *target);
        SATB2.lock().unwrap_or_else(|p| p.into_inner()).in_op[m] = false;
        rt::event("satb2_op_end", m, k);
    }
    if destroy {
        // what `World::destroy` does, on this mutator's own thread
        baton::step(8);
        rt::event("satb2_destroy", m, 0);
        let rec = vm::with_state(|s| {
            let i = s.mutators.iter().position(|x| x.tls == vm::MUTATOR_TLS_BASE + m).unwrap_or_else(|| machinery_failure("satb2 scenario: destroy of an unbound mutator"));
            s.mutators.remove(i)
        });
        if rec.mutator as usize != mu {
            machinery_failure("satb2 scenario: mutator record mismatch");
        }
        unsafe {
            mmtk::memory_manager::destroy_mutator(&mut *rec.mutator);
            drop(Box::from_raw(rec.mutator));
            drop(Box::from_raw(rec.roots));
        }
    }
    baton::step(9);
    let mut d = SATB2.lock().unwrap_or_else(|p| p.into_inner());
    d.done[m] = true;
    if d.done[0] && d.done[1] {
        d.marked_at_close = satb2_marked(&d.snapshot);
        rt::event("satb2_programs_done", m, 0);
        inst.set_explore(false);
    }
}

// ---------------------------------------------------------------------------------------------
// the oracle over the event log

/// A failure: (class, clause, message); the signature is `class:clause:scenario`.
pub type Fail = (String, String);

fn fail<T>(sig: &str, msg: String) -> Result<T, Fail> {
    Err((sig.to_string(), msg))
}

#[derive(Default, Debug)]
pub struct Facts {
    pub collections: usize,
    pub packets: usize,
    pub last_parked_decisions: usize,
    pub gc_finished_by: Vec<usize>,
    pub harness_runs: Vec<(usize, usize)>,
    pub sentinels: usize,
    pub surrenders: usize,
    pub spawns: usize,
    pub parks: usize,
}

static STAGE_TABLE: std::sync::OnceLock<Vec<String>> = std::sync::OnceLock::new();

fn stage_name(i: usize) -> String {
    STAGE_TABLE.get().and_then(|t| t.get(i).cloned()).unwrap_or_else(|| format!("stage{}", i))
}

fn short(t: &str) -> String {
    // type names are long generic paths: keep the last path segment of the outer type
    let outer = t.split('<').next().unwrap_or(t);
    outer.rsplit("::").next().unwrap_or(outer).to_string()
}

/// Check one execution's event log.  `workers` = number of GC workers; `job` = what ran.
pub fn analyse(events: &[Event], workers: usize, job: &Job) -> Result<Facts, Fail> {
    let mut f = Facts::default();
    let n_stages = 32usize;
    let unconstrained = WorkBucketStage::Unconstrained as usize;
    let concurrent = WorkBucketStage::Concurrent as usize;
    let first_stw = WorkBucketStage::Prepare as usize;
    let is_stw = |s: usize| s != unconstrained && s != concurrent;
    let mut open = vec![false; n_stages];
    open[unconstrained] = true;
    open[concurrent] = true;
    // packets waiting in buckets that are closed
    let mut closed_pending = vec![0usize; n_stages];
    let mut added: BTreeMap<&'static str, usize> = BTreeMap::new();
    let mut started: BTreeMap<&'static str, usize> = BTreeMap::new();
    let mut ended: BTreeMap<&'static str, usize> = BTreeMap::new();
    let (mut total_added, mut total_ended) = (0usize, 0usize);
    let mut running: Vec<Option<&'static str>> = vec![None; workers];
    // every execution starts at a quiescent point: all workers wait on the monitor
    let mut parked = vec![true; workers];
    // worker currently inside its last-parked decision
    let mut deciding: Option<usize> = None;
    let mut goal: Option<usize> = None;
    let mut gc_requests_pending = 0usize;
    let mut in_gc = false;
    let mut resumed_this_gc = false;
    let mut stopped_this_gc = false;
    let mut sentinel_set = vec![0usize; n_stages];
    let mut sentinel_sched = vec![0usize; n_stages];
    let mut h_added = vec![0usize; job.pattern.len()];
    let mut h_run = vec![0usize; job.pattern.len()];
    // the bucket the next `packet_add` events belong to
    let mut pending_bucket_adds: Vec<usize> = vec![];
    let mut exited = vec![false; workers];
    let mut surrendered = vec![0usize; workers];
    let mut spawned = vec![0usize; workers];
    let mut returned = vec![0usize; workers];
    let mut stop_goal_active = false;
    // designated work existed when the current last-parked decision looked for more work
    let mut designated_pending = false;
    let w_of = |e: &Event| -> Option<usize> { if e.tid >= 1 && (e.tid as usize) <= workers { Some(e.tid as usize - 1) } else { None } };

    for (i, e) in events.iter().enumerate() {
        let at = || format!("event #{} {}({}, {}) by t{}", i, e.name, e.a, e.b, e.tid);
        match e.name {
            "request" => {
                if e.b == 1 && e.a == 0 {
                    gc_requests_pending += 1;
                }
                if e.a == 2 && e.b == 1 {
                    stop_goal_active = true;
                }
            }
            "gc_request" | "gc_request_cleared" => {}
            "goal_set" => {
                if goal.is_some() {
                    return fail("sched:goal_overlap", format!("{}: a goal was set while goal {:?} is still current", at(), goal));
                }
                goal = Some(e.a);
                if e.a == 0 {
                    in_gc = true;
                    resumed_this_gc = false;
                    stopped_this_gc = false;
                    gc_requests_pending = gc_requests_pending.saturating_sub(1);
                    f.collections += 1;
                    // a new GC starts with the buckets as the previous one left them
                    for s in 0..n_stages {
                        if is_stw(s) && open[s] {
                            return fail("stage:open_at_gc_start", format!("{}: bucket {} is open when a GC starts", at(), stage_name(s)));
                        }
                    }
                }
            }
            "goal_done" => {
                if goal.is_none() {
                    return fail("sched:goal_done_without_goal", at());
                }
                if goal == Some(0) {
                    if !resumed_this_gc {
                        return fail("sched:gc_goal_completed_without_resume", format!("{}: the GC goal was completed but resume_mutators was not called", at()));
                    }
                    in_gc = false;
                }
                if goal == Some(2) || goal == Some(1) {
                    stop_goal_active = false;
                }
                goal = None;
            }
            "park" => {
                let Some(w) = w_of(e) else { continue };
                f.parks += 1;
                if running[w].is_some() {
                    return fail("sched:park_while_running", format!("{}: worker {} parks while its packet {:?} is running", at(), w, running[w]));
                }
                parked[w] = true;
                if (e.b == 1) != (parked.iter().all(|p| *p)) && !exited.iter().any(|x| *x) {
                    return fail("sched:last_parked_miscount", format!("{}: all_parked = {} but the parked set is {:?}", at(), e.b, parked));
                }
                if e.b == 1 {
                    deciding = Some(w);
                }
            }
            "last_parked" => {
                f.last_parked_decisions += 1;
                if deciding != w_of(e) {
                    return fail("sched:last_parked_by_other", at());
                }
                deciding = None;
                designated_pending = false;
            }
            "designated_pending" => designated_pending = e.a != 0,
            "designated_pop" => {
                // a designated packet is accounted for when its worker takes it (the pushes are
                // not logged); that none is left behind is checked at the last-parked decisions
                *added.entry(e.tag).or_insert(0) += 1;
                total_added += 1;
                f.packets += 1;
            }
            "unpark" => {
                let Some(w) = w_of(e) else { continue };
                parked[w] = false;
            }
            "bucket_enabled" => {}
            "bucket_add" => {
                for _ in 0..e.b {
                    pending_bucket_adds.push(e.a);
                }
            }
            "packet_add" => {
                *added.entry(e.tag).or_insert(0) += 1;
                total_added += 1;
                f.packets += 1;
                // b: 0 = bucket queue (the stage was announced by bucket_add), 1 = local queue of
                // an open bucket, 2 = designated
                if e.b == 0 {
                    let Some(stage) = pending_bucket_adds.pop() else {
                        return fail("stage:log", format!("{}: packet_add without bucket_add", at()));
                    };
                    if !open[stage] {
                        closed_pending[stage] += 1;
                    }
                } else if e.b == 1 && !open[e.a] {
                    return fail("stage:local_add_to_closed_bucket", format!("{}: a packet for the closed bucket {} was put into a worker's local queue", at(), stage_name(e.a)));
                }
                if !in_gc && !matches!(short(e.tag).as_str(), "ScheduleCollection") && stage_is_gc_only(e) {
                    return fail("stage:add_outside_gc", format!("{}: packet {} added while no GC is in progress", at(), short(e.tag)));
                }
            }
            "packet_start" => {
                let Some(w) = w_of(e) else { continue };
                let s = started.entry(e.tag).or_insert(0);
                *s += 1;
                if *s > *added.get(e.tag).unwrap_or(&0) {
                    return fail("stage:packet_run_twice_or_never_added", format!("{}: packet {} started {} times but only {} were added", at(), short(e.tag), s, added.get(e.tag).unwrap_or(&0)));
                }
                if parked[w] {
                    return fail("sched:run_while_parked", at());
                }
                if let Some(r) = running[w] {
                    return fail("stage:nested_packet", format!("{}: worker {} starts {} while {} is running", at(), w, short(e.tag), short(r)));
                }
                if !in_gc {
                    return fail("stage:packet_outside_gc", format!("{}: packet {} started while no GC is in progress", at(), short(e.tag)));
                }
                if resumed_this_gc {
                    return fail("stage:packet_after_resume", format!("{}: packet {} started after resume_mutators of its GC", at(), short(e.tag)));
                }
                running[w] = Some(e.tag);
            }
            "packet_end" => {
                let Some(w) = w_of(e) else { continue };
                if running[w] != Some(e.tag) {
                    return fail("stage:log", format!("{}: packet_end without matching start", at()));
                }
                running[w] = None;
                *ended.entry(e.tag).or_insert(0) += 1;
                total_ended += 1;
            }
            "bucket_open" => {
                let s = e.a;
                if open[s] {
                    // opening an open bucket is harmless (notify_mutators_paused asserts it is not)
                    continue;
                }
                if s == concurrent {
                    open[s] = true;
                    continue;
                }
                if !in_gc {
                    return fail("stage:open_outside_gc", format!("{}: bucket {} opened while no GC is in progress", at(), stage_name(s)));
                }
                if s == first_stw {
                    if !stopped_this_gc {
                        return fail("stage:first_bucket_before_stop", format!("{}: the first STW bucket opened before the mutators were stopped", at()));
                    }
                } else {
                    let w = w_of(e);
                    if deciding.is_none() || deciding != w {
                        return fail("stage:open_outside_last_parked", format!("{}: bucket {} was opened outside the last-parked decision (parked workers: {:?})", at(), stage_name(s), parked));
                    }
                    if !parked.iter().all(|p| *p) {
                        return fail("stage:open_while_workers_active", format!("{}: bucket {} opened while not all workers are parked: {:?}", at(), stage_name(s), parked));
                    }
                    if let Some((w, r)) = running.iter().enumerate().find_map(|(w, r)| r.map(|r| (w, r))) {
                        return fail("stage:open_while_packet_running", format!("{}: bucket {} opened while worker {} runs {}", at(), stage_name(s), w, short(r)));
                    }
                    if designated_pending {
                        return fail("stage:open_with_designated_work_pending", format!("{}: bucket {} opened although some worker still has designated work", at(), stage_name(s)));
                    }
                    // everything that is not waiting in a still closed bucket has been executed
                    let waiting: usize = (0..n_stages).filter(|t| !open[*t]).map(|t| closed_pending[t]).sum();
                    if total_ended + waiting != total_added {
                        let behind: Vec<String> = added.iter().filter(|(k, n)| ended.get(*k).unwrap_or(&0) != *n).map(|(k, n)| format!("{}: {} added, {} executed", short(k), n, ended.get(k).unwrap_or(&0))).collect();
                        return fail("stage:open_with_earlier_work_pending", format!("{}: bucket {} opened while {} packets of earlier buckets / worker queues have not been executed ({} added, {} executed, {} waiting in closed buckets; per type: {:?})", at(), stage_name(s), total_added - waiting - total_ended, total_added, total_ended, waiting, behind));
                    }
                    // in order: no later sequential bucket is open already
                    if let Some(t) = (s + 1..n_stages).find(|t| open[*t] && is_stw(*t)) {
                        return fail("stage:open_out_of_order", format!("{}: bucket {} opened after the later bucket {}", at(), stage_name(s), stage_name(t)));
                    }
                    if !open[first_stw] {
                        return fail("stage:open_out_of_order", format!("{}: bucket {} opened before the first STW bucket", at(), stage_name(s)));
                    }
                }
                open[s] = true;
                closed_pending[s] = 0;
            }
            "bucket_close" => {
                let s = e.a;
                open[s] = false;
            }
            "sentinel_set" => sentinel_set[e.a] += 1,
            "sentinel_scheduled" => {
                sentinel_sched[e.a] += 1;
                f.sentinels += 1;
                if !open[e.a] {
                    return fail("stage:sentinel_in_closed_bucket", format!("{}: sentinel of the closed bucket {} scheduled", at(), stage_name(e.a)));
                }
            }
            "find_more_work" | "update_buckets_opened" => {}
            "vm_stopped" => {
                stopped_this_gc = true;
            }
            "vm_weak_refs" => {}
            "gc_finished" => {
                if let Some(w) = w_of(e) {
                    f.gc_finished_by.push(w);
                }
                if deciding.is_none() {
                    return fail("stage:gc_finished_outside_last_parked", at());
                }
                if designated_pending {
                    return fail("stage:packet_not_executed_in_its_gc", format!("{}: the GC is declared finished although some worker still has designated work", at()));
                }
                if total_added != total_ended {
                    let behind: Vec<String> = added.iter().filter(|(k, n)| ended.get(*k).unwrap_or(&0) != *n).map(|(k, n)| format!("{}: {} added, {} executed", short(k), n, ended.get(k).unwrap_or(&0))).collect();
                    return fail("stage:packet_not_executed_in_its_gc", format!("{}: the GC is declared finished but {} of {} packets added during it were not executed: {:?}", at(), total_added - total_ended, total_added, behind));
                }
                for s in 0..n_stages {
                    if sentinel_set[s] != sentinel_sched[s] {
                        return fail("stage:sentinel_lost", format!("{}: {} sentinels were set for bucket {} but {} were scheduled", at(), sentinel_set[s], stage_name(s), sentinel_sched[s]));
                    }
                }
                for (n, (a, r)) in h_added.iter().zip(h_run.iter()).enumerate() {
                    if *a != 1 || *r != 1 {
                        return fail("stage:harness_packet_not_exactly_once", format!("{}: harness packet {} of pattern {} was added {} times and run {} times in this GC", at(), n, job.pattern.name(), a, r));
                    }
                }
            }
            "vm_resume" => {
                if !in_gc || resumed_this_gc {
                    return fail("sched:resume_outside_gc", at());
                }
                resumed_this_gc = true;
                for s in 0..n_stages {
                    if is_stw(s) && open[s] {
                        return fail("stage:not_closed_at_gc_end", format!("{}: bucket {} is still open when the mutators are resumed", at(), stage_name(s)));
                    }
                }
                if let Some((w, r)) = running.iter().enumerate().find_map(|(w, r)| r.map(|r| (w, r))) {
                    return fail("stage:packet_running_at_resume", format!("{}: worker {} still runs {}", at(), w, short(r)));
                }
                h_added.iter_mut().for_each(|x| *x = 0);
                h_run.iter_mut().for_each(|x| *x = 0);
            }
            "gc_finished_end" => {}
            "h_add" => {
                if e.a < h_added.len() {
                    h_added[e.a] += 1;
                }
            }
            "h_run" => {
                if e.a < h_run.len() {
                    h_run[e.a] += 1;
                    f.harness_runs.push((e.a, e.b));
                    if h_run[e.a] > h_added[e.a] {
                        return fail("stage:harness_packet_not_exactly_once", format!("{}: harness packet {} run {} times, added {} times", at(), e.a, h_run[e.a], h_added[e.a]));
                    }
                }
            }
            // ---- fork protocol
            "surrender" => {
                f.surrenders += 1;
                if e.a < workers {
                    surrendered[e.a] += 1;
                    if surrendered[e.a] > spawned[e.a] + 1 {
                        return fail("fork:surrendered_twice", format!("{}: worker {} surrendered its GCWorker {} times", at(), e.a, surrendered[e.a]));
                    }
                }
                if !stop_goal_active {
                    return fail("fork:surrender_without_request", at());
                }
            }
            "worker_exit" => {
                if let Some(w) = w_of(e) {
                    exited[w] = true;
                    if running[w].is_some() || parked[w] {
                        return fail("fork:exit_in_bad_state", format!("{}: worker {} exits while parked = {} / running = {:?}", at(), w, parked[w], running[w]));
                    }
                }
            }
            "all_exited" => {
                if !exited.iter().all(|x| *x) {
                    return fail("fork:all_exited_early", format!("{}: on_all_workers_exited ran while only {:?} have exited", at(), exited));
                }
            }
            "thread_returned" => {
                if e.a < workers {
                    returned[e.a] += 1;
                }
            }
            "respawn" => {}
            "spawn" => {
                f.spawns += 1;
                if e.a < workers {
                    spawned[e.a] += 1;
                    if !exited[e.a] {
                        return fail("fork:respawn_of_live_worker", format!("{}: worker {} respawned although its thread has not exited", at(), e.a));
                    }
                    exited[e.a] = false;
                }
            }
            "worker_run" => {}
            _ => {}
        }
    }
    // ---- end of the execution
    if goal.is_some() {
        return fail("sched:goal_pending_at_quiescence", format!("goal {:?} is still current when all threads are quiescent", goal));
    }
    if gc_requests_pending != 0 {
        return fail("sched:request_not_served", format!("{} GC request(s) were made but never became the workers' goal", gc_requests_pending));
    }
    if job.kind == Kind::Req2 {
        // two concurrent requests are served by one collection (coalesced) or by two
        if f.collections < 1 || f.collections > 2 {
            return fail("sched:collection_count", format!("two mutators made one request each, {} collections ran", f.collections));
        }
    } else if f.collections != job.kind.requests() {
        return fail("sched:collection_count", format!("{} requests were made, {} collections ran", job.kind.requests(), f.collections));
    }
    // forkreq: the request made concurrently with prepare_to_fork is served by a collection that
    // stopped the world after it was made (before or after the fork round trip)
    if job.kind == Kind::Forkreq {
        let Some(i) = events.iter().position(|e| e.name == "m_request" && e.a == 0) else {
            return fail("sched:request_not_made", "the requesting thread never made its request".to_string());
        };
        let Some(j) = events.iter().position(|e| e.name == "m_return" && e.a == 0) else {
            return fail("sched:request_not_served", format!("the collection request made at event #{} (concurrently with prepare_to_fork) never returned", i));
        };
        if events[j].b != 1 {
            return fail("sched:request_ignored", format!("the forced collection request made concurrently with prepare_to_fork returned false (event #{})", j));
        }
        let stop = events[i..j].iter().position(|e| e.name == "vm_stopped").map(|k| i + k);
        if !stop.map(|s0| events[s0..j].iter().any(|e| e.name == "vm_resume")).unwrap_or(false) {
            return fail("sched:request_not_served", format!("the request (event #{}) returned at event #{} although no collection stopped the world after it and resumed the mutators before the return", i, j));
        }
    }
    // C11 (req2): a forced request is not refused, and the requesting mutator is blocked until a
    // collection that stopped the world after the request has resumed the mutators
    if job.kind == Kind::Req2 {
        for m in 0..2usize {
            let Some(i) = events.iter().position(|e| e.name == "m_request" && e.a == m) else {
                return fail("c11:request_not_made", format!("mutator {} never made its request", m));
            };
            let Some(j) = events.iter().position(|e| e.name == "m_return" && e.a == m) else {
                return fail("c11:request_did_not_return", format!("mutator {}'s handle_user_collection_request never returned", m));
            };
            if events[j].b != 1 {
                return fail("c11:forced_request_refused", format!("mutator {}'s handle_user_collection_request(force = true) returned false (event #{}): the request was made at event #{}; stop / resume events in between: {:?}", m, j, i, events[i..j].iter().filter(|e| e.name == "vm_stopped" || e.name == "vm_resume").map(|e| e.name).collect::<Vec<_>>()));
            }
            let stop = events[i..j].iter().position(|e| e.name == "vm_stopped").map(|k| i + k);
            let served = stop.map(|s0| events[s0..j].iter().any(|e| e.name == "vm_resume")).unwrap_or(false);
            if !served {
                return fail("c11:returned_before_gc_end", format!("mutator {}'s request (event #{}) returned true at event #{} although no collection stopped the world after the request and resumed the mutators before the return", m, i, j));
            }
        }
    }
    if !parked.iter().all(|p| *p) {
        return fail("sched:not_all_parked_at_quiescence", format!("parked workers at the end: {:?}", parked));
    }
    for s in 0..n_stages {
        if is_stw(s) && open[s] {
            return fail("stage:not_closed_at_gc_end", format!("bucket {} is open at quiescence", stage_name(s)));
        }
    }
    let fork_rounds = match job.kind {
        Kind::Fork { rounds, .. } => Some(rounds),
        Kind::Forkreq => Some(1),
        _ => None,
    };
    if let Some(rounds) = fork_rounds {
        for w in 0..workers {
            if surrendered[w] != rounds || spawned[w] != rounds || returned[w] != rounds {
                return fail("fork:round_trip_count", format!("worker {}: {} fork round trips, but it surrendered {} times, its thread returned from start_worker {} times and it was respawned {} times", w, rounds, surrendered[w], returned[w], spawned[w]));
            }
        }
    }
    Ok(f)
}

fn stage_is_gc_only(_e: &Event) -> bool {
    // packets for any bucket may be added between collections by barriers (ProcessModBuf); the
    // scenarios have no such mutator activity, so every add outside a GC is unexpected
    true
}

/// The real scheduler state at a quiescent point.
pub fn check_quiescent_state(mmtk: &'static MMTK<VerifVM>, workers: usize, workers_alive: bool) -> Result<(), Fail> {
    for b in view::buckets(mmtk) {
        if b.is_stw && b.open {
            return fail("stage:not_closed_at_gc_end", format!("bucket {} is open at quiescence", b.name));
        }
        if b.is_stw && !b.empty {
            return fail("stage:not_empty_at_gc_end", format!("bucket {} is not empty at quiescence", b.name));
        }
        if b.name == "Unconstrained" && !b.empty {
            return fail("sched:parked_with_work", format!("all workers wait while the always-open bucket {} holds packets", b.name));
        }
        if b.has_sentinel {
            return fail("stage:sentinel_lost", format!("bucket {} still has a sentinel at quiescence", b.name));
        }
    }
    if view::has_designated_work(mmtk) {
        return fail("sched:parked_with_work", "all workers wait while designated work exists".to_string());
    }
    if view::gc_requested(mmtk) {
        return fail("sched:request_flag_stuck", "the GC trigger's request flag is still set at quiescence".to_string());
    }
    match view::monitor(mmtk) {
        None => return fail("sched:monitor_locked_at_quiescence", "the worker monitor's mutex is held at quiescence".to_string()),
        Some((n, parked, goal, requested)) => {
            if goal.is_some() || requested != 0 {
                return fail("sched:goal_pending_at_quiescence", format!("worker monitor at quiescence: current goal {:?}, requested mask {:#b}", goal, requested));
            }
            let want = if workers_alive { workers } else { 0 };
            if n != workers || parked != want {
                return fail("sched:not_all_parked_at_quiescence", format!("worker monitor at quiescence: {} of {} workers parked, expected {}", parked, n, want));
            }
        }
    }
    Ok(())
}

// ---------------------------------------------------------------------------------------------
// the child process

struct Progress {
    coverage: Run,
    case: Value,
}

static PROGRESS: Mutex<Option<Progress>> = Mutex::new(None);

fn arming() -> Arming {
    let mut a = Arming::default();
    a.class(Class::Sync);
    a.class(Class::Sched);
    a.log_events = true;
    a
}

const HORIZON: usize = 50_000;
const LIVELOCK: u32 = 200;

fn scenario_sig(class_clause: &str, job: &Job) -> String {
    format!("{}:{}", class_clause, job.kind.scenario())
}

pub struct Child {
    pub cfg: ChildCfg,
    pub inst: Arc<Inst>,
    pub world: World,
    pub executions: u64,
    /// shadow id of the first ephemeron value (reachable only through the ephemeron table): the
    /// object the racers of `Kind::Race` trace
    pub race_obj: Option<u64>,
}

/// State of the current `Kind::Race` execution (filled by the copy oracle and the racers).
#[derive(Default)]
struct RaceState {
    obj: usize,
    racers: usize,
    /// destinations of the copies of `obj`
    copies: Vec<usize>,
    /// (racer, worker ordinal, result of trace_object)
    rets: Vec<(usize, usize, usize)>,
}

static RACE: Mutex<Option<RaceState>> = Mutex::new(None);

/// The addresses of the metadata of `obj` that the race is about: forwarding bits and forwarding
/// pointer; header metadata as the whole word, side metadata as the byte.  (Not the mark bit of
/// Immix: its byte is shared with the neighbouring objects, whose identity depends on where
/// earlier collections copied things, so the points of an execution would depend on the history
/// of the persistent instance; the racers touch the mark bit only while they hold the object in
/// state BEING_FORWARDED, so the forwarding word carries the whole race.  With side forwarding
/// bits no other object starts in the 32 bytes that share the byte: all objects here are >= 40
/// bytes.)
fn race_meta_ranges(obj: usize) -> Vec<(usize, usize)> {
    use mmtk::util::metadata::MetadataSpec;
    use mmtk::vm::ObjectModel;
    let mut v: Vec<(usize, usize)> = vec![];
    let mut add = |spec: MetadataSpec| match spec {
        MetadataSpec::InHeader(h) => {
            let a = ((obj as isize + h.bit_offset.div_euclid(8)) as usize) & !7;
            v.push((a, a + 8));
        }
        MetadataSpec::OnSide(sd) => {
            let a = mmtk::util::verif::c17::side_meta_address(&sd, unsafe { mmtk::util::Address::from_usize(obj) }).as_usize();
            v.push((a, a + 1));
        }
    };
    add(*VerifVM::LOCAL_FORWARDING_BITS_SPEC);
    add(*VerifVM::LOCAL_FORWARDING_POINTER_SPEC);
    v.sort();
    v.dedup();
    v
}

impl Child {
    /// Boot the instance under the baton (default schedule) and build the heap.
    pub fn boot(cfg: ChildCfg) -> Child {
        install_crash_handlers();
        let _ = crate::common::WORKER_PANIC_HANDLER.set(Box::new(worker_panic_to_crash));
        set_current_case(&json!({"cfg": cfg.json(), "job": "boot"}));
        let inst = Inst::new();
        inst.adopt_current(0);
        let inst2 = inst.clone();
        let _ = vm::GC_THREAD_SPAWNER.set(Box::new(move |ordinal, body| {
            inst2.spawn(1 + ordinal, &format!("gcworker-{}", ordinal), move || {
                body();
                rt::event("thread_returned", ordinal, 0);
            })
        }));
        let _ = vm::UPCALL_HOOK.set(Box::new(upcall));
        inst.set_on_stuck(Box::new(on_stuck));
        inst.begin_execution(Prefix::default(), arming(), HORIZON, LIVELOCK);
        let mut boot = BootCfg::new(&cfg.plan);
        boot.workers = cfg.workers;
        boot.heap_bytes = 8 << 20;
        if !cfg.refs {
            boot.options.push(("no_finalizer".into(), "true".into()));
            boot.options.push(("no_reference_types".into(), "true".into()));
        }
        for (k, v) in &cfg.options {
            boot.options.push((k.clone(), v.clone()));
        }
        let _ = vm::COPY_ORACLE.set(Box::new(|from, to, _bytes| {
            if let Some(r) = RACE.lock().unwrap_or_else(|p| p.into_inner()).as_mut() {
                if r.obj == from {
                    r.copies.push(to);
                    rt::event("race_copy", to, 0);
                }
            }
        }));
        let mut world = World::boot(boot);
        let _ = STAGE_TABLE.set(view::buckets(world.mmtk).iter().map(|b| b.name.clone()).collect());
        for m in 1..cfg.mutators {
            world.bind(m);
        }
        inst.quiesce();
        let _ = inst.end_execution();
        // the heap: root0 -> A -> B, root1 -> C, root2 -> K with an ephemeron chain K => V1 => ...
        let mut race_obj: Option<u64> = None;
        let mut build = |w: &mut World| -> Result<(), crate::shadowvm::Fail> {
            let a = w.alloc_obj(0, 0, 40, 1, 8, Sem::Default, false)?.unwrap();
            let b = w.alloc_obj(0, 3, 40, 1, 8, Sem::Default, false)?.unwrap();
            w.write_field(0, a, 0, Some(b));
            w.drop_root(0, 3);
            w.alloc_obj(0, 1, 48, 1, 8, Sem::Default, false)?;
            if cfg.eph_chain > 0 {
                let k = w.alloc_obj(0, 2, 40, 1, 8, Sem::Default, false)?.unwrap();
                let mut key = k;
                for _ in 0..cfg.eph_chain {
                    // value -> child: the child is only reached when the value's scan packet has
                    // run, i.e. when the closure spawned by process_weak_refs is complete
                    let v = w.alloc_obj(0, 3, 40, 1, 8, Sem::Default, false)?.unwrap();
                    if race_obj.is_none() {
                        race_obj = Some(v);
                    }
                    let x = w.alloc_obj(0, 4, 40, 1, 8, Sem::Default, false)?.unwrap();
                    w.write_field(0, v, 0, Some(x));
                    w.drop_root(0, 4);
                    w.add_ephemeron(key, v);
                    w.drop_root(0, 3);
                    key = v;
                }
            }
            // garbage, so that every collection has something to reclaim the first time
            w.alloc_obj(0, 3, 40, 1, 8, Sem::Default, false)?;
            w.drop_root(0, 3);
            Ok(())
        };
        if !cfg.bare {
            if let Err((s, m)) = build(&mut world) {
                machinery_failure(&format!("scheduler scenarios: building the heap failed: {} {}", s, m));
            }
            world.expect_weak_stages = true;
        }
        Child { cfg, inst, world, executions: 0, race_obj }
    }

    fn workers_waiting(&self) -> Result<(), String> {
        let waiting = self.inst.waiting_threads();
        if waiting.len() != self.cfg.workers || !waiting.iter().all(|(_, op)| matches!(op, Op::CondWake { .. })) {
            return Err(format!("{:?}", waiting.iter().map(|(t, op)| format!("t{}:{}", t, op.name())).collect::<Vec<_>>()));
        }
        Ok(())
    }

    fn request_gc(&mut self) -> bool {
        // what World::gc does before the request
        let stages: Vec<Vec<usize>> = self.world.shadow_reachable_stages().iter().map(|st| st.iter().map(|id| self.world.shadow.objs[id].addr).collect()).collect();
        // in a race execution the racers have traced the first ephemeron value before the binding's
        // (counted) weak processing starts: it needs one round less
        self.world.expected_weak_calls = Some(stages.len() - if vm::TRACE_FANOUT.lock().unwrap().is_some() { 1 } else { 0 });
        self.world.gc_traced_whole_heap = true;
        vm::with_state(|s| s.expected_stages = stages);
        vm::note_request_base();
        self.world.mmtk.handle_user_collection_request(vm::mutator_tls(0), true, true)
    }

    /// Scenario `satb` (C12).  Returns the first failure.
    fn satb_execution(&mut self, job: &Job) -> Option<Fail> {
        use crate::vm::{obj_id, obj_nrefs, obj_size, read_word};
        const SZ: usize = 1024; // 4 Immix lines: a wrongly freed object has lines that get reused
        const LOS: usize = 1 << 20;
        macro_rules! tri {
            ($e:expr) => {
                match $e {
                    Ok(v) => v,
                    Err((s, m)) => return Some((format!("heap:{}", s), m)),
                }
            };
        }
        let inst = self.inst.clone();
        let gcs = || vm::with_state(|s| s.gc_count);
        let in_marking = |w: &World| -> bool { w.mmtk.get_plan().concurrent().map(|c| c.concurrent_work_in_progress()).unwrap_or(false) };
        let w = &mut self.world;
        w.expected_weak_calls = None;
        vm::with_state(|s| s.expected_stages.clear());
        // 1. the graph
        let a = tri!(w.alloc_obj(0, 0, SZ, 1, 8, Sem::Default, false)).unwrap();
        let b = tri!(w.alloc_obj(0, 1, SZ, 1, 8, Sem::Default, false)).unwrap();
        let c = tri!(w.alloc_obj(0, 2, SZ, 1, 8, Sem::Default, false)).unwrap();
        let d = tri!(w.alloc_obj(0, 3, SZ, 1, 8, Sem::Default, false)).unwrap();
        w.write_field(0, a, 0, Some(b));
        w.write_field(0, b, 0, Some(c));
        w.drop_root(0, 1);
        w.drop_root(0, 2);
        let mut ids: Vec<(char, u64)> = vec![('A', a), ('B', b), ('C', c), ('D', d)];
        // the objects do not move during a concurrent cycle; the shadow heap forgets the ones that
        // become unreachable, so the scenario keeps their addresses itself ("weak handles")
        let mut addrs: Vec<(char, usize)> = ids.iter().map(|(ch, id)| (*ch, w.shadow.objs[id].addr)).collect();
        // the scheduling points on the objects' mark and log bits: one side-metadata byte covers
        // 64 bytes of heap, so with line-aligned objects of 4 lines no byte is shared
        let arm = |w: &World, id: u64| {
            use mmtk::util::metadata::MetadataSpec;
            use mmtk::vm::ObjectModel;
            let addr = w.shadow.objs[&id].addr;
            if addr % 256 != 0 {
                machinery_failure(&format!("satb scenario: object at {:#x} is not line-aligned (the scenario assumes that no two objects share a metadata byte)", addr));
            }
            for spec in [*VerifVM::LOCAL_MARK_BIT_SPEC, *VerifVM::GLOBAL_LOG_BIT_SPEC] {
                if let MetadataSpec::OnSide(sd) = spec {
                    let m = mmtk::util::verif::c17::side_meta_address(&sd, unsafe { mmtk::util::Address::from_usize(addr) }).as_usize();
                    inst.arm_range(m, m + 1);
                }
            }
        };
        for (_, id) in &ids {
            arm(w, *id);
        }
        // 2. the initial-mark pause: allocate (garbage) large objects until a collection has run
        SATB_HOLD.store(true, std::sync::atomic::Ordering::SeqCst);
        let before = gcs();
        let mut n = 0;
        while gcs() == before {
            tri!(w.alloc_obj(0, 7, LOS, 0, 8, Sem::Default, false));
            w.drop_root(0, 7);
            n += 1;
            if n > 16 {
                machinery_failure("satb scenario: 16 MiB of allocation did not trigger a collection");
            }
        }
        if gcs() != before + 1 || !in_marking(w) {
            machinery_failure(&format!("satb scenario: the allocation burst caused {} pause(s), concurrent marking in progress = {}: expected the initial-mark pause", gcs() - before, in_marking(w)));
        }
        SATB_HOLD.store(false, std::sync::atomic::Ordering::SeqCst);
        rt::event("satb_marking_started", n, 0);
        let dbg = std::env::var("SATB_DEBUG").is_ok();
        let dump = |w: &World, ids: &Vec<(char, u64)>, when: &str| {
            if !dbg {
                return;
            }
            use mmtk::vm::ObjectModel;
            let mut line = format!("[satb] {:<28}", when);
            for (ch, id) in ids {
                if let Some(o) = w.shadow.objs.get(id) {
                    let r = mmtk::util::ObjectReference::from_raw_address(unsafe { mmtk::util::Address::from_usize(o.addr) }).unwrap();
                    let log = VerifVM::GLOBAL_LOG_BIT_SPEC.load_atomic::<VerifVM, u8>(r, None, std::sync::atomic::Ordering::SeqCst);
                    #[cfg(feature = "vo_bit")]
                    let vo = mmtk::memory_manager::is_mmtk_object(unsafe { mmtk::util::Address::from_usize(o.addr) }).is_some();
                    #[cfg(not(feature = "vo_bit"))]
                    let vo = true;
                    line.push_str(&format!(" {}@{:x}[reach={} unlog={} vo={} f={:x}]", ch, o.addr & 0xfffff, r.is_reachable() as u8, log, vo as u8, read_word(unsafe { mmtk::util::Address::from_usize(o.addr + 24) }) & 0xfffff));
                } else {
                    line.push_str(&format!(" {}[forgotten]", ch));
                }
            }
            eprintln!("{}", line);
        };
        dump(w, &ids, "marking started");
        // 3. the mutator program, racing with the concurrent marking packets
        let marked = |addrs: &Vec<(char, usize)>| -> usize { addrs.iter().take(4).filter(|(_, a)| mmtk::util::ObjectReference::from_raw_address(unsafe { mmtk::util::Address::from_usize(*a) }).unwrap().is_reachable()).count() };
        let marked_at_start = marked(&addrs);
        let mut model = SatbModel::new();
        let cycle_pauses = gcs();
        // the cycle can end inside the program: an allocating op polls, and when the marking is
        // already complete that poll is the final-mark pause.  What the program does after that is
        // outside the snapshot's cycle: such executions only get the shadow-heap checks.
        let mut ended_early = false;
        let id_of = |ids: &Vec<(char, u64)>, ch: char| ids.iter().find(|x| x.0 == ch).map(|x| x.1).unwrap();
        self.inst.set_explore(true);
        for op in &job.prog {
            baton::step(10 + *op as u32);
            let cur_af = model.af;
            if !model.apply(*op) {
                machinery_failure(&format!("satb scenario: op {} of program {:?} is not applicable", op, job.prog));
            }
            match *op {
                0 => w.write_field(0, a, 0, None),
                1 => {
                    w.write_field(0, d, 0, Some(id_of(&ids, cur_af.unwrap())));
                    w.drop_root(0, 3);
                }
                2 => {
                    let e = tri!(w.alloc_obj(0, 4, SZ, 1, 8, Sem::Default, false)).unwrap();
                    ids.push(('E', e));
                    addrs.push(('E', w.shadow.objs[&e].addr));
                    arm(w, e);
                }
                3 => w.write_field(0, id_of(&ids, 'E'), 0, Some(c)),
                4 => w.write_field(0, a, 0, Some(id_of(&ids, 'E'))),
                5 => w.set_root(0, 5, Some(id_of(&ids, cur_af.unwrap()))),
                _ => {}
            }
            dump(w, &ids, &format!("after op {}", SATB_OPS[*op as usize]));
            if gcs() != cycle_pauses || !in_marking(w) {
                ended_early = true;
            }
        }
        baton::step(9);
        self.inst.set_explore(false);
        let marking_after_program = in_marking(w);
        *SATB_OUT.lock().unwrap() = format!("marked_at_start={};marked_at_end={}{}", marked_at_start, if ended_early { 4 } else { marked(&addrs) }, if ended_early { ";cycle_ended_in_program" } else { "" });
        // the snapshot: every object that was reachable when marking started, or was allocated
        // during marking, must survive this cycle untouched (SATB)
        let snap: Vec<(char, usize, Vec<usize>)> = addrs.iter().map(|(ch, addr)| {
            let words: Vec<usize> = (1..SZ / 8).map(|k| read_word(unsafe { mmtk::util::Address::from_usize(addr + 8 * k) })).collect();
            (*ch, *addr, words)
        }).collect();
        // let the marking finish
        self.inst.quiesce();
        dump(w, &ids, "marking finished");
        if ended_early {
            rt::event("satb_cycle_ended_in_program", 0, 0);
            // (the same tail as below without the snapshot checks)
            tri!(w.gc(0, true));
            for r in 0..8 {
                w.drop_root(0, r);
            }
            tri!(w.gc(0, true));
            return None;
        }
        // 4. the final-mark pause: the next poll
        let before = gcs();
        let mut n = 0;
        while gcs() == before {
            tri!(w.alloc_obj(0, 7, 64 << 10, 0, 8, Sem::Default, false));
            w.drop_root(0, 7);
            n += 1;
            if n > 64 {
                machinery_failure("satb scenario: no final-mark pause after the concurrent marking had finished");
            }
        }
        if in_marking(w) {
            machinery_failure("satb scenario: concurrent marking still in progress after the pause that should have been the final mark");
        }
        rt::event("satb_final_mark_done", n, marking_after_program as usize);
        dump(w, &ids, "after the final-mark pause");
        let check = |when: &str| -> Option<Fail> {
            for (ch, addr, words) in &snap {
                for (k, wv) in words.iter().enumerate() {
                    let now = read_word(unsafe { mmtk::util::Address::from_usize(addr + 8 * (k + 1)) });
                    if now != *wv {
                        let o = mmtk::util::ObjectReference::from_raw_address(unsafe { mmtk::util::Address::from_usize(*addr) }).unwrap();
                        return Some(("satb:snapshot_object_damaged".into(), format!("{}: object {} at {:#x} (reachable when marking started or allocated during marking) changed: word {} was {:#x}, is {:#x} (id word now {}, size {}, nrefs {})", when, ch, addr, k + 1, wv, now, obj_id(o), obj_size(o), obj_nrefs(o))));
                    }
                }
                #[cfg(feature = "vo_bit")]
                {
                    // (SATB_NO_VO: debugging aid to exercise the content clause alone)
                    if std::env::var("SATB_NO_VO").is_err() && !mmtk::memory_manager::is_mmtk_object(unsafe { mmtk::util::Address::from_usize(*addr) }).is_some() {
                        return Some(("satb:snapshot_object_not_an_object".into(), format!("{}: object {} at {:#x} is no longer an MMTk object", when, ch, addr)));
                    }
                }
            }
            None
        };
        if let Some(f) = check("right after the final-mark pause") {
            return Some(f);
        }
        // 5. reuse what the cycle freed: one block's worth of line-sized objects
        let before = gcs();
        for _ in 0..160 {
            tri!(w.alloc_obj(0, 6, 256, 0, 8, Sem::Default, false));
            w.drop_root(0, 6);
        }
        if gcs() != before {
            machinery_failure("satb scenario: the line-reusing burst triggered a collection");
        }
        if let Some(f) = check("after the allocation burst that reuses the lines freed by the cycle") {
            return Some(f);
        }
        // 6. a full collection (the reachable part is verified against the shadow heap), then
        //    everything is dropped and collected: the next execution starts from an empty heap
        tri!(w.gc(0, true));
        for r in 0..8 {
            w.drop_root(0, r);
        }
        tri!(w.gc(0, true));
        None
    }


    /// Scenario `satb2` (C12, two mutators).  Returns the first failure.
    fn satb2_execution(&mut self, job: &Job) -> Option<Fail> {
        use crate::vm::{field_addr, obj_id, obj_nrefs, obj_size, read_word};
        const SZ: usize = 1024; // 4 Immix lines, as in `satb`
        const LOS: usize = 1 << 20;
        macro_rules! tri {
            ($e:expr) => {
                match $e {
                    Ok(v) => v,
                    Err((s, m)) => return Some((format!("heap:{}", s), m)),
                }
            };
        }
        struct PointsOff;
        impl Drop for PointsOff {
            fn drop(&mut self) {
                vm::SCAN_SLOT_POINTS.store(false, std::sync::atomic::Ordering::SeqCst);
            }
        }
        let _points_off = PointsOff;
        let inst = self.inst.clone();
        let gcs = || vm::with_state(|s| s.gc_count);
        let in_marking = |w: &World| -> bool { w.mmtk.get_plan().concurrent().map(|c| c.concurrent_work_in_progress()).unwrap_or(false) };
        let tid = 1 + self.cfg.workers;
        let w = &mut self.world;
        w.expected_weak_calls = None;
        vm::with_state(|s| s.expected_stages.clear());
        // 1. the graph (all of it built by mutator 0): root0 -> A, A.f -> B -> C, A.g -> G
        let a = tri!(w.alloc_obj(0, 0, SZ, 2, 8, Sem::Default, false)).unwrap();
        let b = tri!(w.alloc_obj(0, 1, SZ, 1, 8, Sem::Default, false)).unwrap();
        let c = tri!(w.alloc_obj(0, 2, SZ, 1, 8, Sem::Default, false)).unwrap();
        let g = tri!(w.alloc_obj(0, 3, SZ, 1, 8, Sem::Default, false)).unwrap();
        w.write_field(0, a, 0, Some(b));
        w.write_field(0, b, 0, Some(c));
        w.write_field(0, a, 1, Some(g));
        w.drop_root(0, 1);
        w.drop_root(0, 2);
        w.drop_root(0, 3);
        let ids: Vec<(char, u64)> = vec![('A', a), ('B', b), ('C', c), ('G', g)];
        let addrs: Vec<(char, usize)> = ids.iter().map(|(ch, id)| (*ch, w.shadow.objs[id].addr)).collect();
        let addr_of = |ch: char| addrs.iter().find(|x| x.0 == ch).map(|x| x.1).unwrap();
        for (_, addr) in &addrs {
            use mmtk::util::metadata::MetadataSpec;
            use mmtk::vm::ObjectModel;
            if addr % 256 != 0 {
                machinery_failure(&format!("satb2 scenario: object at {:#x} is not line-aligned (the scenario assumes that no two objects share a metadata byte)", addr));
            }
            for spec in [*VerifVM::LOCAL_MARK_BIT_SPEC, *VerifVM::GLOBAL_LOG_BIT_SPEC] {
                if let MetadataSpec::OnSide(sd) = spec {
                    let m = mmtk::util::verif::c17::side_meta_address(&sd, unsafe { mmtk::util::Address::from_usize(*addr) }).as_usize();
                    inst.arm_range(m, m + 1);
                }
            }
        }
        // 2. the initial-mark pause: allocate (garbage) large objects until a collection has run
        SATB_HOLD.store(true, std::sync::atomic::Ordering::SeqCst);
        let before = gcs();
        let mut n = 0;
        while gcs() == before {
            tri!(w.alloc_obj(0, 7, LOS, 0, 8, Sem::Default, false));
            w.drop_root(0, 7);
            n += 1;
            if n > 16 {
                machinery_failure("satb2 scenario: 16 MiB of allocation did not trigger a collection");
            }
        }
        if gcs() != before + 1 || !in_marking(w) {
            machinery_failure(&format!("satb2 scenario: the allocation burst caused {} pause(s), concurrent marking in progress = {}: expected the initial-mark pause", gcs() - before, in_marking(w)));
        }
        SATB_HOLD.store(false, std::sync::atomic::Ordering::SeqCst);
        rt::event("satb_marking_started", n, 0);
        // 3. the two programs, racing with each other and with the concurrent marking packets.
        //    The reference fields of A are visible locations now: the stores of the programs and
        //    the loads of whoever scans A (the barrier of either mutator, the marker).
        let a_addr = addr_of('A');
        let a_ref = mmtk::util::ObjectReference::from_raw_address(unsafe { mmtk::util::Address::from_usize(a_addr) }).unwrap();
        let slots: Vec<usize> = (0..2).map(|i| field_addr(a_ref, i).as_usize()).collect();
        // (SATB2_NO_FIELD_POINTS: debugging aid, to see what the field points contribute)
        if std::env::var("SATB2_NO_FIELD_POINTS").is_err() {
            inst.arm_range(slots[0], slots[1] + 8);
            vm::SCAN_SLOT_POINTS.store(true, std::sync::atomic::Ordering::SeqCst);
        }
        let mu_of = |m: usize| -> usize {
            vm::with_state(|s| s.mutators.iter().find(|x| x.tls == vm::MUTATOR_TLS_BASE + m).map(|x| x.mutator as usize)).unwrap_or_else(|| machinery_failure("satb2 scenario: the child needs 2 bound mutators"))
        };
        let ops_of = |m: u8| -> Vec<(u8, usize, usize)> {
            job.prog.iter().filter(|o| **o / 16 == m && **o % 16 != SATB2_DESTROY).map(|o| {
                let (field, target) = satb2_op(*o % 16);
                (*o % 16, slots[field], target.map(&addr_of).unwrap_or(0))
            }).collect()
        };
        let destroy1 = job.prog.contains(&(16 + SATB2_DESTROY));
        if job.prog.contains(&SATB2_DESTROY) {
            machinery_failure("satb2 scenario: only mutator 1 can be destroyed (mutator 0 drives the pauses)");
        }
        let (p0, p1) = (ops_of(0), ops_of(1));
        let (mu0, mu1) = (mu_of(0), mu_of(1));
        let snapshot: Vec<usize> = addrs.iter().map(|x| x.1).collect();
        let marked_at_start = satb2_marked(&snapshot);
        *SATB2.lock().unwrap_or_else(|p| p.into_inner()) = Satb2State { done: [false; 2], in_op: [false; 2], overlap: false, snapshot, marked_at_close: 0 };
        let cycle_pauses = gcs();
        let inst1 = self.inst.clone();
        let h = self.inst.spawn(tid, "mutator-1", move || {
            satb2_run_program(&inst1, 1, mu1, a_addr, &p1, destroy1);
        });
        self.inst.set_explore(true);
        satb2_run_program(&inst, 0, mu0, a_addr, &p0, false);
        // mutator 0 is at a safepoint; wait (logically) until mutator 1 has finished its program
        // (its thread ends: from here on the harness thread plays both mutators again) and the
        // marking is complete
        self.inst.quiesce();
        let _ = h.join();
        vm::SCAN_SLOT_POINTS.store(false, std::sync::atomic::Ordering::SeqCst);
        if destroy1 {
            // mutator 1 is gone (the pauses that follow see mutator 0 only); `execute` binds a new
            // one when the execution is over
            w.shadow.roots[1] = None;
        }
        let (overlap, marked_at_close) = {
            let d = SATB2.lock().unwrap_or_else(|p| p.into_inner());
            if !(d.done[0] && d.done[1]) {
                machinery_failure(&format!("satb2 scenario: programs not finished at quiescence: {:?}", d.done));
            }
            (d.overlap, d.marked_at_close)
        };
        if gcs() != cycle_pauses || !in_marking(w) {
            machinery_failure("satb2 scenario: the cycle ended while the programs ran (they do not allocate)");
        }
        *SATB_OUT.lock().unwrap() = format!("marked_at_start={};marked_when_programs_ended={};overlap={}", marked_at_start, marked_at_close, overlap as u8);
        // the shadow heap learns what the fields of A hold now (with racing stores to one field:
        // whichever came last)
        for (i, slot) in slots.iter().enumerate() {
            let v = read_word(unsafe { mmtk::util::Address::from_usize(*slot) });
            let id = if v == 0 { None } else { Some(addrs.iter().zip(ids.iter()).find(|(x, _)| x.1 == v).map(|(_, y)| y.1).unwrap_or_else(|| machinery_failure(&format!("satb2 scenario: field {} of A holds {:#x}, which no program stored", i, v)))) };
            w.shadow.objs.get_mut(&a).unwrap().fields[i] = id;
        }
        // the snapshot: every object that was reachable when marking started must survive this
        // cycle untouched (SATB)
        let snap: Vec<(char, usize, Vec<usize>)> = addrs.iter().map(|(ch, addr)| {
            let words: Vec<usize> = (1..SZ / 8).map(|k| read_word(unsafe { mmtk::util::Address::from_usize(addr + 8 * k) })).collect();
            (*ch, *addr, words)
        }).collect();
        // 4. the final-mark pause: the next poll (of mutator 0; the pause visits both mutators, so
        //    what mutator 1's barrier has buffered reaches the collector)
        let before = gcs();
        let mut n = 0;
        while gcs() == before {
            tri!(w.alloc_obj(0, 7, 64 << 10, 0, 8, Sem::Default, false));
            w.drop_root(0, 7);
            n += 1;
            if n > 64 {
                machinery_failure("satb2 scenario: no final-mark pause after the concurrent marking had finished");
            }
        }
        if in_marking(w) {
            machinery_failure("satb2 scenario: concurrent marking still in progress after the pause that should have been the final mark");
        }
        rt::event("satb_final_mark_done", n, 1);
        let check = |when: &str| -> Option<Fail> {
            for (ch, addr, words) in &snap {
                for (k, wv) in words.iter().enumerate() {
                    let now = read_word(unsafe { mmtk::util::Address::from_usize(addr + 8 * (k + 1)) });
                    if now != *wv {
                        let o = mmtk::util::ObjectReference::from_raw_address(unsafe { mmtk::util::Address::from_usize(*addr) }).unwrap();
                        return Some(("satb:snapshot_object_damaged".into(), format!("{}: object {} at {:#x} (reachable when marking started) changed: word {} was {:#x}, is {:#x} (id word now {}, size {}, nrefs {})", when, ch, addr, k + 1, wv, now, obj_id(o), obj_size(o), obj_nrefs(o))));
                    }
                }
                #[cfg(feature = "vo_bit")]
                {
                    if std::env::var("SATB_NO_VO").is_err() && !mmtk::memory_manager::is_mmtk_object(unsafe { mmtk::util::Address::from_usize(*addr) }).is_some() {
                        return Some(("satb:snapshot_object_not_an_object".into(), format!("{}: object {} at {:#x} is no longer an MMTk object", when, ch, addr)));
                    }
                }
            }
            None
        };
        if let Some(f) = check("right after the final-mark pause") {
            return Some(f);
        }
        // 5. reuse what the cycle freed: one block's worth of line-sized objects
        let before = gcs();
        for _ in 0..160 {
            tri!(w.alloc_obj(0, 6, 256, 0, 8, Sem::Default, false));
            w.drop_root(0, 6);
        }
        if gcs() != before {
            machinery_failure("satb2 scenario: the line-reusing burst triggered a collection");
        }
        if let Some(f) = check("after the allocation burst that reuses the lines freed by the cycle") {
            return Some(f);
        }
        // 6. a full collection (the reachable part is verified against the shadow heap), then
        //    everything is dropped and collected: the next execution starts from an empty heap
        tri!(w.gc(0, true));
        for r in 0..8 {
            w.drop_root(0, r);
        }
        tri!(w.gc(0, true));
        None
    }

    /// Scenario `forkreq`.  Returns the first failure.
    fn fork_and_request(&mut self, heap_checks: &mut Vec<Result<(), crate::shadowvm::Fail>>) -> Option<Fail> {
        let workers = self.cfg.workers;
        // what `request_gc` prepares, for the one collection of the racing request
        let stages: Vec<Vec<usize>> = self.world.shadow_reachable_stages().iter().map(|st| st.iter().map(|id| self.world.shadow.objs[id].addr).collect()).collect();
        self.world.expected_weak_calls = Some(stages.len());
        self.world.gc_traced_whole_heap = true;
        vm::with_state(|s| s.expected_stages = stages);
        vm::note_request_base();
        let mmtk = self.world.mmtk;
        let tid = 1 + workers;
        // thread A: mutator 0 makes its request (it may stay blocked in block_for_gc across the
        // whole fork round trip: the binding keeps it blocked while the workers are gone)
        let h = self.inst.spawn(tid, "mutator-0", move || {
            rt::event("m_request", 0, 0);
            let r = mmtk.handle_user_collection_request(vm::mutator_tls(0), true, true);
            rt::event("m_return", 0, r as usize);
        });
        // the controller is the VM's forking thread
        rt::event("fork_request", 0, 0);
        mmtk.prepare_to_fork();
        // every worker thread must exit: wait (logically) until nothing can run
        self.inst.quiesce();
        let handles = vm::with_state(|s| std::mem::take(&mut s.worker_threads));
        let waiting: Vec<(usize, Op)> = self.inst.waiting_threads();
        let live: Vec<&(usize, Op)> = waiting.iter().filter(|(t, _)| *t != tid).collect();
        if !live.is_empty() {
            // they cannot be joined; put the handles back
            vm::with_state(|s| s.worker_threads = handles);
            return Some(("fork:worker_did_not_exit".into(), format!("after prepare_to_fork (with a collection request in flight) these worker threads are still waiting instead of having returned from start_worker: {:?}; the requesting thread is {}", live.iter().map(|(t, op)| format!("t{}:{}", t, op.name())).collect::<Vec<_>>(), if waiting.iter().any(|(t, _)| *t == tid) { "still blocked" } else { "done" })));
        }
        let a_blocked = waiting.iter().any(|(t, _)| *t == tid);
        for h in handles {
            let _ = h.join();
        }
        // between prepare_to_fork and after_fork: no worker, no goal; the collection request is
        // either served already or still pending (then the requesting thread is blocked)
        match view::monitor(mmtk) {
            None => return Some(("sched:monitor_locked_at_quiescence".into(), "the worker monitor's mutex is held while all workers are gone".into())),
            Some((n, parked, goal, requested)) => {
                if goal.is_some() || n != workers || parked != 0 {
                    return Some(("fork:monitor_after_exit".into(), format!("worker monitor after all workers exited: {} workers, {} parked, current goal {:?}", n, parked, goal)));
                }
                let gc_bit = requested & 1 != 0;
                if requested & !1 != 0 || (gc_bit && !a_blocked) {
                    return Some(("sched:goal_pending_at_quiescence".into(), format!("worker monitor after all workers exited: requested mask {:#b}, requesting thread blocked = {}", requested, a_blocked)));
                }
            }
        }
        if !a_blocked {
            if let Err(e) = check_quiescent_state(mmtk, workers, false) {
                return Some(e);
            }
        }
        rt::event("fork_after", a_blocked as usize, 0);
        mmtk.after_fork(vm::mutator_tls(0).0);
        // the respawned workers serve the request if it is still pending
        self.inst.quiesce();
        if self.inst.waiting_threads().iter().any(|(t, _)| *t == tid) {
            return Some(("sched:request_not_served".into(), format!("the collection request made concurrently with prepare_to_fork was never served: its thread is still blocked in block_for_gc after the workers were respawned (request pending across the fork = {}); GC request flag = {}, monitor = {:?}", a_blocked, view::gc_requested(mmtk), view::monitor(mmtk))));
        }
        let _ = h.join();
        heap_checks.push(self.world.after_possible_gc());
        // and a plain collection afterwards
        if !self.request_gc() {
            return Some(("sched:request_ignored".into(), "a forced user collection request was ignored".into()));
        }
        heap_checks.push(self.world.after_possible_gc());
        None
    }

    /// Scenario `req2`: both mutators make one forced request each.
    fn two_mutators_request(&mut self) {
        // two collections may run back to back: no per-collection expectations of the weak
        // reference monitor (the heap does not change in between; it is verified afterwards)
        self.world.expected_weak_calls = None;
        self.world.gc_traced_whole_heap = true;
        vm::with_state(|s| s.expected_stages.clear());
        vm::multi_begin(2);
        let mmtk = self.world.mmtk;
        let tid = 1 + self.cfg.workers;
        let h = self.inst.spawn(tid, "mutator-1", move || {
            vm::multi_enter_running(1);
            vm::multi_note_request_base(1);
            rt::event("m_request", 1, 0);
            let r = mmtk.handle_user_collection_request(vm::mutator_tls(1), true, true);
            rt::event("m_return", 1, r as usize);
            vm::multi_enter_idle(1);
        });
        vm::multi_note_request_base(0);
        vm::note_request_base();
        rt::event("m_request", 0, 0);
        let r = mmtk.handle_user_collection_request(vm::mutator_tls(0), true, true);
        rt::event("m_return", 0, r as usize);
        vm::multi_enter_idle(0);
        self.inst.quiesce();
        let _ = h.join();
        vm::multi_end();
    }

    /// One execution of `job` replaying `prefix`.
    pub fn execute(&mut self, job: &Job, prefix: Prefix) -> (ExecInfo, Verdict) {
        if let Err(w) = self.workers_waiting() {
            machinery_failure(&format!("scheduler scenarios: not quiescent at the start of an execution: {}", w));
        }
        let case = json!({"cfg": self.cfg.json(), "job": job.json(), "choices": prefix.chosen, "masks": prefix.masks});
        set_current_case(&case);
        if let Some(p) = PROGRESS.lock().unwrap().as_mut() {
            p.case = case;
        }
        *INJECT.lock().unwrap() = Some(Inject { pat: Arc::new(job.pattern.clone()), via_worker: job.via_worker });
        self.executions += 1;
        let workers = self.cfg.workers;
        let mut arm = arming();
        arm.spurious_wakeups = job.spurious;
        let mut race_old_addr = 0usize;
        if let Kind::Race { racers } = job.kind {
            let Some(id) = self.race_obj else {
                machinery_failure("scheduler scenarios: a race job needs an ephemeron chain in the heap");
            };
            let obj = self.world.shadow.objs[&id].addr;
            race_old_addr = obj;
            for (lo, hi) in race_meta_ranges(obj) {
                arm.range(lo, hi);
            }
            arm.start_closed = true;
            *RACE.lock().unwrap() = Some(RaceState { obj, racers, copies: vec![], rets: vec![] });
            let (i1, i2) = (self.inst.clone(), self.inst.clone());
            *vm::TRACE_FANOUT.lock().unwrap() = Some(vm::TraceFanout {
                obj,
                racers,
                on_fanout: Box::new(move || {
                    rt::event("race_fanout", racers, 0);
                    i1.set_explore(true);
                }),
                done: Arc::new(move |racer, ordinal, ret| {
                    rt::event("race_done", racer, ordinal);
                    let mut g = RACE.lock().unwrap_or_else(|p| p.into_inner());
                    if let Some(r) = g.as_mut() {
                        r.rets.push((racer, ordinal, ret));
                        if r.rets.len() >= r.racers {
                            i2.set_explore(false);
                        }
                    }
                }),
            });
        }
        if job.kind == Kind::Satb || job.kind == Kind::Satb2 {
            arm.start_closed = true;
        }
        self.inst.begin_execution(prefix, arm, HORIZON, LIVELOCK);
        let mut early: Option<Fail> = None;
        let mut heap_checks: Vec<Result<(), crate::shadowvm::Fail>> = vec![];
        match job.kind {
            Kind::Gc1 | Kind::Gc2 | Kind::Race { .. } => {
                for _ in 0..job.kind.requests() {
                    if !self.request_gc() {
                        early = Some(("sched:request_ignored".into(), "a forced user collection request was ignored".into()));
                    }
                    // adopt the new addresses before the next request (harness work on the
                    // controller; the workers' remaining tail does not touch the heap)
                    heap_checks.push(self.world.after_possible_gc());
                }
                self.inst.quiesce();
            }
            Kind::Forkreq => {
                early = self.fork_and_request(&mut heap_checks);
                self.inst.quiesce();
            }
            Kind::Satb => {
                if !self.cfg.bare || self.cfg.plan != "ConcurrentImmix" {
                    machinery_failure("scheduler scenarios: satb needs a bare ConcurrentImmix child");
                }
                early = self.satb_execution(job);
                self.inst.quiesce();
            }
            Kind::Satb2 => {
                if !self.cfg.bare || self.cfg.plan != "ConcurrentImmix" || self.cfg.mutators < 2 {
                    machinery_failure("scheduler scenarios: satb2 needs a bare ConcurrentImmix child with 2 mutators");
                }
                early = self.satb2_execution(job);
                self.inst.quiesce();
                if !self.world.is_bound(1) {
                    self.world.bind(1);
                }
            }
            Kind::Req2 => {
                if self.cfg.mutators < 2 {
                    machinery_failure("scheduler scenarios: req2 needs a child with 2 mutators");
                }
                self.two_mutators_request();
                heap_checks.push(self.world.after_possible_gc());
                self.inst.quiesce();
            }
            Kind::Fork { rounds, race } => {
                if !self.request_gc() {
                    early = Some(("sched:request_ignored".into(), "a forced user collection request was ignored".into()));
                }
                heap_checks.push(self.world.after_possible_gc());
                for _ in 0..rounds {
                    if !race {
                        self.inst.quiesce();
                    }
                    self.world.mmtk.prepare_to_fork();
                    // every worker thread must exit: wait (logically) until nothing can run
                    self.inst.quiesce();
                    let handles = vm::with_state(|s| std::mem::take(&mut s.worker_threads));
                    let live: Vec<(usize, Op)> = self.inst.waiting_threads();
                    if !live.is_empty() {
                        early = Some(("fork:worker_did_not_exit".into(), format!("after prepare_to_fork these worker threads are still waiting instead of having returned from start_worker: {:?}", live.iter().map(|(t, op)| format!("t{}:{}", t, op.name())).collect::<Vec<_>>())));
                        // they cannot be joined; put the handles back
                        vm::with_state(|s| s.worker_threads = handles);
                        break;
                    }
                    let tj = std::time::Instant::now();
                    for h in handles {
                        let _ = h.join();
                    }
                    if std::env::var("SCHED_DEBUG").is_ok() {
                        eprintln!("[sched]   join took {:.1} ms", tj.elapsed().as_secs_f64() * 1e3);
                    }
                    if let Err(e) = check_quiescent_state(self.world.mmtk, workers, false) {
                        early = Some(e);
                    }
                    let ta = std::time::Instant::now();
                    self.world.mmtk.after_fork(vm::mutator_tls(0).0);
                    if std::env::var("SCHED_DEBUG").is_ok() {
                        eprintln!("[sched]   after_fork took {:.1} ms", ta.elapsed().as_secs_f64() * 1e3);
                    }
                    self.inst.quiesce();
                    if !self.request_gc() {
                        early = Some(("sched:request_ignored".into(), "a forced user collection request was ignored".into()));
                    }
                    heap_checks.push(self.world.after_possible_gc());
                }
                self.inst.quiesce();
            }
        }
        let info = self.inst.end_execution();
        *INJECT.lock().unwrap() = None;
        // History independence: the batch size of crossbeam's `Injector::steal_batch_and_pop`
        // depends on the queue's offset inside its current 63-slot block.  Every bucket queue is
        // advanced to the same offset again (queues are empty at quiescence), so that an execution
        // is a function of its schedule alone, in this process and in a fresh one.
        {
            let mut pushes: BTreeMap<usize, usize> = BTreeMap::new();
            for e in &info.events {
                if e.name == "bucket_add" {
                    *pushes.entry(e.a).or_insert(0) += e.b;
                }
            }
            for (stage, n) in pushes {
                let cap = view::BUCKET_QUEUE_BLOCK_CAP;
                view::cycle_bucket_queue(self.world.mmtk, stage, (cap - n % cap) % cap);
            }
        }
        vm::with_state(|s| s.expected_stages.clear());
        heap_checks.push(self.world.after_possible_gc());
        // ---- oracle
        let mut failure: Option<Fail> = early;
        let mut facts = Facts::default();
        if failure.is_none() && job.kind != Kind::Satb && job.kind != Kind::Satb2 {
            match analyse(&info.events, workers, job) {
                Ok(f) => facts = f,
                Err(e) => failure = Some(e),
            }
        }
        if failure.is_none() {
            if let Err(e) = check_quiescent_state(self.world.mmtk, workers, true) {
                failure = Some(e);
            }
        }
        if failure.is_none() {
            if let Err(w) = self.workers_waiting() {
                failure = Some(("sched:not_all_parked_at_quiescence".into(), format!("threads at the end of the execution: {}", w)));
            }
        }
        if failure.is_none() {
            for r in heap_checks {
                if let Err((s, m)) = r {
                    failure = Some((format!("heap:{}", s), m));
                    break;
                }
            }
        }
        let mut race_outcome = String::new();
        let mut race_nontrivial = false;
        if let Kind::Race { racers } = job.kind {
            let st = RACE.lock().unwrap().take().unwrap_or_default();
            let pending = vm::TRACE_FANOUT.lock().unwrap().take().is_some();
            let new_addr = self.race_obj.map(|id| self.world.shadow.objs[&id].addr).unwrap_or(0);
            let moving = self.world.moves;
            let always_moves = self.cfg.plan == "SemiSpace" || self.cfg.plan == "GenCopy";
            let rets: Vec<usize> = { let mut r = st.rets.clone(); r.sort(); r.iter().map(|x| x.2).collect() };
            let rel = |a: usize| -> String { if a == race_old_addr { "the old object".to_string() } else if Some(&a) == st.copies.first() { "copy#0".to_string() } else if st.copies.contains(&a) { format!("copy#{}", st.copies.iter().position(|c| *c == a).unwrap()) } else { format!("{:#x}", a) } };
            let verdict: Option<Fail> = if pending {
                Some(("fwd:fanout_not_consumed".into(), "process_weak_refs was not called in this collection: the racers never ran".into()))
            } else if rets.len() != racers {
                Some(("fwd:racer_lost".into(), format!("{} of {} racing tracer packets ran", rets.len(), racers)))
            } else if st.copies.len() > 1 || (always_moves && st.copies.is_empty()) {
                Some(("fwd:copy_count".into(), format!("ObjectModel::copy ran {} times for the raced object {:#x} (destinations {:x?}), expected {}", st.copies.len(), race_old_addr, st.copies, if always_moves { "exactly once" } else { "at most once" })))
            } else if rets.iter().any(|r| *r != rets[0]) {
                Some(("fwd:tracers_disagree".into(), format!("the racing tracers' trace_object calls on {:#x} returned {:?}", race_old_addr, rets.iter().map(|r| rel(*r)).collect::<Vec<_>>())))
            } else if rets[0] != st.copies.first().copied().unwrap_or(race_old_addr) {
                Some(("fwd:wrong_reference".into(), format!("the racing tracers returned {}, expected {}", rel(rets[0]), if st.copies.is_empty() { "the unmoved object".to_string() } else { "the copy".to_string() })))
            } else if new_addr != rets[0] {
                Some(("fwd:slot_disagrees".into(), format!("after the collection the ephemeron table holds {:#x} for the raced object, the tracers returned {}", new_addr, rel(rets[0]))))
            } else if !moving && !st.copies.is_empty() {
                Some(("fwd:copy_count".into(), "a non-moving plan copied the object".into()))
            } else {
                None
            };
            if failure.is_none() {
                failure = verdict;
            }
            let mut by: Vec<(usize, usize)> = st.rets.iter().map(|x| (x.0, x.1)).collect();
            by.sort();
            race_outcome = format!(";racers_on={:?};copies={}", by.iter().map(|x| x.1).collect::<Vec<_>>(), st.copies.len());
            // the racers overlapped: some racer started tracing before another one had returned
            let mut started = 0usize;
            let mut done = 0usize;
            let mut overlap = false;
            for e in &info.events {
                match e.name {
                    "packet_start" if short(e.tag) == "TraceRacePacket" => {
                        started += 1;
                        if started > done + 1 {
                            overlap = true;
                        }
                    }
                    "race_done" => done += 1,
                    _ => {}
                }
            }
            race_nontrivial = overlap;
            if overlap {
                race_outcome.push_str(";overlap");
            }
        }
        let outcome = format!("fin={:?};h={:?};dec={}", facts.gc_finished_by, facts.harness_runs.iter().map(|(_, w)| *w).collect::<Vec<_>>(), facts.last_parked_decisions);
        let outcome = if job.kind == Kind::Forkreq {
            // whether the request was still pending when all workers had exited
            format!("{};request_pending_across_fork={}", outcome, info.events.iter().find(|e| e.name == "fork_after").map(|e| e.a as i64).unwrap_or(-1))
        } else {
            outcome
        };
        let outcome = if job.kind == Kind::Satb || job.kind == Kind::Satb2 { std::mem::take(&mut *SATB_OUT.lock().unwrap()) } else { format!("{}{}", outcome, race_outcome) };
        let nontrivial = if job.kind.is_race() { race_nontrivial } else if job.kind == Kind::Satb2 { outcome.contains("overlap=1") } else if job.kind == Kind::Satb { info.preemptions > 0 && !outcome.contains("cycle_ended") } else { info.preemptions > 0 || facts.harness_runs.iter().map(|(_, w)| *w).collect::<std::collections::BTreeSet<_>>().len() > 1 };
        let violation = failure.map(|(s, m)| (scenario_sig(&s, job), m));
        (info, Verdict { outcome, violation, nontrivial })
    }
}

/// The persistent instance cannot continue (deadlock, livelock, step horizon): this is a verdict
/// of the scenario (C14's "no deadlock / lost wake-up").  Emit the child's result and exit.
fn on_stuck(info: &ExecInfo) {
    let mut g = PROGRESS.lock().unwrap_or_else(|p| p.into_inner());
    let Some(p) = g.as_mut() else {
        machinery_failure(&format!("scheduler scenarios: stuck outside an exploration: {:?}; trace {}", info.end, info.pretty()));
    };
    if let End::Diverged(m) = &info.end {
        let tail: Vec<String> = info.steps.iter().map(|s| format!("t{}:{}", s.tid, s.op.name())).collect();
        let evtail: Vec<String> = info.events.iter().rev().take(20).rev().map(|e| format!("t{}:{}({},{}){}", e.tid, e.name, e.a, e.b, if e.tag.is_empty() { String::new() } else { format!("[{}]", short(e.tag)) })).collect();
        machinery_failure(&format!("scheduler scenarios: replay divergence: {}; choices so far {:?}; last steps: {}; last events: {}", m, info.chosen(), tail.join(" "), evtail.join(" ")));
    }
    let clause = match &info.end {
        End::Deadlock(_) => "sched:deadlock",
        End::Livelock(_) => "sched:livelock",
        End::Horizon => "sched:no_termination",
        _ => "sched:stuck",
    };
    let job = Job::from_json(&p.case["job"]);
    let tail: Vec<String> = info.steps.iter().rev().take(40).rev().map(|s| format!("t{}:{}", s.tid, s.op.name())).collect();
    let evtail: Vec<String> = info.events.iter().rev().take(25).rev().map(|e| format!("t{}:{}({},{}){}", e.tid, e.name, e.a, e.b, if e.tag.is_empty() { String::new() } else { format!("[{}]", short(e.tag)) })).collect();
    let mut case = p.case.clone();
    case["choices"] = json!(info.chosen());
    case["masks"] = json!(info.masks());
    case["engine"] = json!("baton");
    let msg = format!("{} {}: the execution cannot continue: {:?} after {} steps, {} preemptions; last steps: {}; last events: {}", p.case["cfg"]["plan"], job.name(), info.end, info.steps.len(), info.preemptions, tail.join(" "), evtail.join(" "));
    p.coverage.violation(scenario_sig(clause, &job), msg, case);
    p.coverage.set("exhaustive", false);
    let out = p.coverage.to_child_json();
    drop(g);
    emit_child_result(&out);
}

/// Child entry point: `args` = [cfg json, tier, "run" | "replay", jobs json | case json]
pub fn child(id: &str, args: &[String]) -> ! {
    let cfg = ChildCfg::from_json(&serde_json::from_str::<Value>(&args[0]).unwrap_or(Value::Null));
    let tier = if args.get(1).map(|s| s.as_str()) == Some("thorough") { Tier::Thorough } else { Tier::Quick };
    let mode = args.get(2).map(|s| s.as_str()).unwrap_or("run");
    let payload: Value = serde_json::from_str(args.get(3).map(|s| s.as_str()).unwrap_or("null")).unwrap_or(Value::Null);
    let mut sub = Run::new(id, tier);
    *PROGRESS.lock().unwrap() = Some(Progress { coverage: Run::new(id, tier), case: json!({"cfg": cfg.json(), "job": Job { kind: Kind::Gc1, pattern: Pattern::empty(), via_worker: false, bound: 0, free_bound: 0, spurious: 0, prog: vec![] }.json()}) });
    let mut ch = Child::boot(cfg.clone());
    // warm-up collections under the default schedule
    let warm = Job { kind: if cfg.bare { Kind::Satb } else { Kind::Gc1 }, pattern: Pattern::empty(), via_worker: false, bound: 0, free_bound: 0, spurious: 0, prog: vec![] };
    for _ in 0..2 {
        let (_, v) = ch.execute(&warm, Prefix::default());
        if let Some((s, m)) = v.violation {
            sub.violation(s, format!("{} warm-up collection: {}", cfg.plan, m), json!({"cfg": cfg.json(), "job": warm.json(), "choices": [], "engine": "baton"}));
            sub.set("exhaustive", false);
            emit_child_result(&sub.to_child_json());
        }
    }
    if mode == "replay" {
        let job = Job::from_json(&payload["job"]);
        let chosen: Vec<u8> = payload["choices"].as_array().map(|a| a.iter().map(|x| x.as_u64().unwrap_or(0) as u8).collect()).unwrap_or_default();
        let masks: Option<Vec<u32>> = payload["masks"].as_array().map(|a| a.iter().map(|x| x.as_u64().unwrap_or(0) as u32).collect());
        let n = chosen.len();
        let r = catch(|| ch.execute(&job, Prefix { debug_parent: None, chosen, unchecked: masks.is_none(), masks, mask_hash: 0 }));
        match r {
            Ok((info, v)) => {
                if let End::Diverged(m) = &info.end {
                    machinery_failure(&format!("replay divergence: {}", m));
                }
                if info.choices.len() < n {
                    machinery_failure(&format!("replay consumed only {} of {} recorded choices", info.choices.len(), n));
                }
                if let Some((s, m)) = v.violation {
                    sub.violation(s, m, payload.clone());
                }
                sub.set("replay_outcome", v.outcome);
            }
            Err(p) => {
                sub.violation(scenario_sig("sched:panic", &job), format!("panic on the mutator thread: {}", p), payload.clone());
            }
        }
        emit_child_result(&sub.to_child_json());
    }
    let jobs: Vec<Job> = payload.as_array().map(|a| a.iter().map(Job::from_json).collect()).unwrap_or_default();
    if std::env::var("SCHED_DEBUG").is_ok() {
        // debugging aid: the default execution several times, and where consecutive runs differ
        let mut prev: Option<ExecInfo> = None;
        for k in 0..6 {
            let te = std::time::Instant::now();
            let (info, v) = ch.execute(&jobs[0], Prefix::default());
            eprintln!("[sched] execution took {:.1} ms", te.elapsed().as_secs_f64() * 1e3);
            let free_alts: u32 = info.choices.iter().map(|c| (c.free & c.mask & !(1u32 << c.default)).count_ones()).sum();
            let paid_alts: u32 = info.choices.iter().map(|c| (c.mask & !c.free).count_ones()).sum();
            eprintln!("[sched] run {}: {} steps, {} choice points ({} free alternatives, {} preempting alternatives), {} events, outcome {}, violation {:?}", k, info.steps.len(), info.choices.len(), free_alts, paid_alts, info.events.len(), v.outcome, v.violation);
            if k == 0 && std::env::var("SCHED_DEBUG").as_deref() == Ok("2") {
                for (i, st) in info.steps.iter().enumerate() {
                    eprintln!("  step {:>3} t{} {}", i, st.tid, st.op.name());
                }
                for (i, e) in info.events.iter().enumerate() {
                    eprintln!("  ev {:>3} t{} {}({},{}) {}", i, e.tid, e.name, e.a, e.b, short(e.tag));
                }
            }
            if let Some(p) = &prev {
                let a: Vec<String> = p.steps.iter().map(|s| format!("t{}:{}", s.tid, s.op.name())).collect();
                let b: Vec<String> = info.steps.iter().map(|s| format!("t{}:{}", s.tid, s.op.name())).collect();
                if let Some(i) = (0..a.len().min(b.len())).find(|i| a[*i] != b[*i]) {
                    eprintln!("[sched]   differs from the previous run at step {}: {:?} vs {:?}", i, &a[i.saturating_sub(6)..(i + 3).min(a.len())], &b[i.saturating_sub(6)..(i + 3).min(b.len())]);
                } else if a.len() != b.len() {
                    eprintln!("[sched]   same prefix, lengths {} vs {}", a.len(), b.len());
                }
            }
            prev = Some(info);
        }
        emit_child_result(&sub.to_child_json());
    }
    let mut exhaustive = true;
    for job in &jobs {
        let params = json!({"cfg": cfg.json(), "job": job.json()});
        let dcfg = Config { bound: Some(job.bound), max_executions: 400_000, horizon: HORIZON, livelock_bound: LIVELOCK, stop_at_first_violation: true, confirm_in_process: false, free_bound: Some(job.free_bound) };
        let before = sub.violations.len();
        let mut run_one = |prefix: Prefix| -> (ExecInfo, Verdict) {
            match catch(|| ch.execute(job, prefix)) {
                Ok(r) => r,
                Err(p) => machinery_failure(&format!("scheduler scenarios: panic on the controller thread: {}", p)),
            }
        };
        let min_outcomes = if job.bound >= 1 && cfg.workers >= 2 { 2 } else { 1 };
        let st = baton::drive(&format!("{}/{}", cfg.plan, job.name()), &params, &dcfg, min_outcomes, &mut sub, &mut run_one);
        baton::add_stats(&mut sub, &st);
        exhaustive &= st.complete;
        // the case of a violation must be replayable by a fresh child
        for v in sub.violations.iter_mut().skip(before) {
            v.case["cfg"] = cfg.json();
            v.case["job"] = job.json();
        }
        if let Some(p) = PROGRESS.lock().unwrap().as_mut() {
            p.coverage = Run::new(id, tier);
            p.coverage.coverage = sub.coverage.clone();
            p.coverage.samples = sub.samples.clone();
            p.coverage.violations = sub.violations.clone();
        }
        if sub.violations.len() > before {
            exhaustive = false;
            break;
        }
    }
    sub.set("exhaustive", exhaustive);
    sub.set("real_collections", ch.world.stats.gcs);
    sub.set("objects_verified", ch.world.stats.objects_verified);
    emit_child_result(&sub.to_child_json());
}

// ---------------------------------------------------------------------------------------------
// the parent

pub struct Plan {
    pub cfg: ChildCfg,
    pub jobs: Vec<Job>,
}

/// Signature of a child that died: `sched:crash:<signal / WORKER-PANIC><panic location>:<scenario>`
/// (`fwd:crash:...:race` for the forwarding race of C17).
fn crash_sig(sig: &str, loc: &str, scen: &str) -> String {
    format!("{}:crash:{}{}:{}", if scen == "race" { "fwd" } else { "sched" }, sig, loc, scen)
}

/// Run the children, confirm every violation by a replay in a fresh process, and merge.
pub fn run_parent(run: &mut Run, plans: Vec<Plan>, owns: &dyn Fn(&str) -> bool, timeout_s: u64) {
    let args: Vec<Vec<String>> = plans.iter().map(|p| vec!["--child".to_string(), run.id.clone(), p.cfg.json().to_string(), run.tier.name().to_string(), "run".to_string(), Value::Array(p.jobs.iter().map(|j| j.json()).collect()).to_string()]).collect();
    let results = run_children(args, run.jobs, timeout_s);
    for k in ["states", "transitions", "evaluations", "traces_validated_against_impl", "distinct_nontrivial"] {
        run.add(k, 0);
    }
    for (p, r) in plans.iter().zip(results) {
        let label = format!("{}/{}w/{}", p.cfg.plan, p.cfg.workers, p.jobs.first().map(|j| j.kind.name()).unwrap_or_default());
        let mut candidates: Vec<(String, String, Value)> = vec![];
        if r.get("child_crashed").is_some() {
            let crash = r["crash"].as_str().unwrap_or("");
            let (sig, rest) = crash.split_once(' ').unwrap_or((crash, ""));
            let (case_s, detail) = rest.split_once(" ||| ").unwrap_or((rest, ""));
            let case: Value = serde_json::from_str(case_s).unwrap_or(json!({"raw": case_s}));
            let loc = detail.split("panicked at ").nth(1).map(crate::shadow_check::panic_slug).unwrap_or_default();
            let scen = Kind::from_name(case["job"]["kind"].as_str().unwrap_or("gc1")).scenario();
            candidates.push((crash_sig(sig, &loc, &scen), format!("{}: the process died ({}) {}", label, sig, detail), case));
            run.add("children_crashed", 1);
            run.set("exhaustive", false);
        } else if r.get("child_died").is_some() {
            machinery_failure(&format!("child {} died without a result: {}", label, r));
        } else {
            if let Some(a) = r.get("violations").and_then(|c| c.as_array()) {
                for x in a {
                    candidates.push((x["signature"].as_str().unwrap_or("?").to_string(), x["message"].as_str().unwrap_or("").to_string(), x["case"].clone()));
                }
            }
            if std::env::var("BATON_TIMING").is_ok() {
                eprintln!("[sched] child {:<28} jobs {:>3} executions {:>8} exhaustive {} first job {}", label, p.jobs.len(), r["coverage"]["evaluations"], r["coverage"]["exhaustive"], p.jobs.first().map(|j| j.name()).unwrap_or_default());
            }
            let mut rr = r.clone();
            rr["violations"] = json!([]);
            // per-child keys that do not merge meaningfully
            if let Some(c) = rr["coverage"].as_object_mut() {
                c.remove("completed_preemption_bound_min");
                c.remove("executions_by_preemptions");
            }
            run.absorb_child_json(&rr);
        }
        for (sig, msg, case) in candidates {
            if !(owns(&sig) || std::env::var("VERIF_OWN_ALL").is_ok()) {
                run.assume(&format!("{}: exploration stopped by a failure of another property's class ({})", label, sig));
                let mut ff = run.coverage.get("foreign_failures").and_then(|v| v.as_array()).cloned().unwrap_or_default();
                ff.push(json!(format!("{}: {}", sig, msg.chars().take(300).collect::<String>())));
                run.coverage.insert("foreign_failures".into(), Value::Array(ff));
                run.set("exhaustive", false);
                run.sample(json!({"child": label, "stopped_by_foreign_failure": sig}));
                continue;
            }
            // confirmation: the same execution in a fresh process must fail in the same way
            let got = replay_in_child(&run.id, run.tier, &case, timeout_s);
            match got {
                Some(s2) if s2 == sig => run.violation(sig, msg, case),
                other => machinery_failure(&format!("{}: violation {} ({}) did not reproduce in a fresh process (got {:?}); case {}", label, sig, msg.chars().take(400).collect::<String>(), other, case)),
            }
        }
    }
}

/// Replay a case in a fresh child; returns the signature of the violation it produced, if any.
pub fn replay_in_child(id: &str, tier: Tier, case: &Value, timeout_s: u64) -> Option<String> {
    let args = vec!["--child".to_string(), id.to_string(), case["cfg"].to_string(), tier.name().to_string(), "replay".to_string(), case.to_string()];
    let r = run_children(vec![args], 1, timeout_s).remove(0);
    if r.get("child_crashed").is_some() {
        let crash = r["crash"].as_str().unwrap_or("");
        let (sig, rest) = crash.split_once(' ').unwrap_or((crash, ""));
        let (_, detail) = rest.split_once(" ||| ").unwrap_or((rest, ""));
        let loc = detail.split("panicked at ").nth(1).map(crate::shadow_check::panic_slug).unwrap_or_default();
        let scen = Kind::from_name(case["job"]["kind"].as_str().unwrap_or("gc1")).scenario();
        return Some(crash_sig(sig, &loc, &scen));
    }
    if r.get("child_died").is_some() {
        machinery_failure(&format!("replay child died without a result: {}", r));
    }
    r.get("violations").and_then(|c| c.as_array()).and_then(|a| a.first()).and_then(|x| x["signature"].as_str().map(|s| s.to_string()))
}

pub fn replay(id: &str, case: &Value, run: &mut Run) {
    match replay_in_child(id, run.tier, case, 600) {
        Some(sig) => run.violation(sig, "reproduced".to_string(), case.clone()),
        None => {}
    }
}

/// Merge the result of a baton phase (`sub`, produced by `run_parent`) into the run of a check
/// that has other phases as well: the phase's counters go under `<prefix>_...` keys, the common
/// counters are added up, violations, assumptions and a few samples are taken over.
pub fn merge_phase(run: &mut Run, sub: Run, prefix: &str, children: u64) {
    let cov = sub.coverage.clone();
    let g = |k: &str| cov.get(k).and_then(|v| v.as_u64()).unwrap_or(0);
    let exhaustive = cov.get("exhaustive").and_then(|v| v.as_bool()).unwrap_or(false);
    run.set(&format!("{}_child_processes", prefix), children);
    run.set(&format!("{}_executions", prefix), g("evaluations"));
    run.set(&format!("{}_nontrivial_executions", prefix), g("distinct_nontrivial"));
    run.set(&format!("{}_scheduling_steps", prefix), g("transitions"));
    run.set(&format!("{}_real_collections", prefix), g("real_collections"));
    run.set(&format!("{}_objects_verified", prefix), g("objects_verified"));
    run.set(&format!("{}_exhaustive_within_bounds", prefix), exhaustive);
    run.set(&format!("{}_outcome_classes", prefix), cov.get("outcome_classes").cloned().unwrap_or(json!({})));
    if let Some(ff) = cov.get("foreign_failures") {
        run.set(&format!("{}_foreign_failures", prefix), ff.clone());
    }
    for k in ["states", "transitions", "evaluations", "distinct_nontrivial", "traces_validated_against_impl"] {
        run.add(k, g(k));
    }
    if !exhaustive || run.coverage.get("exhaustive").is_none() {
        run.set("exhaustive", exhaustive);
    }
    for smp in sub.samples.iter().take(4) {
        run.sample(smp.clone());
    }
    for a in sub.assumptions.iter() {
        run.assume(a);
    }
    for v in sub.violations {
        run.violation(v.signature, v.message, v.case);
    }
}
