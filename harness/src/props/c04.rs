//! C04 — objects allocated with Immortal / Los / NonMoving (and the other non-default)
//! semantics, and pinned objects while pinned, keep their address across every collection;
//! objects of never-collected spaces (and every object under NoGC) are never reclaimed even when
//! unreachable (their bytes stay intact and their memory is never handed out again).

use crate::common::{Run, Tier};
use crate::progs::{Alphabet, Op, ProgFacts};
use crate::shadow_check::Profile;
use crate::shadowvm::{BootCfg, Sem, ALL_PLANS};
use serde_json::Value;

fn plans(_t: Tier) -> Vec<&'static str> {
    ALL_PLANS.to_vec()
}

fn alphabet(_plan: &str, v: &str, _t: Tier) -> Alphabet {
    let pins = v == "Pin";
    Alphabet {
        sizes: vec![48],
        sems: if pins { vec![Sem::Default] } else { vec![Sem::Default, Sem::from_name(v)] },
        gc_kinds: vec![false, true],
        bursts: vec![(264, 150, 2)],
        refused_allocs: false, align_bursts: false, eph_chains: vec![], two_mutators: false,
        pins,
        cross_writes: false,
        fields: 1,
    }
}

fn depth(plan: &str, _v: &str, t: Tier) -> usize {
    match (plan, t) {
        ("NoGC", _) => 3,
        ("MarkCompact", Tier::Quick) | ("PageProtect", Tier::Quick) => 3,
        (_, Tier::Quick) => 4,
        ("MarkCompact", Tier::Thorough) | ("PageProtect", Tier::Thorough) => 4,
        (_, Tier::Thorough) => 5,
    }
}

/// One variant per non-default semantics (own process each), plus "Pin" on Immix-family plans.
fn variants(plan: &str, t: Tier) -> Vec<&'static str> {
    let mut v = vec!["Immortal", "Los", "NonMoving"];
    if t == Tier::Thorough {
        v.extend(["ReadOnly", "Code", "LargeCode"]);
    }
    if matches!(plan, "Immix" | "StickyImmix" | "ConcurrentImmix" | "GenImmix") && cfg!(feature = "pinning") {
        v.push("Pin");
    }
    v
}

fn boot(plan: &str, _v: &str, _t: Tier) -> BootCfg {
    let mut c = BootCfg::new(plan);
    // immortal garbage accumulates over the run
    c.heap_bytes = if plan == "NoGC" { 3 << 30 } else { 256 << 20 };
    c
}

pub fn owns(sig: &str) -> bool {
    sig.starts_with("nonmoving:") || sig.starts_with("immortal:") || sig.starts_with("pin:")
}

fn nontrivial(f: &ProgFacts) -> bool {
    f.pinned_survived + f.nonmoving_survived + f.immortal_garbage_checked > 0 && f.gcs > 0
}

fn filter(_v: &str, p: &[Op]) -> bool {
    // at least one object with non-default semantics or a pin
    p.iter().any(|o| matches!(o, Op::Pin { .. }) || matches!(o, Op::Alloc { sem, .. } if *sem != Sem::Default))
}

/// After the program: every piece of immortal garbage recorded so far is still intact (checked
/// inside verify_heap at each GC) and, under vo_bit, still a valid object.
fn post(w: &mut crate::shadowvm::World, _p: &[Op]) -> Result<(), crate::shadowvm::Fail> {
    w.check_immortal_garbage_valid()
}

pub const PROFILE: Profile = Profile {
    id: "C04",
    plans,
    variants,
    alphabet,
    depth,
    boot,
    owns,
    nontrivial,
    filter,
    rule: "every program of length <= depth over {alloc 48 B with semantics Default|Immortal|Los|NonMoving(|ReadOnly|Code|LargeCode), burst(264,150,2), write root.f0 <- root|null, drop root, pin/unpin root (Immix-family plans: the API documents that copying/compacting spaces cannot pin), GC(normal), GC(exhaustive)} containing a non-default allocation or a pin, per plan (incl. NoGC); after every collection the address of every such object (and of every pinned object) must be unchanged, and every unreachable object of a never-collected space must keep its bytes, stay a valid object (vo_bit) and never be overlapped by a later allocation. distinct_nontrivial = programs in which such an object survived a collection",
    post: Some(post),
    timeout_s: |t| t.pick(300, 3000),
};

pub fn run(run: &mut Run) {
    crate::shadow_check::run(&PROFILE, run);
    run.assume("pin_object is only offered where the API supports it (Immix spaces); LOS/immortal objects are implicitly pinned");
}

pub fn replay(case: &Value, run: &mut Run) {
    crate::shadow_check::replay(&PROFILE, case, run);
}

pub fn child(args: &[String]) {
    crate::shadow_check::child(&PROFILE, args);
}
