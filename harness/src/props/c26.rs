//! C26 free lists: BFS over alloc / alloc_from_unit / free / size / (un)coalescable histories on
//! the real `IntArrayFreeList` (parent + child sharing a table) and `RawMemoryFreeList`, against
//! a run-table model.  The table is read back through an independent decoder after every
//! operation.  The canonical key is the complete real table (it includes the link order, which
//! decides which run `alloc` returns and which the property leaves free).

use crate::common::Run;
use crate::seqx::{self, Subject};
use mmtk::util::os::{MmapStrategy, OSMemory, OS};
use mmtk::util::verif::{FreeList, IntArrayFreeList, RawMemoryFreeList, FREELIST_FAILURE, MAX_UNITS};
use mmtk::util::Address;
use serde_json::{json, Value};
use std::collections::{BTreeMap, BTreeSet};

const FREE_MASK: i32 = 1 << 31;
const MULTI_MASK: i32 = 1 << 31;
const COALESC_MASK: i32 = 1 << 30;
const LOW30: i32 = (1 << 30) - 1;

#[derive(Clone, Copy, Debug, PartialEq, Eq)]
pub enum Kind {
    IntArray,
    Raw,
}

#[derive(Clone, Debug)]
pub struct Cfg {
    pub kind: Kind,
    pub units: i32,
    pub grain: i32,
    /// number of list heads in the table
    pub heads: i32,
    /// drive a child list (ordinal 1) in addition to the parent (ordinal 0); IntArray only
    pub child: bool,
    /// offer set/clear_uncoalescable
    pub unco_ops: bool,
    /// raw list only: pages per block
    pub ppb: i32,
}

#[derive(Clone, Debug, PartialEq, Eq)]
pub enum Op {
    Alloc { h: usize, n: i32 },
    AllocFrom { h: usize, n: i32, u: i32 },
    Free { h: usize, u: i32, ret: bool },
    Size { u: i32 },
    SetUnco { u: i32 },
    ClearUnco { u: i32 },
}

#[derive(Clone, Debug, PartialEq, Eq)]
pub struct MRun {
    pub len: i32,
    /// Some(list) if free and on that list
    pub free: Option<usize>,
}

#[derive(Clone, Debug)]
pub struct Model {
    pub units: i32,
    pub runs: BTreeMap<i32, MRun>,
    pub unco: BTreeSet<i32>,
}

impl Model {
    pub fn initial(units: i32, grain: i32) -> Model {
        // documented initial state: runs of `grain` units from 0, a shorter last run
        let mut runs = BTreeMap::new();
        let mut u = 0;
        while u < units {
            let len = grain.min(units - u);
            runs.insert(u, MRun { len, free: Some(0) });
            u += len;
        }
        Model { units, runs, unco: BTreeSet::new() }
    }
    fn run_ending_at(&self, end: i32) -> Option<(i32, MRun)> {
        self.runs.range(..end).next_back().filter(|(s, r)| *s + r.len == end).map(|(s, r)| (*s, r.clone()))
    }
    /// semantic effect of free(u): coalesce with free neighbours across coalescable boundaries
    fn free(&mut self, h: usize, u: i32, ret: bool) -> i32 {
        let me = self.runs.get(&u).cloned().unwrap();
        let mut start = u;
        let mut end = u + me.len;
        if !self.unco.contains(&u) {
            if let Some((ls, lr)) = self.run_ending_at(u) {
                if lr.free.is_some() {
                    start = ls;
                }
            }
        }
        let right = u + me.len;
        if !self.unco.contains(&right) {
            if let Some(rr) = self.runs.get(&right) {
                if rr.free.is_some() {
                    end = right + rr.len;
                }
            }
        }
        let keys: Vec<i32> = self.runs.range(start..end).map(|(k, _)| *k).collect();
        for k in keys {
            self.runs.remove(&k);
        }
        self.runs.insert(start, MRun { len: end - start, free: Some(h) });
        if ret {
            end - start
        } else {
            me.len
        }
    }
    fn alloc_at(&mut self, h: usize, u: i32, n: i32) {
        let r = self.runs.get(&u).cloned().unwrap();
        self.runs.insert(u, MRun { len: n, free: None });
        if r.len > n {
            self.runs.insert(u + n, MRun { len: r.len - n, free: Some(h) });
        }
    }
}

pub enum Real {
    Int { parent: Box<IntArrayFreeList>, child: Option<IntArrayFreeList> },
    Raw { list: RawMemoryFreeList },
}

pub struct St {
    pub real: Real,
    pub model: Model,
}

impl Real {
    fn list(&mut self, h: usize) -> &mut dyn FreeList {
        match self {
            Real::Int { parent, child } => {
                if h == 0 {
                    parent.as_mut()
                } else {
                    child.as_mut().unwrap()
                }
            }
            Real::Raw { list } => list,
        }
    }
    fn any(&self) -> &dyn FreeList {
        match self {
            Real::Int { parent, .. } => parent.as_ref(),
            Real::Raw { list } => list,
        }
    }
}

/// Independent decoder of the free-list table: returns (runs by start -> (len, free), per-head list
/// of run starts in link order, uncoalescable unit set) or an inconsistency.
pub fn decode(fl: &dyn FreeList, units: i32, heads: i32) -> Result<(BTreeMap<i32, (i32, bool)>, Vec<Vec<i32>>, BTreeSet<i32>), String> {
    let lo = |u: i32| fl.get_entry((u + heads) << 1);
    let hi = |u: i32| fl.get_entry(((u + heads) << 1) + 1);
    let mut runs = BTreeMap::new();
    let mut unco = BTreeSet::new();
    let mut u = 0;
    while u < units {
        let multi = hi(u) & MULTI_MASK != 0;
        let size = if multi { hi(u + 1) & LOW30 } else { 1 };
        if size < 1 || u + size > units || (multi && size < 2) {
            return Err(format!("unit {}: bad run size {}", u, size));
        }
        let free = lo(u) & FREE_MASK != 0;
        if size > 1 {
            if hi(u + size - 1) != (MULTI_MASK | size) {
                return Err(format!("run [{},+{}): end marker {:#x} inconsistent", u, size, hi(u + size - 1)));
            }
            if (lo(u + size - 1) & FREE_MASK != 0) != free {
                return Err(format!("run [{},+{}): free bit differs between first and last unit", u, size));
            }
        }
        if lo(u) & COALESC_MASK != 0 {
            unco.insert(u);
        }
        runs.insert(u, (size, free));
        u += size;
    }
    if lo(units) & COALESC_MASK != 0 {
        unco.insert(units);
    }
    let ptr = |v: i32| -> i32 {
        let v = v & LOW30;
        if v > MAX_UNITS {
            v - (1 << 30)
        } else {
            v
        }
    };
    let mut lists = vec![];
    for h in 1..=heads {
        let head = -h;
        let mut l = vec![];
        let mut prev = head;
        let mut cur = ptr(hi(head));
        let mut steps = 0;
        while cur != head {
            if cur < 0 || cur >= units {
                return Err(format!("list {}: link to {} out of range", h - 1, cur));
            }
            if ptr(lo(cur)) != prev {
                return Err(format!("list {}: prev link of {} is {}, expected {}", h - 1, cur, ptr(lo(cur)), prev));
            }
            l.push(cur);
            prev = cur;
            cur = ptr(hi(cur));
            steps += 1;
            if steps > units + 1 {
                return Err(format!("list {}: cycle", h - 1));
            }
        }
        if ptr(lo(head)) != prev {
            return Err(format!("list {}: head prev link is {}, expected {}", h - 1, ptr(lo(head)), prev));
        }
        lists.push(l);
    }
    Ok((runs, lists, unco))
}

pub struct FlSubject {
    pub cfg: Cfg,
    pub window: Address,
    pub window_bytes: usize,
}

/// Reserve an address window (PROT_NONE) for raw lists.
pub fn reserve_window(bytes: usize) -> Address {
    let p = unsafe {
        libc::mmap(
            std::ptr::null_mut(),
            bytes,
            libc::PROT_NONE,
            libc::MAP_PRIVATE | libc::MAP_ANONYMOUS | libc::MAP_NORESERVE,
            -1,
            0,
        )
    };
    if p == libc::MAP_FAILED {
        crate::common::machinery_failure("cannot reserve scratch window");
    }
    unsafe { Address::from_usize(p as usize) }
}

/// Reset a window to inaccessible, dropping its contents.
pub fn reset_window(start: Address, bytes: usize) {
    let p = unsafe {
        libc::mmap(
            start.to_mut_ptr(),
            bytes,
            libc::PROT_NONE,
            libc::MAP_PRIVATE | libc::MAP_ANONYMOUS | libc::MAP_NORESERVE | libc::MAP_FIXED,
            -1,
            0,
        )
    };
    if p == libc::MAP_FAILED {
        crate::common::machinery_failure("cannot reset scratch window");
    }
}

impl FlSubject {
    pub fn new(cfg: Cfg) -> Self {
        let window_bytes = 64 << 12;
        let window = if cfg.kind == Kind::Raw { reserve_window(window_bytes) } else { Address::ZERO };
        FlSubject { cfg, window, window_bytes }
    }
    fn heads_used(&self) -> usize {
        if self.cfg.child {
            2
        } else {
            1
        }
    }
}

impl Drop for FlSubject {
    fn drop(&mut self) {
        if !self.window.is_zero() {
            let _ = OS::munmap(self.window, self.window_bytes);
        }
    }
}

impl Subject for FlSubject {
    type Op = Op;
    type State = St;
    type Snap = (Vec<i32>, Model);
    fn name(&self) -> String {
        format!("freelist[{:?}]", self.cfg)
    }
    fn snapshot(&self, st: &St) -> Option<Self::Snap> {
        let fl = st.real.any();
        let n = ((self.cfg.units + 1 + self.cfg.heads) << 1) as usize;
        Some(((0..n).map(|i| fl.get_entry(i as i32)).collect(), st.model.clone()))
    }
    fn restore(&self, snap: &Self::Snap) -> St {
        let mut st = self.fresh();
        match &mut st.real {
            Real::Int { parent, child } => {
                // drop the child's pointer before touching the parent's table
                *child = None;
                parent.table = Some(snap.0.clone());
                if self.cfg.child {
                    *child = Some(IntArrayFreeList::from_parent(parent, 1));
                }
            }
            Real::Raw { list } => {
                for (i, v) in snap.0.iter().enumerate() {
                    list.set_entry(i as i32, *v);
                }
            }
        }
        st.model = snap.1.clone();
        st
    }
    fn fresh(&self) -> St {
        let c = &self.cfg;
        let real = match c.kind {
            Kind::IntArray => {
                let parent = Box::new(IntArrayFreeList::new(c.units as usize, c.grain, c.heads as usize));
                let child = if c.child { Some(IntArrayFreeList::from_parent(&parent, 1)) } else { None };
                Real::Int { parent, child }
            }
            Kind::Raw => {
                reset_window(self.window, self.window_bytes);
                let pages = RawMemoryFreeList::size_in_pages(c.units, c.heads);
                let limit = self.window + ((pages as usize) << 12);
                let mut list = RawMemoryFreeList::new(self.window, limit, c.ppb, c.units, c.grain, c.heads, MmapStrategy::RAW_MEMORY_FREELIST);
                assert!(list.grow_freelist(c.units));
                Real::Raw { list }
            }
        };
        St { real, model: Model::initial(c.units, c.grain) }
    }
    fn enabled(&self, st: &St) -> Vec<Op> {
        let m = &st.model;
        let mut ops = vec![];
        let sizes: Vec<i32> = {
            let mut s = vec![1, 2, 3, m.units];
            s.retain(|x| *x >= 1 && *x <= m.units);
            s.sort();
            s.dedup();
            s
        };
        for h in 0..self.heads_used() {
            for &n in &sizes {
                ops.push(Op::Alloc { h, n });
            }
        }
        for (&u, r) in &m.runs {
            ops.push(Op::Size { u });
            for h in 0..self.heads_used() {
                // Protocol of lists sharing a table (FreeListPageResource over Map32): a list only
                // ever unlinks runs that are on its own list, because get_next/get_prev decode any
                // head sentinel as the caller's own head.  Coalescing with, or allocating from, a
                // run on another list is outside the protocol (chunk boundaries are made
                // uncoalescable for exactly this reason), so it is not offered.
                if r.free.is_none() {
                    let left_foreign = !m.unco.contains(&u) && m.run_ending_at(u).map(|(_, l)| l.free.is_some() && l.free != Some(h)).unwrap_or(false);
                    let right = u + r.len;
                    let right_foreign = !m.unco.contains(&right) && m.runs.get(&right).map(|x| x.free.is_some() && x.free != Some(h)).unwrap_or(false);
                    if !left_foreign && !right_foreign {
                        ops.push(Op::Free { h, u, ret: false });
                        ops.push(Op::Free { h, u, ret: true });
                    }
                }
                if r.free.is_none() || r.free == Some(h) {
                    for &n in &sizes {
                        if n <= 2 || n == r.len {
                            ops.push(Op::AllocFrom { h, n, u });
                        }
                    }
                }
            }
            if self.cfg.unco_ops && u > 0 {
                if m.unco.contains(&u) {
                    ops.push(Op::ClearUnco { u });
                } else {
                    ops.push(Op::SetUnco { u });
                }
            }
        }
        ops
    }
    fn apply(&self, st: &mut St, op: &Op) -> Result<bool, String> {
        let m = &mut st.model;
        match *op {
            Op::Alloc { h, n } => {
                let got = st.real.list(h).alloc(n);
                let candidates: Vec<i32> = m.runs.iter().filter(|(_, r)| r.free == Some(h) && r.len >= n).map(|(u, _)| *u).collect();
                if got == FREELIST_FAILURE {
                    if !candidates.is_empty() {
                        return Err(format!("alloc({}) on list {} failed although free runs {:?} are long enough", n, h, candidates));
                    }
                    Ok(false)
                } else {
                    if !candidates.contains(&got) {
                        return Err(format!("alloc({}) on list {} returned unit {}, which is not the start of a free run of that list with >= {} units (candidates {:?})", n, h, got, n, candidates));
                    }
                    let split = m.runs[&got].len > n;
                    m.alloc_at(h, got, n);
                    Ok(split)
                }
            }
            Op::AllocFrom { h, n, u } => {
                let got = st.real.list(h).alloc_from_unit(n, u);
                let r = m.runs[&u].clone();
                let ok = r.free.is_some() && r.len >= n;
                if ok {
                    if got != u {
                        return Err(format!("alloc_from_unit({}, {}) returned {} although the free run there has {} units", n, u, got, r.len));
                    }
                    m.alloc_at(h, u, n);
                    Ok(r.len > n)
                } else {
                    if got != FREELIST_FAILURE {
                        return Err(format!("alloc_from_unit({}, {}) returned {} although unit {} starts {:?}", n, u, got, u, r));
                    }
                    Ok(false)
                }
            }
            Op::Free { h, u, ret } => {
                let before = m.runs.len();
                let want = m.free(h, u, ret);
                let got = st.real.list(h).free(u, ret);
                if got != want {
                    return Err(format!("free({}, {}) returned {}, expected {}", u, ret, got, want));
                }
                Ok(m.runs.len() < before)
            }
            Op::Size { u } => {
                let got = st.real.any().size(u);
                if got != m.runs[&u].len {
                    return Err(format!("size({}) = {}, expected {}", u, got, m.runs[&u].len));
                }
                Ok(false)
            }
            Op::SetUnco { u } => {
                st.real.list(0).set_uncoalescable(u);
                m.unco.insert(u);
                Ok(false)
            }
            Op::ClearUnco { u } => {
                st.real.list(0).clear_uncoalescable(u);
                m.unco.remove(&u);
                Ok(false)
            }
        }
    }
    fn check(&self, st: &St) -> Result<(), String> {
        let (runs, lists, unco) = decode(st.real.any(), self.cfg.units, self.cfg.heads)?;
        let m = &st.model;
        let want: BTreeMap<i32, (i32, bool)> = m.runs.iter().map(|(u, r)| (*u, (r.len, r.free.is_some()))).collect();
        if runs != want {
            return Err(format!("table runs {:?} differ from model {:?}", runs, want));
        }
        for h in 0..self.cfg.heads as usize {
            let mut got: Vec<i32> = lists[h].clone();
            got.sort();
            let wanted: Vec<i32> = m.runs.iter().filter(|(_, r)| r.free == Some(h)).map(|(u, _)| *u).collect();
            if got != wanted {
                return Err(format!("list {} links {:?}, model has free runs {:?}", h, lists[h], wanted));
            }
        }
        if unco != m.unco {
            return Err(format!("uncoalescable flags {:?}, model {:?}", unco, m.unco));
        }
        // "freeing everything restores the initial runs": nothing lost or duplicated
        if m.runs.values().all(|r| r.free.is_some()) {
            let total: i32 = runs.values().map(|(l, _)| *l).sum();
            if total != self.cfg.units {
                return Err(format!("all free but {} of {} units on the lists", total, self.cfg.units));
            }
        }
        Ok(())
    }
    fn key(&self, st: &St) -> Vec<u8> {
        // Canonical key = everything a FreeList method can read before overwriting it: the run
        // tiling with free flags, the link ORDER of every list (it decides which run alloc
        // returns) and the uncoalescable flags.  Link fields of allocated runs and all entries
        // strictly inside a run (beyond its size markers) are stale: every method writes them
        // before reading them (add_to_free sets next/prev; set_size sets the markers), so states
        // differing only there have the same futures.
        let (runs, lists, unco) = decode(st.real.any(), self.cfg.units, self.cfg.heads).unwrap();
        let mut k = Vec::new();
        for (u, (l, f)) in &runs {
            k.extend_from_slice(&[*u as u8, *l as u8, *f as u8]);
        }
        for l in &lists {
            k.push(0xff);
            k.extend(l.iter().map(|x| *x as u8));
        }
        k.push(0xfe);
        k.extend(unco.iter().map(|x| *x as u8));
        k
    }
    fn op_json(&self, op: &Op) -> Value {
        match *op {
            Op::Alloc { h, n } => json!({"op": "alloc", "h": h, "n": n}),
            Op::AllocFrom { h, n, u } => json!({"op": "alloc_from_unit", "h": h, "n": n, "u": u}),
            Op::Free { h, u, ret } => json!({"op": "free", "h": h, "u": u, "ret": ret}),
            Op::Size { u } => json!({"op": "size", "u": u}),
            Op::SetUnco { u } => json!({"op": "set_unco", "u": u}),
            Op::ClearUnco { u } => json!({"op": "clear_unco", "u": u}),
        }
    }
    fn signature(&self, op: &Op, _msg: &str) -> String {
        let k = format!("{:?}", self.cfg.kind);
        match op {
            Op::Alloc { .. } => format!("{}:alloc", k),
            Op::AllocFrom { .. } => format!("{}:alloc_from_unit", k),
            Op::Free { .. } => format!("{}:free", k),
            Op::Size { .. } => format!("{}:size", k),
            _ => format!("{}:unco", k),
        }
    }
}

pub fn op_from_json(v: &Value) -> Op {
    let g = |k: &str| v[k].as_i64().unwrap_or(0) as i32;
    let h = v["h"].as_u64().unwrap_or(0) as usize;
    match v["op"].as_str().unwrap_or("") {
        "alloc" => Op::Alloc { h, n: g("n") },
        "alloc_from_unit" => Op::AllocFrom { h, n: g("n"), u: g("u") },
        "free" => Op::Free { h, u: g("u"), ret: v["ret"].as_bool().unwrap_or(false) },
        "size" => Op::Size { u: g("u") },
        "set_unco" => Op::SetUnco { u: g("u") },
        _ => Op::ClearUnco { u: g("u") },
    }
}

fn cfg_json(c: &Cfg) -> Value {
    json!({"kind": format!("{:?}", c.kind), "units": c.units, "grain": c.grain, "heads": c.heads, "child": c.child, "unco_ops": c.unco_ops, "ppb": c.ppb})
}

fn cfg_from_json(v: &Value) -> Cfg {
    Cfg {
        kind: if v["kind"].as_str() == Some("Raw") { Kind::Raw } else { Kind::IntArray },
        units: v["units"].as_i64().unwrap() as i32,
        grain: v["grain"].as_i64().unwrap() as i32,
        heads: v["heads"].as_i64().unwrap() as i32,
        child: v["child"].as_bool().unwrap(),
        unco_ops: v["unco_ops"].as_bool().unwrap(),
        ppb: v["ppb"].as_i64().unwrap() as i32,
    }
}

pub fn configs(run: &Run) -> Vec<Cfg> {
    let max_units = run.tier.pick(5, 7);
    let mut v = vec![];
    for kind in [Kind::IntArray, Kind::Raw] {
        for units in 1..=max_units {
            let mut grains = vec![1, 2, 3, units];
            grains.retain(|g| *g <= units);
            grains.sort();
            grains.dedup();
            for grain in grains {
                // raw lists require new_max <= grain or a multiple of grain
                if kind == Kind::Raw && !(units <= grain || units % grain == 0) {
                    continue;
                }
                for heads in 1..=2 {
                    v.push(Cfg { kind, units, grain, heads, child: false, unco_ops: false, ppb: 1 });
                }
                if kind == Kind::IntArray {
                    // the page-resource protocol: a child list sharing the parent's table, with
                    // uncoalescable boundaries
                    if units <= run.tier.pick(4, 5) {
                        v.push(Cfg { kind, units, grain, heads: 2, child: true, unco_ops: true, ppb: 1 });
                    } else {
                        v.push(Cfg { kind, units, grain, heads: 2, child: true, unco_ops: false, ppb: 1 });
                    }
                } else if units <= run.tier.pick(4, 5) {
                    v.push(Cfg { kind, units, grain, heads: 1, child: false, unco_ops: true, ppb: 1 });
                }
            }
        }
    }
    v
}

pub fn run(run: &mut Run) {
    let max_states = run.tier.pick(60_000, 2_000_000);
    let cfgs = configs(run);
    let n_cfg = cfgs.len();
    let stats = seqx::bfs_many(run, &cfgs, |c| FlSubject::new(c.clone()), cfg_json, 64, max_states);
    let mut per_cfg = vec![];
    for (c, st) in cfgs.iter().zip(stats.iter()) {
        if run.samples.len() < 4 && st.states > 50 {
            run.sample(json!({"config": cfg_json(c), "states": st.states, "transitions": st.transitions, "closed": st.closed, "example_history": [{"op":"alloc","h":0,"n":1},{"op":"free","h":0,"u":0,"ret":true}]}));
        }
        if !st.closed {
            run.add("configs_capped", 1);
        }
        per_cfg.push(json!([format!("{:?}/u{}/g{}/h{}/child={}/unco={}", c.kind, c.units, c.grain, c.heads, c.child, c.unco_ops), st.states, st.transitions, st.closed]));
    }
    run.set("per_config_states_transitions_closed", Value::Array(per_cfg));
    run.set("configurations", n_cfg as u64);
    run.set("rule", "BFS to closure over alloc(n)/alloc_from_unit(n,u)/free(u)/size(u)/(set|clear)_uncoalescable(u) on every (kind, units, grain, heads, child) configuration; states deduplicated on the complete real table; non-trivial transition = one that split a run (alloc) or coalesced runs (free)");
    run.assume("alloc_from_unit/free/size are only called on units that start a run, free only on allocated runs (their documented use)");
    run.assume("lists sharing a table never unlink a run that is on another list (no cross-list alloc_from_unit, no cross-list coalescing): the FreeListPageResource protocol guarantees this with uncoalescable chunk boundaries");
    run.assume("the property leaves open which sufficiently long free run alloc returns; any run of the calling list is accepted");
}

pub fn replay(case: &Value, run: &mut Run) {
    let c = cfg_from_json(&case["cfg"]);
    let s = FlSubject::new(c);
    let hist: Vec<Op> = case["history"].as_array().unwrap().iter().map(op_from_json).collect();
    match seqx::replay(&s, &hist) {
        Ok(_) => {}
        Err((i, m)) => run.violation("replay", format!("step {}: {}", i, m), case.clone()),
    }
}
