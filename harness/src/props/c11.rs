//! C11 — stop-the-world bracket: per collection `stop_all_mutators` is called once and before
//! anything else is asked of the VM, each bound mutator's roots are scanned exactly once per
//! root-scanning round, `resume_mutators` is called exactly once and last, and the requesting
//! mutator is blocked until the collection has ended.  Monitor over the binding's event log on
//! every collection of every program (programs quantifier; 1..2 mutators).

use crate::common::{Run, Tier};
use crate::progs::{Alphabet, Op, ProgFacts};
use crate::shadow_check::Profile;
use crate::shadowvm::{BootCfg, Sem, COLLECTING_PLANS};
use serde_json::Value;

fn plans(_t: Tier) -> Vec<&'static str> {
    COLLECTING_PLANS.to_vec()
}

fn alphabet(_plan: &str, _v: &str, _t: Tier) -> Alphabet {
    Alphabet { sizes: vec![40, 81920], sems: vec![Sem::Default], gc_kinds: vec![false, true], bursts: vec![], refused_allocs: false, align_bursts: false, eph_chains: vec![], two_mutators: true, pins: false, cross_writes: true, fields: 1 }
}

fn depth(plan: &str, _v: &str, t: Tier) -> usize {
    match (plan, t) {
        ("MarkCompact", Tier::Quick) | ("PageProtect", Tier::Quick) => 3,
        (_, Tier::Quick) => 4,
        ("MarkCompact", Tier::Thorough) | ("PageProtect", Tier::Thorough) => 4,
        (_, Tier::Thorough) => 5,
    }
}

fn variants(_plan: &str, _t: Tier) -> Vec<&'static str> {
    vec![""]
}

fn boot(plan: &str, _v: &str, _t: Tier) -> BootCfg {
    BootCfg::new(plan)
}

pub fn owns(sig: &str) -> bool {
    sig.starts_with("c11:") || sig.starts_with("gc:")
}

fn nontrivial(f: &ProgFacts) -> bool {
    f.gcs >= 2 && f.two_mutator_gcs > 0
}

fn filter(_v: &str, p: &[Op]) -> bool {
    p.iter().any(|o| matches!(o, Op::Gc { .. } | Op::Bind1))
}

pub const PROFILE: Profile = Profile {
    id: "C11",
    plans,
    variants,
    alphabet,
    depth,
    boot,
    owns,
    nontrivial,
    filter,
    rule: "every program of length <= depth over {alloc, write, drop, GC(normal), GC(exhaustive), bind/destroy second mutator} containing a GC or a bind, per collecting plan; the binding logs every call MMTk makes into it; per collection the log must be: stop_all_mutators (once, first), each bound mutator's roots scanned exactly once per root-scanning round (twice for plans that forward after liveness: MarkCompact, Compressor), resume_mutators (once, last), nothing after it; the request returns only after a collection finished. distinct_nontrivial = programs with >= 2 collections of which one ran with two bound mutators",
    post: None,
    timeout_s: |t| t.pick(300, 3000),
};

pub fn run(run: &mut Run) {
    crate::shadow_check::run(&PROFILE, run);
    // baton phase: two mutator threads requesting concurrently (props/c11b.rs)
    crate::props::c11b::run(run);
    run.assume("one GC worker in the deciding runs; schedules quantifier: see C14/C15 (baton)");
    run.assume("'no stop-the-world packet after resume' is observed through VM upcalls (scan/trace/weak-ref/copy events), not through packet events");
}

pub fn replay(case: &Value, run: &mut Run) {
    if crate::props::c11b::is_case(case) {
        return crate::props::c11b::replay(case, run);
    }
    crate::shadow_check::replay(&PROFILE, case, run);
}

pub fn child(args: &[String]) {
    crate::shadow_check::child(&PROFILE, args);
}
