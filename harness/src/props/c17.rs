//! C17 concurrent forwarding copies an object once and all tracers agree — seam (a), the unit-level
//! harness over the real `object_forwarding` functions (engine `baton`).
//!
//! 2–3 *tracer* threads each run, on ONE object in mapped scratch memory, the exact call pattern of
//! * `CopySpace::trace_object` (pattern `copy`):
//!   `attempt_to_forward`; lost -> `spin_and_get_forwarded_object`; won -> `forward_object`;
//! * `ImmixSpace::trace_object_with_opportunistic_copy` (patterns `immix_move`, `immix_decline`,
//!   `immix_premarked`): `attempt_to_forward`; lost -> `spin_and_get_forwarded_object`; won and
//!   already marked -> `clear_forwarding_bits`, return the object; won and the object must not move
//!   (pinned / no space) -> mark, `clear_forwarding_bits`, return the object; else `forward_object`.
//! An optional *observer* thread runs `get_forwarded_object`'s pattern
//! (`is_forwarded` ? `read_forwarding_pointer`) twice.
//!
//! An optional *neighbour* thread (1-2 tracers + neighbour) changes, concurrently with the
//! tracers, bits of the BYTE that holds the object's forwarding bits which do NOT belong to the
//! object's forwarding-bits field, through legal mmtk-core operations on a legitimately different
//! field.  Sub-byte compare-exchanges work on the whole metadata byte, so they fail when such a bit
//! changes between their internal load and the exchange: a claim protocol that does not retry (or
//! that takes the failure value for the winner's state) copies the object twice.
//! * forwarding bits on side (2 bits per 8 bytes, 4 objects per byte): the neighbour field is the
//!   forwarding-bits field of an ADJACENT OBJECT of the same 32-byte group.  Another GC worker
//!   forwards that object while ours is being forwarded (`side_forward`: real `attempt_to_forward`
//!   + real `forward_object`, i.e. CopySpace::trace_object on the neighbouring object, leaving
//!   FORWARDED and its own pointer), or claims and releases it (`side_claim_clear`: real
//!   `attempt_to_forward` + real `clear_forwarding_bits`, what Immix does for a pinned / already
//!   marked neighbouring object; the byte returns to its initial value: ABA).  Routine in every
//!   copying GC with >= 2 workers and objects of 8..24 bytes.
//! * forwarding bits in the header: the neighbour field is another 1-bit `HeaderMetadataSpec` of
//!   the same header byte (bindings that pack several specs into one header byte: an in-header
//!   unlog bit, pin bit or mark bit next to the forwarding bits).  The neighbour performs
//!   `store_atomic(1)` (exactly what `ProcessModBuf` does to the unlog bit of a mature object in a
//!   StickyImmix nursery GC while another worker traces that object through the opportunistic-copy
//!   pattern; also `pin_object` by a VM pinning roots while tracing runs), then `fetch_and(0)`,
//!   then `fetch_or(1)`: the three kinds of atomic the header spec offers (CAS loop, and/or RMW),
//!   ending with a value different from the initial one.
//!   In the two placements where the forwarding bits live INSIDE the forwarding-pointer word,
//!   `forward_object` legitimately overwrites the whole word (the old copy is dead): there the
//!   neighbour's own bit is not required to survive once the object has moved (the tracers' results
//!   are judged all the same).
//!
//! All the `object_forwarding` functions are the real ones (re-exported by a hook).  `forward_object`
//! calls `VM::VMObjectModel::copy`, which for the unit bindings `UnitVM<P>` is the harness-supplied
//! copy: it returns a fresh address and counts the call.  The `on_after_forwarding` callback
//! (VO bit of the new copy) is empty.  `is_marked` / `attempt_mark` of `ImmixSpace` need the whole
//! space: the metadata-level operations they perform on `LOCAL_MARK_BIT_SPEC` are used.
//!
//! Placements of (forwarding bits, forwarding pointer), selected at run time through `UnitVM<P>`
//! (see `unitvm.rs`): bits inside the pointer word at shift 0 (== the harness binding `VerifVM`'s
//! default placement A) and at shift 56, bits in a separate header word after / byte before the
//! pointer, bits on side + pointer in header, bits in header + pointer on side, both on side.
//!
//! Oracle: every thread finishes (no deadlock; a tracer spinning alone = livelock); the copy
//! function ran exactly once (0 times when the winner declined / the object was marked); all
//! tracers return the same reference: the new copy, or the unmoved object; every pointer the
//! observer obtained is the winner's copy; at quiescence the forwarding state is consistent
//! (FORWARDED + pointer == the copy, decoded independently; or bits clear + marked + pointer
//! untouched); no bit outside the fields changed (with a neighbour: outside the fields and the
//! neighbour's own field(s)); the neighbour's operations returned what they return when the
//! neighbour runs alone and its field holds what it last wrote (side: the neighbouring object was
//! claimed by the neighbour, copied once, ends FORWARDED + its own pointer / ends clear).

use crate::baton::{self, Arming, Config, End, ExecInfo, Op, Scenario, Verdict};
use crate::common::{machinery_failure, Run, Tier};
use crate::props::c18::{self, header_loc, init_scratch, side_loc, Loc, NWINDOWS, OBJ_BASE, WINDOW};
use crate::unitvm::{placement_name, CopyCtx, COPIES_BY_THIS_THREAD, COPY_CTX, FWD_PLACEMENTS};
use crate::with_unit_vm;
use mmtk::util::copy::{CopySemantics, GCWorkerCopyContext};
use mmtk::util::metadata::header_metadata::HeaderMetadataSpec;
use mmtk::util::metadata::MetadataSpec;
use mmtk::util::verif::rt::Kind;
use mmtk::util::verif::c17 as fwd;
use mmtk::util::{Address, ObjectReference};
use mmtk::vm::*;
use serde_json::{json, Value};
use std::sync::atomic::Ordering::SeqCst;
use std::sync::atomic::{AtomicI64, AtomicUsize};

const FORWARDED: u8 = 0b11;
const POINTER_MASK: usize = 0x00ff_ffff_ffff_fff8;
/// A stale "forwarding pointer" left in the pointer field before the execution (a wrong read then
/// yields a valid but wrong reference instead of null).
const STALE: usize = 0x50_7000;

#[derive(Clone, Copy, Debug, PartialEq, Eq)]
pub enum Pattern {
    Copy,
    ImmixMove,
    ImmixDecline,
    ImmixPremarked,
}

impl Pattern {
    fn name(&self) -> &'static str {
        match self {
            Pattern::Copy => "copyspace",
            Pattern::ImmixMove => "immix_move",
            Pattern::ImmixDecline => "immix_decline",
            Pattern::ImmixPremarked => "immix_premarked",
        }
    }
    fn from_name(s: &str) -> Pattern {
        match s {
            "copyspace" => Pattern::Copy,
            "immix_move" => Pattern::ImmixMove,
            "immix_decline" => Pattern::ImmixDecline,
            "immix_premarked" => Pattern::ImmixPremarked,
            other => machinery_failure(&format!("C17: unknown pattern {}", other)),
        }
    }
    fn moves(&self) -> bool {
        matches!(self, Pattern::Copy | Pattern::ImmixMove)
    }
}

/// What the neighbour thread does (see the module documentation).
#[derive(Clone, Copy, Debug, PartialEq, Eq)]
pub enum Nb {
    /// In-header forwarding bits: a 1-bit header field at this bit offset, in the same byte:
    /// `store_atomic(1)`, `fetch_and(0)`, `fetch_or(1)`.
    HeaderBit { off: isize },
    /// The same field, one single `fetch_or(1)` (one scheduling point: small enough for ALL
    /// interleavings with 2 tracers).
    HeaderBitOr { off: isize },
    /// Side forwarding bits: the object in slot `slot` of the same 32-byte group is forwarded
    /// (`attempt_to_forward`, `forward_object`).
    SideForward { slot: usize },
    /// Side forwarding bits: the object in slot `slot` of the same 32-byte group is claimed and
    /// released (`attempt_to_forward`, `clear_forwarding_bits`).
    SideClaimClear { slot: usize },
}

impl Nb {
    fn name(&self) -> String {
        match self {
            Nb::HeaderBit { off } => format!("header-bit{}", off),
            Nb::HeaderBitOr { off } => format!("header-bit{}-fetch_or-only", off),
            Nb::SideForward { slot } => format!("side-forward-slot{}", slot),
            Nb::SideClaimClear { slot } => format!("side-claim-clear-slot{}", slot),
        }
    }
    fn to_json(self) -> Value {
        match self {
            Nb::HeaderBit { off } => json!({"kind": "header_bit", "bit_offset": off}),
            Nb::HeaderBitOr { off } => json!({"kind": "header_bit_fetch_or_only", "bit_offset": off}),
            Nb::SideForward { slot } => json!({"kind": "side_forward", "slot": slot}),
            Nb::SideClaimClear { slot } => json!({"kind": "side_claim_clear", "slot": slot}),
        }
    }
    fn from_json(v: &Value) -> Option<Nb> {
        if v.is_null() {
            return None;
        }
        Some(match v["kind"].as_str().unwrap_or("") {
            "header_bit" => Nb::HeaderBit { off: v["bit_offset"].as_i64().unwrap() as isize },
            "header_bit_fetch_or_only" => Nb::HeaderBitOr { off: v["bit_offset"].as_i64().unwrap() as isize },
            "side_forward" => Nb::SideForward { slot: v["slot"].as_u64().unwrap() as usize },
            "side_claim_clear" => Nb::SideClaimClear { slot: v["slot"].as_u64().unwrap() as usize },
            other => machinery_failure(&format!("C17: unknown neighbour kind {}", other)),
        })
    }
}

#[derive(Clone, Debug)]
pub struct Params {
    pub pattern: Pattern,
    pub placement: usize,
    pub tracers: usize,
    pub observer: bool,
    /// object index inside its 32-byte group (selects the field inside the side forwarding-bits byte)
    pub slot: usize,
    /// the neighbour thread (the last thread), if any
    pub neighbour: Option<Nb>,
    pub bound: Option<u32>,
}

/// Addresses in messages are given relative to the scratch window of the exploring job, so that the
/// text does not depend on which job explored the configuration.
fn rel(a: usize) -> String {
    if a >= OBJ_BASE && a < OBJ_BASE + NWINDOWS * WINDOW {
        format!("window+{:#x}", (a - OBJ_BASE) % WINDOW)
    } else {
        format!("{:#x}", a)
    }
}

/// `rel` applied to every hexadecimal address inside a text (panic messages of mmtk-core name the
/// object by its absolute address).
fn rel_text(text: &str) -> String {
    let b = text.as_bytes();
    let mut out = String::new();
    let mut i = 0;
    while i < b.len() {
        if b[i] == b'0' && i + 1 < b.len() && b[i + 1] == b'x' {
            let mut j = i + 2;
            while j < b.len() && b[j].is_ascii_hexdigit() {
                j += 1;
            }
            match usize::from_str_radix(&text[i + 2..j], 16) {
                Ok(a) if j > i + 2 => out.push_str(&rel(a)),
                _ => out.push_str(&text[i..j]),
            }
            i = j;
        } else {
            let ch = text[i..].chars().next().unwrap();
            out.push(ch);
            i += ch.len_utf8();
        }
    }
    out
}

fn params_json(p: &Params) -> Value {
    json!({"pattern": p.pattern.name(), "placement": p.placement, "placement_name": placement_name(p.placement), "tracers": p.tracers, "observer": p.observer, "slot": p.slot, "neighbour": p.neighbour.map(|n| n.to_json()), "bound": p.bound})
}

fn params_from_json(v: &Value) -> Params {
    Params {
        pattern: Pattern::from_name(v["pattern"].as_str().unwrap_or("")),
        placement: v["placement"].as_u64().unwrap() as usize,
        tracers: v["tracers"].as_u64().unwrap() as usize,
        observer: v["observer"].as_bool().unwrap(),
        slot: v["slot"].as_u64().unwrap() as usize,
        neighbour: Nb::from_json(&v["neighbour"]),
        bound: v["bound"].as_u64().map(|b| b as u32),
    }
}

/// `ImmixSpace::is_marked(object)` (mark state 1)
fn immix_is_marked<VM: VMBinding>(object: ObjectReference) -> bool {
    VM::VMObjectModel::LOCAL_MARK_BIT_SPEC.load_atomic::<VM, u8>(object, None, SeqCst) == 1
}

fn trace_copyspace<VM: VMBinding>(object: ObjectReference) -> ObjectReference {
    let forwarding_status = fwd::attempt_to_forward::<VM>(object);
    if fwd::state_is_forwarded_or_being_forwarded(forwarding_status) {
        fwd::spin_and_get_forwarded_object::<VM>(object, forwarding_status)
    } else {
        let mut ctx = GCWorkerCopyContext::<VM>::new_non_copy();
        fwd::forward_object::<VM>(object, CopySemantics::DefaultCopy, &mut ctx, |_new_object| {})
    }
}

/// Returns (result, this call marked the object).
fn trace_immix<VM: VMBinding>(object: ObjectReference, must_not_move: bool) -> (ObjectReference, bool) {
    let forwarding_status = fwd::attempt_to_forward::<VM>(object);
    if fwd::state_is_forwarded_or_being_forwarded(forwarding_status) {
        (fwd::spin_and_get_forwarded_object::<VM>(object, forwarding_status), false)
    } else if immix_is_marked::<VM>(object) {
        fwd::clear_forwarding_bits::<VM>(object);
        (object, false)
    } else if must_not_move {
        let marked = c18::immix_attempt_mark::<VM>(object, 1);
        fwd::clear_forwarding_bits::<VM>(object);
        (object, marked)
    } else {
        let mut ctx = GCWorkerCopyContext::<VM>::new_non_copy();
        (fwd::forward_object::<VM>(object, CopySemantics::DefaultCopy, &mut ctx, |_new_object| {}), false)
    }
}

fn observe<VM: VMBinding>(object: ObjectReference) -> Option<ObjectReference> {
    if fwd::is_forwarded::<VM>(object) {
        Some(fwd::read_forwarding_pointer::<VM>(object))
    } else {
        None
    }
}

/// Where the fields of placement `p` live for `object`, computed without the code under test.
struct Layout {
    bits: Loc,
    /// address of the 8-byte word holding the forwarding pointer
    ptr_word: Address,
    ptr_in_header: bool,
    mark: Loc,
    /// bits and pointer share the header word (one store writes both)
    shared: bool,
}

fn layout(p: usize, object: ObjectReference) -> Layout {
    with_unit_vm!(p, VM, {
        let a = object.to_raw_address();
        let bits = match <VM as VMBinding>::VMObjectModel::LOCAL_FORWARDING_BITS_SPEC.as_spec() {
            MetadataSpec::InHeader(h) => header_loc(h, a),
            MetadataSpec::OnSide(s) => side_loc(s, a),
        };
        let (ptr_word, ptr_in_header) = match <VM as VMBinding>::VMObjectModel::LOCAL_FORWARDING_POINTER_SPEC.as_spec() {
            MetadataSpec::InHeader(h) => (a + h.bit_offset.div_euclid(8), true),
            MetadataSpec::OnSide(s) => (side_loc(s, a).byte, false),
        };
        let mark = match <VM as VMBinding>::VMObjectModel::LOCAL_MARK_BIT_SPEC.as_spec() {
            MetadataSpec::InHeader(h) => header_loc(h, a),
            MetadataSpec::OnSide(s) => side_loc(s, a),
        };
        let shared = ptr_in_header && bits.byte >= ptr_word && bits.byte < ptr_word + 8usize;
        Layout { bits, ptr_word, ptr_in_header, mark, shared }
    })
}

/// The neighbour thread's field(s), located without the code under test.
struct NbLayout {
    kind: Nb,
    /// the neighbour's field inside the byte that holds the object's forwarding bits
    field: Loc,
    /// header kind: the spec the neighbour operates on
    hdr_spec: Option<HeaderMetadataSpec>,
    /// side kinds: the neighbouring object, the word holding its forwarding pointer, its copy
    object: Option<ObjectReference>,
    ptr_word: Address,
    new_addr: usize,
    copy: CopyCtx,
}

pub struct Sc {
    p: Params,
    object: ObjectReference,
    lay: Layout,
    nb: Option<NbLayout>,
    /// neighbour: header kind = [1, fetch_and's result, fetch_or's result];
    /// side kinds = [1, attempt_to_forward's result, returned reference]; -1 = not reached
    nb_ret: [AtomicI64; 3],
    new_addr: usize,
    copy: CopyCtx,
    /// per tracer: returned reference (0 = none)
    ret: [AtomicUsize; 4],
    /// per tracer: number of copies it performed / it marked the object
    copied: [AtomicI64; 4],
    marked: [AtomicI64; 4],
    /// observer: two observations (0 = none, 1 = None, else the pointer)
    obs: [AtomicUsize; 2],
    /// initial content of the regions checked for stray writes: (address, bytes)
    watch: Vec<(Address, Vec<u8>)>,
}

impl Sc {
    pub fn new(p: Params, window: usize) -> Sc {
        init_scratch();
        assert!(window < NWINDOWS && p.slot < 4);
        let wbase = OBJ_BASE + window * WINDOW;
        let object = ObjectReference::from_raw_address(unsafe { Address::from_usize(wbase + 0x8040 + 8 * p.slot) }).unwrap();
        let lay = layout(p.placement, object);
        let new_addr = wbase + 0x4000;
        assert!(!(p.observer && p.neighbour.is_some()), "C17: observer and neighbour are not combined");
        let nb = p.neighbour.map(|kind| {
            let side_bits = matches!(p.placement, 104 | 106);
            let (field, hdr_spec, nobj, nptr) = match kind {
                Nb::HeaderBit { off } | Nb::HeaderBitOr { off } => {
                    if side_bits {
                        machinery_failure("C17: header neighbour on a side placement");
                    }
                    let spec = HeaderMetadataSpec { bit_offset: off, num_of_bits: 1 };
                    (header_loc(&spec, object.to_raw_address()), Some(spec), None, lay.ptr_word)
                }
                Nb::SideForward { slot } | Nb::SideClaimClear { slot } => {
                    if !side_bits || slot >= 4 || slot == p.slot {
                        machinery_failure("C17: side neighbour needs side forwarding bits and another slot of the group");
                    }
                    let nobj = ObjectReference::from_raw_address(unsafe { Address::from_usize(wbase + 0x8040 + 8 * slot) }).unwrap();
                    let nlay = layout(p.placement, nobj);
                    (nlay.bits, None, Some(nobj), nlay.ptr_word)
                }
            };
            // a different field of the same byte, disjoint from everything the tracers own
            if field.byte != lay.bits.byte || field.mask() & lay.bits.mask() != 0 {
                machinery_failure(&format!("C17: neighbour field {:?} is not another field of the forwarding-bits byte {:?}", field, lay.bits));
            }
            if field.byte == lay.mark.byte && field.mask() & lay.mark.mask() != 0 {
                machinery_failure("C17: neighbour field overlaps the mark bit");
            }
            if nobj.is_none() && lay.ptr_in_header && field.byte >= lay.ptr_word && field.byte < lay.ptr_word + 8usize {
                let k = field.byte - lay.ptr_word;
                if ((POINTER_MASK >> (8 * k)) & 0xff) as u8 & field.mask() != 0 {
                    machinery_failure("C17: neighbour field overlaps the forwarding-pointer field");
                }
            }
            NbLayout { kind, field, hdr_spec, object: nobj, ptr_word: nptr, new_addr: wbase + 0x5000, copy: CopyCtx { next: AtomicUsize::new(0), calls: AtomicUsize::new(0) } }
        });
        // background: a pattern in every watched byte; the fields are then given their initial values
        // (with a neighbour the regions are wider: they cover the header / side pointer word of every
        // object of the 32-byte group)
        let mut watch: Vec<(Address, Vec<u8>)> = vec![];
        let (before, hdr_len, side_before, side_len) = if nb.is_some() { (32usize, 80usize, 32usize, 72usize) } else { (16, 48, 8, 24) };
        let hdr = object.to_raw_address() - before;
        watch.push((hdr, vec![0xA5; hdr_len]));
        if !(lay.bits.byte >= hdr && lay.bits.byte < hdr + hdr_len) {
            watch.push((lay.bits.byte - 8usize, vec![0x5A; 24]));
        }
        if !lay.ptr_in_header {
            watch.push((lay.ptr_word - side_before, vec![0xC3; side_len]));
        }
        if !(lay.mark.byte >= hdr && lay.mark.byte < hdr + hdr_len) {
            watch.push((lay.mark.byte - 8usize, vec![0x3C; 24]));
        }
        if let Some(n) = &nb {
            if n.object.is_some() && !watch.iter().any(|(a, b)| n.ptr_word >= *a && n.ptr_word + 8usize <= *a + b.len()) {
                machinery_failure("C17: the neighbouring object's forwarding-pointer word is not watched");
            }
        }
        for i in 0..watch.len() {
            for j in i + 1..watch.len() {
                let (a, b) = (&watch[i], &watch[j]);
                if a.0 < b.0 + b.1.len() && b.0 < a.0 + a.1.len() {
                    machinery_failure(&format!("C17: watched regions overlap for placement {}", p.placement));
                }
            }
        }
        Sc { p, object, lay, nb, nb_ret: Default::default(), new_addr, copy: CopyCtx { next: AtomicUsize::new(0), calls: AtomicUsize::new(0) }, ret: Default::default(), copied: Default::default(), marked: Default::default(), obs: Default::default(), watch }
    }

    fn read_word(a: Address) -> usize {
        unsafe { std::ptr::read_volatile(a.to_ptr::<usize>()) }
    }
    fn write_word(a: Address, v: usize) {
        unsafe { std::ptr::write_volatile(a.to_mut_ptr::<usize>(), v) }
    }
    /// the pointer field (the masked bits of the pointer word; side: the whole word)
    fn pointer_field(&self) -> usize {
        let w = Self::read_word(self.lay.ptr_word);
        if self.lay.ptr_in_header {
            w & POINTER_MASK
        } else {
            w
        }
    }
    fn initial_mark(&self) -> u8 {
        (self.p.pattern == Pattern::ImmixPremarked) as u8
    }
    /// Is `addr` a byte whose bits other than `keep` must still hold the background?
    fn expected_changed_mask(&self, addr: Address) -> u8 {
        let mut m = 0u8;
        if addr == self.lay.bits.byte {
            m |= self.lay.bits.mask();
        }
        if addr == self.lay.mark.byte {
            m |= self.lay.mark.mask();
        }
        if addr >= self.lay.ptr_word && addr < self.lay.ptr_word + 8usize {
            let k = addr - self.lay.ptr_word;
            let field = if self.lay.shared {
                // forward_object stores the whole word when the bits live inside it
                usize::MAX
            } else if self.lay.ptr_in_header {
                POINTER_MASK
            } else {
                usize::MAX
            };
            m |= ((field >> (8 * k)) & 0xff) as u8;
        }
        if let Some(n) = &self.nb {
            // exactly the neighbour's own bits: its field in the forwarding-bits byte and, if it
            // forwards the neighbouring object, that object's forwarding-pointer field
            if addr == n.field.byte {
                m |= n.field.mask();
            }
            if matches!(n.kind, Nb::SideForward { .. }) && addr >= n.ptr_word && addr < n.ptr_word + 8usize {
                let k = addr - n.ptr_word;
                let field = if self.lay.ptr_in_header { POINTER_MASK } else { usize::MAX };
                m |= ((field >> (8 * k)) & 0xff) as u8;
            }
        }
        m
    }
    /// The neighbour's pointer field (side kinds).
    fn nb_pointer_field(&self, n: &NbLayout) -> usize {
        let w = Self::read_word(n.ptr_word);
        if self.lay.ptr_in_header {
            w & POINTER_MASK
        } else {
            w
        }
    }
    fn nb_tid(&self) -> Option<usize> {
        self.nb.as_ref().map(|_| self.p.tracers + self.p.observer as usize)
    }
    /// A write-like atomic of the neighbour on the forwarding-bits byte fell between a tracer's
    /// access to that byte and the same tracer's following compare-exchange on it (the collision
    /// the neighbour scenarios exist for: that compare-exchange fails although nobody touched the
    /// object's own bits, or succeeds on a byte the neighbour has restored).
    fn neighbour_hit(&self, info: &ExecInfo) -> bool {
        let nbt = match self.nb_tid() {
            Some(t) => t,
            None => return false,
        };
        let byte = self.lay.bits.byte.as_usize();
        let mut accessed = [false; 4];
        let mut dirty = [false; 4];
        for s in &info.steps {
            if let Op::Atomic { kind, addr } = s.op {
                if addr != byte {
                    continue;
                }
                let t = s.tid as usize;
                if t == nbt {
                    if kind.is_write() {
                        dirty = [true; 4];
                    }
                } else if t < self.p.tracers {
                    if kind == Kind::AtomicCas && accessed[t] && dirty[t] {
                        return true;
                    }
                    accessed[t] = true;
                    dirty[t] = false;
                }
            }
        }
        false
    }
    fn neighbour_body(&self, n: &NbLayout) {
        self.nb_ret[0].store(1, SeqCst);
        match n.kind {
            Nb::HeaderBit { .. } => {
                let spec = n.hdr_spec.unwrap();
                let h = self.object.to_raw_address();
                spec.store_atomic::<u8>(h, 1, None, SeqCst);
                self.nb_ret[1].store(spec.fetch_and::<u8>(h, 0, SeqCst) as i64, SeqCst);
                self.nb_ret[2].store(spec.fetch_or::<u8>(h, 1, SeqCst) as i64, SeqCst);
            }
            Nb::HeaderBitOr { .. } => {
                let spec = n.hdr_spec.unwrap();
                self.nb_ret[1].store(1, SeqCst);
                self.nb_ret[2].store(spec.fetch_or::<u8>(self.object.to_raw_address(), 1, SeqCst) as i64, SeqCst);
            }
            Nb::SideForward { .. } => {
                let o = n.object.unwrap();
                COPY_CTX.with(|c| c.set(&n.copy as *const CopyCtx));
                with_unit_vm!(self.p.placement, VM, {
                    let status = fwd::attempt_to_forward::<VM>(o);
                    self.nb_ret[1].store(status as i64, SeqCst);
                    // nobody else touches the neighbouring object: anything but "not triggered yet"
                    // is reported by the oracle (spinning on it would never end)
                    if !fwd::state_is_forwarded_or_being_forwarded(status) {
                        let mut ctx = GCWorkerCopyContext::<VM>::new_non_copy();
                        let r = fwd::forward_object::<VM>(o, CopySemantics::DefaultCopy, &mut ctx, |_new_object| {});
                        self.nb_ret[2].store(r.to_raw_address().as_usize() as i64, SeqCst);
                    }
                });
                COPY_CTX.with(|c| c.set(std::ptr::null()));
            }
            Nb::SideClaimClear { .. } => {
                let o = n.object.unwrap();
                with_unit_vm!(self.p.placement, VM, {
                    let status = fwd::attempt_to_forward::<VM>(o);
                    self.nb_ret[1].store(status as i64, SeqCst);
                    if !fwd::state_is_forwarded_or_being_forwarded(status) {
                        fwd::clear_forwarding_bits::<VM>(o);
                        self.nb_ret[2].store(o.to_raw_address().as_usize() as i64, SeqCst);
                    }
                });
            }
        }
    }
    /// Oracle on the neighbour: `(clause, message)` if its operations did not behave as when it runs
    /// alone or its last write did not survive.
    fn check_neighbour(&self, n: &NbLayout) -> Option<(&'static str, String)> {
        if self.lay.shared && self.p.pattern.moves() {
            // forward_object has overwritten the whole pointer word, by design
            return None;
        }
        let r: Vec<i64> = self.nb_ret.iter().map(|x| x.load(SeqCst)).collect();
        let fv = n.field.get();
        match n.kind {
            Nb::HeaderBit { off } | Nb::HeaderBitOr { off } => {
                if r != [1, 1, 0] {
                    Some(("neighbour-return-value", format!("the neighbour's fetch_and(0) / fetch_or(1) on header bit {} returned {:?}; alone they return [1, 0] (nobody else writes that bit; with the fetch_or-only neighbour the first number is a constant)", off, &r[1..])))
                } else if fv != 1 {
                    Some(("neighbour-lost-write", format!("header bit {} holds {} but its owner last wrote 1 (fetch_or)", off, fv)))
                } else {
                    None
                }
            }
            Nb::SideForward { slot } => {
                let calls = n.copy.calls.load(SeqCst);
                let ptr = self.nb_pointer_field(n);
                if r[1] != 0 {
                    Some(("neighbour-return-value", format!("attempt_to_forward on the neighbouring object (slot {}) returned {:#04b} although no other thread touches that object", slot, r[1])))
                } else if calls != 1 || r[2] != n.new_addr as i64 {
                    Some(("neighbour-return-value", format!("the neighbouring object (slot {}) was copied {} times and forward_object returned {}, expected once and {}", slot, calls, rel(r[2] as usize), rel(n.new_addr))))
                } else if fv != FORWARDED || ptr != n.new_addr {
                    Some(("neighbour-lost-write", format!("the neighbouring object (slot {}) ends with forwarding bits {:#04b} and pointer field {}; its forwarder last wrote 0b11 and {}", slot, fv, rel(ptr), rel(n.new_addr))))
                } else {
                    None
                }
            }
            Nb::SideClaimClear { slot } => {
                if r[1] != 0 {
                    Some(("neighbour-return-value", format!("attempt_to_forward on the neighbouring object (slot {}) returned {:#04b} although no other thread touches that object", slot, r[1])))
                } else if r[2] < 0 {
                    Some(("neighbour-return-value", "the neighbour did not finish".to_string()))
                } else if fv != 0 {
                    Some(("neighbour-lost-write", format!("the neighbouring object (slot {}) ends with forwarding bits {:#04b}; its owner last cleared them", slot, fv)))
                } else {
                    None
                }
            }
        }
    }
}

impl Scenario for Sc {
    fn name(&self) -> String {
        let nb = self.p.neighbour.map(|n| format!("+neighbour:{}", n.name())).unwrap_or_default();
        format!("C17/{}/{}/tracers={}{}{}/slot{}", self.p.pattern.name(), placement_name(self.p.placement), self.p.tracers, if self.p.observer { "+observer" } else { "" }, nb, self.p.slot)
    }
    fn params(&self) -> Value {
        params_json(&self.p)
    }
    fn threads(&self) -> usize {
        self.p.tracers + self.p.observer as usize + self.p.neighbour.is_some() as usize
    }
    fn setup(&self, arming: &mut Arming) {
        for (a, bytes) in &self.watch {
            for (k, b) in bytes.iter().enumerate() {
                unsafe { std::ptr::write_volatile((*a + k).to_mut_ptr::<u8>(), *b) };
            }
            arming.range(a.as_usize(), a.as_usize() + bytes.len());
        }
        // initial field values: pointer field = a stale pointer, bits = 0, mark per pattern
        let w = Self::read_word(self.lay.ptr_word);
        if self.lay.ptr_in_header {
            Self::write_word(self.lay.ptr_word, (w & !POINTER_MASK) | (STALE & POINTER_MASK));
        } else {
            Self::write_word(self.lay.ptr_word, STALE);
        }
        self.lay.bits.set(0);
        self.lay.mark.set(self.initial_mark());
        if let Some(n) = &self.nb {
            n.field.set(0);
            n.copy.next.store(n.new_addr, SeqCst);
            n.copy.calls.store(0, SeqCst);
        }
        for r in &self.nb_ret {
            r.store(-1, SeqCst);
        }
        self.copy.next.store(self.new_addr, SeqCst);
        self.copy.calls.store(0, SeqCst);
        for i in 0..4 {
            self.ret[i].store(0, SeqCst);
            self.copied[i].store(0, SeqCst);
            self.marked[i].store(0, SeqCst);
        }
        self.obs[0].store(0, SeqCst);
        self.obs[1].store(0, SeqCst);
    }
    fn body(&self, tid: usize) {
        COPY_CTX.with(|c| c.set(&self.copy as *const CopyCtx));
        let o = self.object;
        if tid < self.p.tracers {
            COPIES_BY_THIS_THREAD.with(|c| c.set(0));
            let (r, marked) = with_unit_vm!(self.p.placement, VM, {
                match self.p.pattern {
                    Pattern::Copy => (trace_copyspace::<VM>(o), false),
                    Pattern::ImmixMove | Pattern::ImmixPremarked => trace_immix::<VM>(o, false),
                    Pattern::ImmixDecline => trace_immix::<VM>(o, true),
                }
            });
            self.copied[tid].store(COPIES_BY_THIS_THREAD.with(|c| c.get()) as i64, SeqCst);
            self.marked[tid].store(marked as i64, SeqCst);
            self.ret[tid].store(r.to_raw_address().as_usize(), SeqCst);
        } else if Some(tid) == self.nb_tid() {
            self.neighbour_body(self.nb.as_ref().unwrap());
        } else {
            for k in 0..2 {
                let v = with_unit_vm!(self.p.placement, VM, observe::<VM>(o));
                self.obs[k].store(v.map(|r| r.to_raw_address().as_usize()).unwrap_or(1), SeqCst);
            }
        }
        COPY_CTX.with(|c| c.set(std::ptr::null()));
    }
    fn check(&self, info: &ExecInfo) -> Verdict {
        let pl = if self.p.placement <= 101 { "shared-word" } else if self.p.placement <= 103 { "header-separate" } else { "side" };
        let sig = |clause: &str| format!("{}:{}:{}", clause, self.p.pattern.name(), pl);
        let n = self.p.tracers;
        let obj = self.object.to_raw_address().as_usize();
        let rets: Vec<usize> = (0..n).map(|i| self.ret[i].load(SeqCst)).collect();
        let copied: Vec<i64> = (0..n).map(|i| self.copied[i].load(SeqCst)).collect();
        let marked: Vec<i64> = (0..n).map(|i| self.marked[i].load(SeqCst)).collect();
        let copies = self.copy.calls.load(SeqCst);
        let obs = [self.obs[0].load(SeqCst), self.obs[1].load(SeqCst)];
        let winner: Vec<usize> = (0..n).filter(|i| copied[*i] > 0 || marked[*i] > 0).collect();
        let tracer_ids: Vec<u8> = (0..self.threads() as u8).collect();
        let lo = self.watch[0].0.as_usize();
        let mut nontrivial = false;
        for (a, b) in &self.watch {
            nontrivial |= info.interleaved_on(a.as_usize(), a.as_usize() + b.len(), &tracer_ids);
        }
        let _ = lo;
        let mut outcome = format!("{}:winner={:?}:copies={}:obs={:?}", info.end.name(), winner, copies, obs.iter().map(|o| match *o { 0 => "-", 1 => "none", _ => "ptr" }).collect::<Vec<_>>());
        if self.nb.is_some() {
            // neighbour scenarios: non-trivial = the neighbour's write hit a tracer's load..CAS window
            nontrivial = self.neighbour_hit(info);
            outcome.push_str(if nontrivial { ":nb=hit" } else { ":nb=miss" });
        }
        let want_ret = if self.p.pattern.moves() { self.new_addr } else { obj };
        let want_copies = if self.p.pattern.moves() { 1 } else { 0 };
        let mut violation = None;
        if info.end != End::Complete {
            let clause = match info.end {
                End::Livelock(_) => "spins-for-ever",
                End::Deadlock(_) => "deadlock",
                _ => "no-termination",
            };
            violation = Some((sig(clause), format!("execution ended with {:?}", info.end)));
        } else if let Some((t, m)) = info.panics.iter().enumerate().find_map(|(t, p)| p.as_ref().map(|m| (t, m.clone()))) {
            violation = Some((sig("panic"), format!("thread {} panicked: {}", t, rel_text(&m))));
        } else if copies != want_copies {
            violation = Some((sig("copy-count"), format!("the object was copied {} times (by tracer: {:?}), expected {}", copies, copied, want_copies)));
        } else if rets.iter().any(|r| *r != rets[0]) {
            violation = Some((sig("tracers-disagree"), format!("tracers returned {:?} (the copy is {}, the object {}, a stale pointer left in the field {})", rets.iter().map(|r| rel(*r)).collect::<Vec<_>>(), rel(self.new_addr), rel(obj), rel(STALE))));
        } else if rets[0] != want_ret {
            violation = Some((sig("wrong-reference"), format!("tracers returned {}, expected {} ({})", rel(rets[0]), rel(want_ret), if self.p.pattern.moves() { "the copy" } else { "the unmoved object" })));
        } else if obs.iter().any(|o| *o > 1 && *o != self.new_addr) || (!self.p.pattern.moves() && obs.iter().any(|o| *o > 1)) {
            violation = Some((sig("reader-got-foreign-pointer"), format!("an observer read forwarding pointer {:?}; the winner's copy is {}", obs.iter().filter(|o| **o > 1).map(|o| rel(*o)).collect::<Vec<_>>(), rel(self.new_addr))));
        } else {
            // final state, decoded independently
            let bits = self.lay.bits.get();
            let ptr = self.pointer_field();
            let mark = self.lay.mark.get();
            if self.p.pattern.moves() {
                if bits != FORWARDED || ptr != self.new_addr {
                    violation = Some((sig("final-state"), format!("after forwarding: forwarding bits {:#04b}, pointer field {}; expected 0b11 and {}", bits, rel(ptr), rel(self.new_addr))));
                } else {
                    let (f, p2) = with_unit_vm!(self.p.placement, VM, (fwd::is_forwarded::<VM>(self.object), fwd::read_forwarding_pointer::<VM>(self.object)));
                    if !f || p2.to_raw_address().as_usize() != self.new_addr {
                        violation = Some((sig("final-state"), format!("is_forwarded = {}, read_forwarding_pointer = {}", f, rel(p2.to_raw_address().as_usize()))));
                    }
                }
                if violation.is_none() && mark != self.initial_mark() {
                    violation = Some((sig("stray-write"), "the mark bit of the old object changed".to_string()));
                }
            } else if bits != 0 || mark != 1 || ptr != STALE {
                violation = Some((sig("final-state"), format!("after declining: forwarding bits {:#04b} (expected 0), mark {} (expected 1), pointer field {:#x} (expected the untouched stale value {:#x})", bits, mark, ptr, STALE)));
            }
            if violation.is_none() {
                if let Some(n) = &self.nb {
                    violation = self.check_neighbour(n).map(|(clause, msg)| (sig(clause), msg));
                }
            }
            if violation.is_none() {
                'outer: for (a, bytes) in &self.watch {
                    for (k, bg) in bytes.iter().enumerate() {
                        let addr = *a + k;
                        let b = unsafe { std::ptr::read_volatile(addr.to_ptr::<u8>()) };
                        if (b ^ bg) & !self.expected_changed_mask(addr) != 0 {
                            violation = Some((sig("stray-write"), format!("byte {} of watched region {} holds {:#04x}, background {:#04x}: bits outside the forwarding / mark fields (and the neighbour's own field) changed", k, self.watch.iter().position(|w| w.0 == *a).unwrap_or(0), b, bg)));
                            break 'outer;
                        }
                    }
                }
            }
        }
        Verdict { outcome, violation, nontrivial }
    }
    fn min_outcomes(&self) -> usize {
        let base = match self.p.pattern {
            // every tracer must be seen winning
            Pattern::Copy | Pattern::ImmixMove | Pattern::ImmixDecline => self.p.tracers,
            Pattern::ImmixPremarked => 1,
        };
        // with a neighbour: its write must be seen both hitting and missing a tracer's window
        if self.nb.is_some() {
            base.max(2)
        } else {
            base
        }
    }
}

fn configs(tier: Tier) -> Vec<Params> {
    let thorough = tier == Tier::Thorough;
    let mut v = vec![];
    for pattern in [Pattern::Copy, Pattern::ImmixMove, Pattern::ImmixDecline, Pattern::ImmixPremarked] {
        for placement in FWD_PLACEMENTS {
            let side_bits = placement == 104 || placement == 106;
            let slots: Vec<usize> = if side_bits { if thorough { vec![0, 1, 2, 3] } else { vec![0, 3] } } else { vec![0] };
            for slot in slots {
                // one placement of each kind is explored deeper: bits in the pointer word (== the
                // harness binding's default placement A), separate header word, bits on side
                let deep = matches!(placement, 100 | 102 | 104) && slot == 0;
                // 2 tracers: every interleaving of the CopySpace pattern (<= 5 * 10^4 executions; quick:
                // on the deep placements) and, in the thorough tier, of the Immix patterns on the deep
                // placements (~2 * 10^5 executions each, up to 16 preemptions); a preemption bound
                // elsewhere
                let b2 = match (pattern, thorough, deep) {
                    (Pattern::Copy, true, _) | (Pattern::Copy, false, true) => None,
                    (_, true, true) => None,
                    (_, true, false) => Some(5),
                    (_, false, _) => Some(4),
                };
                v.push(Params { pattern, placement, tracers: 2, observer: false, slot, neighbour: None, bound: b2 });
                if slot == 0 || thorough {
                    // 2 tracers + observer
                    v.push(Params { pattern, placement, tracers: 2, observer: true, slot, neighbour: None, bound: Some(if thorough { 4 } else { 2 }) });
                    // 3 tracers
                    let b3 = match (thorough, deep) {
                        (true, true) if matches!(pattern, Pattern::Copy | Pattern::ImmixDecline) => 3,
                        (true, _) => 2,
                        (false, true) if matches!(pattern, Pattern::Copy | Pattern::ImmixDecline) => 2,
                        (false, _) => 1,
                    };
                    v.push(Params { pattern, placement, tracers: 3, observer: false, slot, neighbour: None, bound: Some(b3) });
                }
            }
        }
    }
    v.extend(neighbour_configs(tier));
    v
}

/// The neighbour fields of a placement: (slot of the object, neighbour).
fn neighbours_of(placement: usize, thorough: bool) -> Vec<(usize, Nb)> {
    // in-header: the 1-bit fields next to the forwarding bits and (thorough) at the other end of the
    // byte.  With the bits at shift 0 of the pointer word, bit 2 is the only bit of the byte that
    // belongs neither to the forwarding bits nor to the pointer field.
    let hdr = |offs: &[isize]| -> Vec<(usize, Nb)> { offs.iter().take(if thorough { 2 } else { 1 }).map(|o| (0, Nb::HeaderBit { off: *o })).collect() };
    match placement {
        100 => hdr(&[2]),
        101 => hdr(&[58, 63]),
        102 | 105 => hdr(&[66, 71]),
        103 => hdr(&[-6, -1]),
        // side: the adjacent objects of the 32-byte group (cyclic), both ends of the byte
        _ => {
            if thorough {
                let mut v = vec![];
                for slot in 0..4 {
                    v.push((slot, Nb::SideForward { slot: (slot + 1) % 4 }));
                    v.push((slot, Nb::SideClaimClear { slot: (slot + 3) % 4 }));
                }
                v
            } else {
                vec![(0, Nb::SideForward { slot: 1 }), (3, Nb::SideClaimClear { slot: 2 })]
            }
        }
    }
}

fn neighbour_configs(tier: Tier) -> Vec<Params> {
    let thorough = tier == Tier::Thorough;
    let mut v = vec![];
    // 2 tracers + a neighbour that performs ONE atomic read-modify-write (`fetch_or(1)`) on the
    // neighbouring header bit, CopySpace pattern: EVERY interleaving where the tree is small enough
    // (bits inside the pointer word: 3.8 * 10^3 executions; bits in header + pointer on side:
    // 3.7 * 10^5, thorough only); with the bits in a separate header word / byte and the pointer in
    // the header the tree has 1.7 * 10^6 executions (measured once): preemption bound 6 there.
    let once: &[(usize, isize, Option<u32>)] = if thorough { &[(105, 66, None), (102, 66, Some(6)), (103, -6, Some(6)), (100, 2, None), (101, 58, None)] } else { &[(100, 2, None)] };
    for (placement, off, bound) in once {
        v.push(Params { pattern: Pattern::Copy, placement: *placement, tracers: 2, observer: false, slot: 0, neighbour: Some(Nb::HeaderBitOr { off: *off }), bound: *bound });
    }
    for pattern in [Pattern::Copy, Pattern::ImmixMove, Pattern::ImmixDecline, Pattern::ImmixPremarked] {
        for placement in FWD_PLACEMENTS {
            for (k, (slot, nb)) in neighbours_of(placement, thorough).into_iter().enumerate() {
                // 1 tracer + neighbour: every interleaving
                v.push(Params { pattern, placement, tracers: 1, observer: false, slot, neighbour: Some(nb), bound: None });
                // 2 tracers + neighbour: preemption bound 2 (quick) / 3 (thorough; 4 with the first
                // neighbour of one placement of each kind: bits in the pointer word, separate header
                // word, bits on side).  The whole tree is not affordable: even the smallest
                // configuration (CopySpace pattern, bits in the pointer word: 1.0 * 10^4 executions at
                // bound 4, growing about 4x per bound) did not finish within minutes.
                let deep = matches!(placement, 100 | 102 | 104) && k == 0;
                let b2 = match (thorough, deep) {
                    (false, _) => 2,
                    (true, false) => 3,
                    (true, true) => 4,
                };
                v.push(Params { pattern, placement, tracers: 2, observer: false, slot, neighbour: Some(nb), bound: Some(b2) });
            }
        }
    }
    // the longest jobs first (scenarios are handed to the exploration jobs in list order; the order
    // has no other effect): rough weights from the measured execution counts
    v.sort_by_key(|p| {
        let side_fwd = matches!(p.neighbour, Some(Nb::SideForward { .. }));
        let w = match (p.tracers, p.bound, p.placement) {
            (2, Some(4), 104) => 10,
            (2, None, 105) => 9,
            (2, Some(4), 102) | (2, Some(6), _) => 6,
            (1, _, 104) if side_fwd => 5,
            (1, _, 106) if side_fwd => 4,
            _ => 0,
        };
        std::cmp::Reverse(w)
    });
    v
}

fn verifvm_placement() -> String {
    // which UnitVM placement has the harness binding's own forwarding specs
    use crate::vm::VerifVM;
    let b = format!("{:?}", <VerifVM as ObjectModel<VerifVM>>::LOCAL_FORWARDING_BITS_SPEC.as_spec());
    let p = format!("{:?}", <VerifVM as ObjectModel<VerifVM>>::LOCAL_FORWARDING_POINTER_SPEC.as_spec());
    for q in FWD_PLACEMENTS {
        let (qb, qp) = with_unit_vm!(q, VM, (format!("{:?}", <VM as VMBinding>::VMObjectModel::LOCAL_FORWARDING_BITS_SPEC.as_spec()), format!("{:?}", <VM as VMBinding>::VMObjectModel::LOCAL_FORWARDING_POINTER_SPEC.as_spec())));
        if qb == b && qp == p {
            return format!("VerifVM placement {} == UnitVM<{}> ({})", crate::vm::PLACEMENT, q, placement_name(q));
        }
    }
    format!("VerifVM placement {} (forwarding bits {}, pointer {}) has no identical UnitVM placement; nearest: {}", crate::vm::PLACEMENT, b, p, if crate::vm::PLACEMENT == "B" { "UnitVM<106> (both on side, other offsets)" } else { "-" })
}

pub fn run(run: &mut Run) {
    if std::env::var("C17_PHASE").as_deref() == Ok("b") {
        // debugging aid: only seam (b)
        return crate::props::c17b::run(run);
    }
    init_scratch();
    let mut cfgs = configs(run.tier);
    if let Ok(f) = std::env::var("C17_FILTER") {
        // debugging aid: only the scenarios whose name contains the filter
        cfgs.retain(|p| Sc::new(p.clone(), 0).name().contains(&f));
    }
    let jobs = run.jobs.min(NWINDOWS).min(8);
    let stats = baton::explore_many(run, cfgs.len(), jobs, |i, slot| {
        let p = cfgs[i].clone();
        let cfg = Config { bound: p.bound, max_executions: 3_000_000, ..Config::default() };
        (Sc::new(p, slot), cfg)
    });
    let mut exhaustive2 = 0u64;
    let mut min2 = u32::MAX;
    let mut min3 = u32::MAX;
    let mut minobs = u32::MAX;
    let mut nb_cfgs = 0u64;
    let mut nb_exec = 0u64;
    let mut nb_hits = 0u64;
    let mut nb_all1 = true;
    let mut nb_exhaustive2 = 0u64;
    let mut nb_min2 = u32::MAX;
    // measured per-scenario figures of the first neighbour scenario of each (kind, tracer count)
    let mut nb_samples: Vec<Value> = vec![];
    let mut nb_sampled: Vec<(std::mem::Discriminant<Nb>, usize)> = vec![];
    for (p, st) in cfgs.iter().zip(stats.iter()) {
        if let Some(nb) = &p.neighbour {
            nb_cfgs += 1;
            nb_exec += st.executions;
            nb_hits += st.nontrivial;
            let key = (std::mem::discriminant(nb), p.tracers);
            if !nb_sampled.contains(&key) {
                nb_sampled.push(key);
                nb_samples.push(json!({"scenario": Sc::new(p.clone(), 0).name(), "params": params_json(p), "executions": st.executions, "executions_neighbour_write_between_a_tracers_load_and_cas": st.nontrivial, "executions_by_preemptions": st.by_preemptions, "all_interleavings": st.unbounded_complete, "outcome_classes": st.outcomes}));
            }
        }
        if st.violations > 0 {
            continue;
        }
        let b = if st.unbounded_complete { 99 } else { st.completed_bound.unwrap_or(0) };
        if p.neighbour.is_some() {
            if st.complete && st.nontrivial == 0 {
                machinery_failure(&format!("C17: vacuous neighbour scenario {}: the neighbour's write never fell between a tracer's load and compare-exchange", Sc::new(p.clone(), 0).name()));
            }
            if p.tracers == 1 {
                nb_all1 &= st.unbounded_complete;
            } else if st.unbounded_complete {
                nb_exhaustive2 += 1;
            } else {
                nb_min2 = nb_min2.min(b);
            }
        } else if p.tracers == 2 && !p.observer {
            if st.unbounded_complete {
                exhaustive2 += 1;
            } else {
                min2 = min2.min(b);
            }
        } else if p.tracers == 3 {
            min3 = min3.min(b);
        } else {
            minobs = minobs.min(b);
        }
    }
    run.set("configurations_2_tracers_with_all_interleavings_explored", exhaustive2);
    run.set("completed_preemption_bound_other_2_tracer_configurations", if min2 == u32::MAX { 99 } else { min2 as u64 });
    run.set("configurations", cfgs.len() as u64);
    run.set("completed_preemption_bound_3_tracers", if min3 == u32::MAX { 0 } else { min3 as u64 });
    run.set("completed_preemption_bound_2_tracers_plus_observer", if minobs == u32::MAX { 99 } else { minobs as u64 });
    run.set("neighbour_scenario_samples", nb_samples);
    run.set("configurations_with_neighbour", nb_cfgs);
    run.set("executions_with_neighbour", nb_exec);
    run.set("executions_neighbour_write_between_a_tracers_load_and_cas", nb_hits);
    run.set("all_interleavings_explored_for_1_tracer_plus_neighbour", nb_all1);
    run.set("configurations_2_tracers_plus_neighbour_with_all_interleavings_explored", nb_exhaustive2);
    run.set("completed_preemption_bound_other_2_tracers_plus_neighbour", if nb_min2 == u32::MAX { 99 } else { nb_min2 as u64 });
    run.set("placements_run", FWD_PLACEMENTS.iter().map(|p| placement_name(*p)).collect::<Vec<_>>());
    run.set("harness_binding_placement", verifvm_placement());
    run.set("rule", "per (trace pattern {CopySpace::trace_object, Immix opportunistic copy: move / decline / already marked}, placement of forwarding bits and pointer {in pointer word shift 0 / 56, separate header word / byte, bits side, pointer side, both side}, 2-3 tracers, optional observer): every interleaving at the forwarding / mark metadata atomics of the object (2 tracers: all; 3 tracers and quick-tier observer runs: up to the stated preemption bound); oracle: copy ran exactly once (0 if declined), all tracers return the same reference (the copy / the unmoved object), observers only ever read the winner's pointer, nobody spins for ever, final forwarding state consistent, no stray write; non-trivial = some thread was interleaved by another between two of its own atomics on the object's metadata. Neighbour scenarios (1-2 tracers + a neighbour thread that changes OTHER bits of the byte holding the object's forwarding bits: side bits -> the neighbouring object of the 32-byte group is forwarded (attempt_to_forward + forward_object) or claimed and released (attempt_to_forward + clear_forwarding_bits); in-header bits -> store_atomic(1), fetch_and(0), fetch_or(1) on a 1-bit header field of the same byte, or one single fetch_or(1)): 1 tracer + neighbour all interleavings, 2 tracers + neighbour up to the stated bound (all interleavings for the single-fetch_or neighbour where stated); same oracle, the stray-write clause tolerating exactly the neighbour's own field(s), plus: the neighbour's calls return what they return alone and its last write survives (not required of a header bit inside the forwarding-pointer word once forward_object has overwritten that word); non-trivial there = a write-like atomic of the neighbour on the forwarding-bits byte fell between a tracer's access to that byte and the same tracer's next compare-exchange on it (every neighbour scenario must contain such executions)");
    run.assume("sequentially consistent interleavings at the instrumented atomics only (engine baton); no weak-memory effects");
    run.assume("neighbour scenarios: the neighbour field is a 1-bit in-header field chosen by the harness in the forwarding-bits byte (bit 2 next to bits at shift 0; bits 58/63, 66/71, -6/-1 elsewhere), resp. the side forwarding bits of the adjacent object 8 bytes away (objects of 8 bytes, the minimum the side spec's granule allows); observer and neighbour are not combined");
    run.assume("seam (a): the object_forwarding functions under the call patterns of CopySpace::trace_object and ImmixSpace::trace_object_with_opportunistic_copy; the copy itself is a harness function returning a fresh address (VM::VMObjectModel::copy of the unit binding), the on_after_forwarding callback is empty, ImmixSpace::is_marked/attempt_mark are replaced by their metadata-level operations");
    // seam (b): the real trace_object raced inside real collections (child processes)
    if std::env::var("C17_FILTER").is_err() && std::env::var("C17_PHASE").as_deref() != Ok("a") {
        crate::props::c17b::run(run);
    }
}

pub fn replay(case: &Value, run: &mut Run) {
    if crate::props::c17b::is_case(case) {
        return crate::props::c17b::replay(case, run);
    }
    init_scratch();
    let p = params_from_json(&case["params"]);
    let sc = Sc::new(p, 0);
    let (info, v) = baton::replay_case(&sc, case, 20_000, 64);
    eprintln!("trace: {}", info.pretty());
    eprintln!("outcome: {}", v.outcome);
    if let Some((sig, msg)) = v.violation {
        run.violation(sig, msg, case.clone());
    }
}
