//! C17 concurrent forwarding copies an object once and all tracers agree — seam (a), the unit-level
//! harness over the real `object_forwarding` functions (engine `baton`).
//!
//! 2–3 *tracer* threads each run, on ONE object in mapped scratch memory, the exact call pattern of
//! * `CopySpace::trace_object` (pattern `copy`):
//!   `attempt_to_forward`; lost -> `spin_and_get_forwarded_object`; won -> `forward_object`;
//! * `ImmixSpace::trace_object_with_opportunistic_copy` (patterns `immix_move`, `immix_decline`,
//!   `immix_premarked`): `attempt_to_forward`; lost -> `spin_and_get_forwarded_object`; won and
//!   already marked -> `clear_forwarding_bits`, return the object; won and the object must not move
//!   (pinned / no space) -> mark, `clear_forwarding_bits`, return the object; else `forward_object`.
//! An optional *observer* thread runs `get_forwarded_object`'s pattern
//! (`is_forwarded` ? `read_forwarding_pointer`) twice.
//!
//! All the `object_forwarding` functions are the real ones (re-exported by a hook).  `forward_object`
//! calls `VM::VMObjectModel::copy`, which for the unit bindings `UnitVM<P>` is the harness-supplied
//! copy: it returns a fresh address and counts the call.  The `on_after_forwarding` callback
//! (VO bit of the new copy) is empty.  `is_marked` / `attempt_mark` of `ImmixSpace` need the whole
//! space: the metadata-level operations they perform on `LOCAL_MARK_BIT_SPEC` are used.
//!
//! Placements of (forwarding bits, forwarding pointer), selected at run time through `UnitVM<P>`
//! (see `unitvm.rs`): bits inside the pointer word at shift 0 (== the harness binding `VerifVM`'s
//! default placement A) and at shift 56, bits in a separate header word after / byte before the
//! pointer, bits on side + pointer in header, bits in header + pointer on side, both on side.
//!
//! Oracle: every thread finishes (no deadlock; a tracer spinning alone = livelock); the copy
//! function ran exactly once (0 times when the winner declined / the object was marked); all
//! tracers return the same reference: the new copy, or the unmoved object; every pointer the
//! observer obtained is the winner's copy; at quiescence the forwarding state is consistent
//! (FORWARDED + pointer == the copy, decoded independently; or bits clear + marked + pointer
//! untouched); no bit outside the fields changed.

use crate::baton::{self, Arming, Config, End, ExecInfo, Scenario, Verdict};
use crate::common::{machinery_failure, Run, Tier};
use crate::props::c18::{self, header_loc, init_scratch, side_loc, Loc, NWINDOWS, OBJ_BASE, WINDOW};
use crate::unitvm::{placement_name, CopyCtx, COPIES_BY_THIS_THREAD, COPY_CTX, FWD_PLACEMENTS};
use crate::with_unit_vm;
use mmtk::util::copy::{CopySemantics, GCWorkerCopyContext};
use mmtk::util::metadata::MetadataSpec;
use mmtk::util::verif::c17 as fwd;
use mmtk::util::{Address, ObjectReference};
use mmtk::vm::*;
use serde_json::{json, Value};
use std::sync::atomic::Ordering::SeqCst;
use std::sync::atomic::{AtomicI64, AtomicUsize};

const FORWARDED: u8 = 0b11;
const POINTER_MASK: usize = 0x00ff_ffff_ffff_fff8;
/// A stale "forwarding pointer" left in the pointer field before the execution (a wrong read then
/// yields a valid but wrong reference instead of null).
const STALE: usize = 0x50_7000;

#[derive(Clone, Copy, Debug, PartialEq, Eq)]
pub enum Pattern {
    Copy,
    ImmixMove,
    ImmixDecline,
    ImmixPremarked,
}

impl Pattern {
    fn name(&self) -> &'static str {
        match self {
            Pattern::Copy => "copyspace",
            Pattern::ImmixMove => "immix_move",
            Pattern::ImmixDecline => "immix_decline",
            Pattern::ImmixPremarked => "immix_premarked",
        }
    }
    fn from_name(s: &str) -> Pattern {
        match s {
            "copyspace" => Pattern::Copy,
            "immix_move" => Pattern::ImmixMove,
            "immix_decline" => Pattern::ImmixDecline,
            "immix_premarked" => Pattern::ImmixPremarked,
            other => machinery_failure(&format!("C17: unknown pattern {}", other)),
        }
    }
    fn moves(&self) -> bool {
        matches!(self, Pattern::Copy | Pattern::ImmixMove)
    }
}

#[derive(Clone, Debug)]
pub struct Params {
    pub pattern: Pattern,
    pub placement: usize,
    pub tracers: usize,
    pub observer: bool,
    /// object index inside its 32-byte group (selects the field inside the side forwarding-bits byte)
    pub slot: usize,
    pub bound: Option<u32>,
}

/// Addresses in messages are given relative to the scratch window of the exploring job, so that the
/// text does not depend on which job explored the configuration.
fn rel(a: usize) -> String {
    if a >= OBJ_BASE && a < OBJ_BASE + NWINDOWS * WINDOW {
        format!("window+{:#x}", (a - OBJ_BASE) % WINDOW)
    } else {
        format!("{:#x}", a)
    }
}

fn params_json(p: &Params) -> Value {
    json!({"pattern": p.pattern.name(), "placement": p.placement, "placement_name": placement_name(p.placement), "tracers": p.tracers, "observer": p.observer, "slot": p.slot, "bound": p.bound})
}

fn params_from_json(v: &Value) -> Params {
    Params {
        pattern: Pattern::from_name(v["pattern"].as_str().unwrap_or("")),
        placement: v["placement"].as_u64().unwrap() as usize,
        tracers: v["tracers"].as_u64().unwrap() as usize,
        observer: v["observer"].as_bool().unwrap(),
        slot: v["slot"].as_u64().unwrap() as usize,
        bound: v["bound"].as_u64().map(|b| b as u32),
    }
}

/// `ImmixSpace::is_marked(object)` (mark state 1)
fn immix_is_marked<VM: VMBinding>(object: ObjectReference) -> bool {
    VM::VMObjectModel::LOCAL_MARK_BIT_SPEC.load_atomic::<VM, u8>(object, None, SeqCst) == 1
}

fn trace_copyspace<VM: VMBinding>(object: ObjectReference) -> ObjectReference {
    let forwarding_status = fwd::attempt_to_forward::<VM>(object);
    if fwd::state_is_forwarded_or_being_forwarded(forwarding_status) {
        fwd::spin_and_get_forwarded_object::<VM>(object, forwarding_status)
    } else {
        let mut ctx = GCWorkerCopyContext::<VM>::new_non_copy();
        fwd::forward_object::<VM>(object, CopySemantics::DefaultCopy, &mut ctx, |_new_object| {})
    }
}

/// Returns (result, this call marked the object).
fn trace_immix<VM: VMBinding>(object: ObjectReference, must_not_move: bool) -> (ObjectReference, bool) {
    let forwarding_status = fwd::attempt_to_forward::<VM>(object);
    if fwd::state_is_forwarded_or_being_forwarded(forwarding_status) {
        (fwd::spin_and_get_forwarded_object::<VM>(object, forwarding_status), false)
    } else if immix_is_marked::<VM>(object) {
        fwd::clear_forwarding_bits::<VM>(object);
        (object, false)
    } else if must_not_move {
        let marked = c18::immix_attempt_mark::<VM>(object, 1);
        fwd::clear_forwarding_bits::<VM>(object);
        (object, marked)
    } else {
        let mut ctx = GCWorkerCopyContext::<VM>::new_non_copy();
        (fwd::forward_object::<VM>(object, CopySemantics::DefaultCopy, &mut ctx, |_new_object| {}), false)
    }
}

fn observe<VM: VMBinding>(object: ObjectReference) -> Option<ObjectReference> {
    if fwd::is_forwarded::<VM>(object) {
        Some(fwd::read_forwarding_pointer::<VM>(object))
    } else {
        None
    }
}

/// Where the fields of placement `p` live for `object`, computed without the code under test.
struct Layout {
    bits: Loc,
    /// address of the 8-byte word holding the forwarding pointer
    ptr_word: Address,
    ptr_in_header: bool,
    mark: Loc,
    /// bits and pointer share the header word (one store writes both)
    shared: bool,
}

fn layout(p: usize, object: ObjectReference) -> Layout {
    with_unit_vm!(p, VM, {
        let a = object.to_raw_address();
        let bits = match <VM as VMBinding>::VMObjectModel::LOCAL_FORWARDING_BITS_SPEC.as_spec() {
            MetadataSpec::InHeader(h) => header_loc(h, a),
            MetadataSpec::OnSide(s) => side_loc(s, a),
        };
        let (ptr_word, ptr_in_header) = match <VM as VMBinding>::VMObjectModel::LOCAL_FORWARDING_POINTER_SPEC.as_spec() {
            MetadataSpec::InHeader(h) => (a + h.bit_offset.div_euclid(8), true),
            MetadataSpec::OnSide(s) => (side_loc(s, a).byte, false),
        };
        let mark = match <VM as VMBinding>::VMObjectModel::LOCAL_MARK_BIT_SPEC.as_spec() {
            MetadataSpec::InHeader(h) => header_loc(h, a),
            MetadataSpec::OnSide(s) => side_loc(s, a),
        };
        let shared = ptr_in_header && bits.byte >= ptr_word && bits.byte < ptr_word + 8usize;
        Layout { bits, ptr_word, ptr_in_header, mark, shared }
    })
}

pub struct Sc {
    p: Params,
    object: ObjectReference,
    lay: Layout,
    new_addr: usize,
    copy: CopyCtx,
    /// per tracer: returned reference (0 = none)
    ret: [AtomicUsize; 4],
    /// per tracer: number of copies it performed / it marked the object
    copied: [AtomicI64; 4],
    marked: [AtomicI64; 4],
    /// observer: two observations (0 = none, 1 = None, else the pointer)
    obs: [AtomicUsize; 2],
    /// initial content of the regions checked for stray writes: (address, bytes)
    watch: Vec<(Address, Vec<u8>)>,
}

impl Sc {
    pub fn new(p: Params, window: usize) -> Sc {
        init_scratch();
        assert!(window < NWINDOWS && p.slot < 4);
        let wbase = OBJ_BASE + window * WINDOW;
        let object = ObjectReference::from_raw_address(unsafe { Address::from_usize(wbase + 0x8040 + 8 * p.slot) }).unwrap();
        let lay = layout(p.placement, object);
        let new_addr = wbase + 0x4000;
        // background: a pattern in every watched byte; the fields are then given their initial values
        let mut watch: Vec<(Address, Vec<u8>)> = vec![];
        let hdr = object.to_raw_address() - 16usize;
        watch.push((hdr, vec![0xA5; 48]));
        if !(lay.bits.byte >= hdr && lay.bits.byte < hdr + 48usize) {
            watch.push((lay.bits.byte - 8usize, vec![0x5A; 24]));
        }
        if !lay.ptr_in_header {
            watch.push((lay.ptr_word - 8usize, vec![0xC3; 24]));
        }
        if !(lay.mark.byte >= hdr && lay.mark.byte < hdr + 48usize) {
            watch.push((lay.mark.byte - 8usize, vec![0x3C; 24]));
        }
        for i in 0..watch.len() {
            for j in i + 1..watch.len() {
                let (a, b) = (&watch[i], &watch[j]);
                if a.0 < b.0 + b.1.len() && b.0 < a.0 + a.1.len() {
                    machinery_failure(&format!("C17: watched regions overlap for placement {}", p.placement));
                }
            }
        }
        Sc { p, object, lay, new_addr, copy: CopyCtx { next: AtomicUsize::new(0), calls: AtomicUsize::new(0) }, ret: Default::default(), copied: Default::default(), marked: Default::default(), obs: Default::default(), watch }
    }

    fn read_word(a: Address) -> usize {
        unsafe { std::ptr::read_volatile(a.to_ptr::<usize>()) }
    }
    fn write_word(a: Address, v: usize) {
        unsafe { std::ptr::write_volatile(a.to_mut_ptr::<usize>(), v) }
    }
    /// the pointer field (the masked bits of the pointer word; side: the whole word)
    fn pointer_field(&self) -> usize {
        let w = Self::read_word(self.lay.ptr_word);
        if self.lay.ptr_in_header {
            w & POINTER_MASK
        } else {
            w
        }
    }
    fn initial_mark(&self) -> u8 {
        (self.p.pattern == Pattern::ImmixPremarked) as u8
    }
    /// Is `addr` a byte whose bits other than `keep` must still hold the background?
    fn expected_changed_mask(&self, addr: Address) -> u8 {
        let mut m = 0u8;
        if addr == self.lay.bits.byte {
            m |= self.lay.bits.mask();
        }
        if addr == self.lay.mark.byte {
            m |= self.lay.mark.mask();
        }
        if addr >= self.lay.ptr_word && addr < self.lay.ptr_word + 8usize {
            let k = addr - self.lay.ptr_word;
            let field = if self.lay.shared {
                // forward_object stores the whole word when the bits live inside it
                usize::MAX
            } else if self.lay.ptr_in_header {
                POINTER_MASK
            } else {
                usize::MAX
            };
            m |= ((field >> (8 * k)) & 0xff) as u8;
        }
        m
    }
}

impl Scenario for Sc {
    fn name(&self) -> String {
        format!("C17/{}/{}/tracers={}{}/slot{}", self.p.pattern.name(), placement_name(self.p.placement), self.p.tracers, if self.p.observer { "+observer" } else { "" }, self.p.slot)
    }
    fn params(&self) -> Value {
        params_json(&self.p)
    }
    fn threads(&self) -> usize {
        self.p.tracers + self.p.observer as usize
    }
    fn setup(&self, arming: &mut Arming) {
        for (a, bytes) in &self.watch {
            for (k, b) in bytes.iter().enumerate() {
                unsafe { std::ptr::write_volatile((*a + k).to_mut_ptr::<u8>(), *b) };
            }
            arming.range(a.as_usize(), a.as_usize() + bytes.len());
        }
        // initial field values: pointer field = a stale pointer, bits = 0, mark per pattern
        let w = Self::read_word(self.lay.ptr_word);
        if self.lay.ptr_in_header {
            Self::write_word(self.lay.ptr_word, (w & !POINTER_MASK) | (STALE & POINTER_MASK));
        } else {
            Self::write_word(self.lay.ptr_word, STALE);
        }
        self.lay.bits.set(0);
        self.lay.mark.set(self.initial_mark());
        self.copy.next.store(self.new_addr, SeqCst);
        self.copy.calls.store(0, SeqCst);
        for i in 0..4 {
            self.ret[i].store(0, SeqCst);
            self.copied[i].store(0, SeqCst);
            self.marked[i].store(0, SeqCst);
        }
        self.obs[0].store(0, SeqCst);
        self.obs[1].store(0, SeqCst);
    }
    fn body(&self, tid: usize) {
        COPY_CTX.with(|c| c.set(&self.copy as *const CopyCtx));
        let o = self.object;
        if tid < self.p.tracers {
            COPIES_BY_THIS_THREAD.with(|c| c.set(0));
            let (r, marked) = with_unit_vm!(self.p.placement, VM, {
                match self.p.pattern {
                    Pattern::Copy => (trace_copyspace::<VM>(o), false),
                    Pattern::ImmixMove | Pattern::ImmixPremarked => trace_immix::<VM>(o, false),
                    Pattern::ImmixDecline => trace_immix::<VM>(o, true),
                }
            });
            self.copied[tid].store(COPIES_BY_THIS_THREAD.with(|c| c.get()) as i64, SeqCst);
            self.marked[tid].store(marked as i64, SeqCst);
            self.ret[tid].store(r.to_raw_address().as_usize(), SeqCst);
        } else {
            for k in 0..2 {
                let v = with_unit_vm!(self.p.placement, VM, observe::<VM>(o));
                self.obs[k].store(v.map(|r| r.to_raw_address().as_usize()).unwrap_or(1), SeqCst);
            }
        }
        COPY_CTX.with(|c| c.set(std::ptr::null()));
    }
    fn check(&self, info: &ExecInfo) -> Verdict {
        let pl = if self.p.placement <= 101 { "shared-word" } else if self.p.placement <= 103 { "header-separate" } else { "side" };
        let sig = |clause: &str| format!("{}:{}:{}", clause, self.p.pattern.name(), pl);
        let n = self.p.tracers;
        let obj = self.object.to_raw_address().as_usize();
        let rets: Vec<usize> = (0..n).map(|i| self.ret[i].load(SeqCst)).collect();
        let copied: Vec<i64> = (0..n).map(|i| self.copied[i].load(SeqCst)).collect();
        let marked: Vec<i64> = (0..n).map(|i| self.marked[i].load(SeqCst)).collect();
        let copies = self.copy.calls.load(SeqCst);
        let obs = [self.obs[0].load(SeqCst), self.obs[1].load(SeqCst)];
        let winner: Vec<usize> = (0..n).filter(|i| copied[*i] > 0 || marked[*i] > 0).collect();
        let tracer_ids: Vec<u8> = (0..self.threads() as u8).collect();
        let lo = self.watch[0].0.as_usize();
        let mut nontrivial = false;
        for (a, b) in &self.watch {
            nontrivial |= info.interleaved_on(a.as_usize(), a.as_usize() + b.len(), &tracer_ids);
        }
        let _ = lo;
        let outcome = format!("{}:winner={:?}:copies={}:obs={:?}", info.end.name(), winner, copies, obs.iter().map(|o| match *o { 0 => "-", 1 => "none", _ => "ptr" }).collect::<Vec<_>>());
        let want_ret = if self.p.pattern.moves() { self.new_addr } else { obj };
        let want_copies = if self.p.pattern.moves() { 1 } else { 0 };
        let mut violation = None;
        if info.end != End::Complete {
            let clause = match info.end {
                End::Livelock(_) => "spins-for-ever",
                End::Deadlock(_) => "deadlock",
                _ => "no-termination",
            };
            violation = Some((sig(clause), format!("execution ended with {:?}", info.end)));
        } else if let Some((t, m)) = info.panics.iter().enumerate().find_map(|(t, p)| p.as_ref().map(|m| (t, m.clone()))) {
            violation = Some((sig("panic"), format!("thread {} panicked: {}", t, m)));
        } else if copies != want_copies {
            violation = Some((sig("copy-count"), format!("the object was copied {} times (by tracer: {:?}), expected {}", copies, copied, want_copies)));
        } else if rets.iter().any(|r| *r != rets[0]) {
            violation = Some((sig("tracers-disagree"), format!("tracers returned {:?} (the copy is {}, the object {}, a stale pointer left in the field {})", rets.iter().map(|r| rel(*r)).collect::<Vec<_>>(), rel(self.new_addr), rel(obj), rel(STALE))));
        } else if rets[0] != want_ret {
            violation = Some((sig("wrong-reference"), format!("tracers returned {}, expected {} ({})", rel(rets[0]), rel(want_ret), if self.p.pattern.moves() { "the copy" } else { "the unmoved object" })));
        } else if obs.iter().any(|o| *o > 1 && *o != self.new_addr) || (!self.p.pattern.moves() && obs.iter().any(|o| *o > 1)) {
            violation = Some((sig("reader-got-foreign-pointer"), format!("an observer read forwarding pointer {:?}; the winner's copy is {}", obs.iter().filter(|o| **o > 1).map(|o| rel(*o)).collect::<Vec<_>>(), rel(self.new_addr))));
        } else {
            // final state, decoded independently
            let bits = self.lay.bits.get();
            let ptr = self.pointer_field();
            let mark = self.lay.mark.get();
            if self.p.pattern.moves() {
                if bits != FORWARDED || ptr != self.new_addr {
                    violation = Some((sig("final-state"), format!("after forwarding: forwarding bits {:#04b}, pointer field {}; expected 0b11 and {}", bits, rel(ptr), rel(self.new_addr))));
                } else {
                    let (f, p2) = with_unit_vm!(self.p.placement, VM, (fwd::is_forwarded::<VM>(self.object), fwd::read_forwarding_pointer::<VM>(self.object)));
                    if !f || p2.to_raw_address().as_usize() != self.new_addr {
                        violation = Some((sig("final-state"), format!("is_forwarded = {}, read_forwarding_pointer = {}", f, rel(p2.to_raw_address().as_usize()))));
                    }
                }
                if violation.is_none() && mark != self.initial_mark() {
                    violation = Some((sig("stray-write"), "the mark bit of the old object changed".to_string()));
                }
            } else if bits != 0 || mark != 1 || ptr != STALE {
                violation = Some((sig("final-state"), format!("after declining: forwarding bits {:#04b} (expected 0), mark {} (expected 1), pointer field {:#x} (expected the untouched stale value {:#x})", bits, mark, ptr, STALE)));
            }
            if violation.is_none() {
                'outer: for (a, bytes) in &self.watch {
                    for (k, bg) in bytes.iter().enumerate() {
                        let addr = *a + k;
                        let b = unsafe { std::ptr::read_volatile(addr.to_ptr::<u8>()) };
                        if (b ^ bg) & !self.expected_changed_mask(addr) != 0 {
                            violation = Some((sig("stray-write"), format!("byte {} of watched region {} holds {:#04x}, background {:#04x}: bits outside the forwarding / mark fields changed", k, self.watch.iter().position(|w| w.0 == *a).unwrap_or(0), b, bg)));
                            break 'outer;
                        }
                    }
                }
            }
        }
        Verdict { outcome, violation, nontrivial }
    }
    fn min_outcomes(&self) -> usize {
        match self.p.pattern {
            // every tracer must be seen winning
            Pattern::Copy | Pattern::ImmixMove | Pattern::ImmixDecline => self.p.tracers,
            Pattern::ImmixPremarked => 1,
        }
    }
}

fn configs(tier: Tier) -> Vec<Params> {
    let thorough = tier == Tier::Thorough;
    let mut v = vec![];
    for pattern in [Pattern::Copy, Pattern::ImmixMove, Pattern::ImmixDecline, Pattern::ImmixPremarked] {
        for placement in FWD_PLACEMENTS {
            let side_bits = placement == 104 || placement == 106;
            let slots: Vec<usize> = if side_bits { if thorough { vec![0, 1, 2, 3] } else { vec![0, 3] } } else { vec![0] };
            for slot in slots {
                // one placement of each kind is explored deeper: bits in the pointer word (== the
                // harness binding's default placement A), separate header word, bits on side
                let deep = matches!(placement, 100 | 102 | 104) && slot == 0;
                // 2 tracers: every interleaving of the CopySpace pattern (<= 5 * 10^4 executions; quick:
                // on the deep placements) and, in the thorough tier, of the Immix patterns on the deep
                // placements (~2 * 10^5 executions each, up to 16 preemptions); a preemption bound
                // elsewhere
                let b2 = match (pattern, thorough, deep) {
                    (Pattern::Copy, true, _) | (Pattern::Copy, false, true) => None,
                    (_, true, true) => None,
                    (_, true, false) => Some(5),
                    (_, false, _) => Some(4),
                };
                v.push(Params { pattern, placement, tracers: 2, observer: false, slot, bound: b2 });
                if slot == 0 || thorough {
                    // 2 tracers + observer
                    v.push(Params { pattern, placement, tracers: 2, observer: true, slot, bound: Some(if thorough { 4 } else { 2 }) });
                    // 3 tracers
                    let b3 = match (thorough, deep) {
                        (true, true) if matches!(pattern, Pattern::Copy | Pattern::ImmixDecline) => 3,
                        (true, _) => 2,
                        (false, true) if matches!(pattern, Pattern::Copy | Pattern::ImmixDecline) => 2,
                        (false, _) => 1,
                    };
                    v.push(Params { pattern, placement, tracers: 3, observer: false, slot, bound: Some(b3) });
                }
            }
        }
    }
    v
}

fn verifvm_placement() -> String {
    // which UnitVM placement has the harness binding's own forwarding specs
    use crate::vm::VerifVM;
    let b = format!("{:?}", <VerifVM as ObjectModel<VerifVM>>::LOCAL_FORWARDING_BITS_SPEC.as_spec());
    let p = format!("{:?}", <VerifVM as ObjectModel<VerifVM>>::LOCAL_FORWARDING_POINTER_SPEC.as_spec());
    for q in FWD_PLACEMENTS {
        let (qb, qp) = with_unit_vm!(q, VM, (format!("{:?}", <VM as VMBinding>::VMObjectModel::LOCAL_FORWARDING_BITS_SPEC.as_spec()), format!("{:?}", <VM as VMBinding>::VMObjectModel::LOCAL_FORWARDING_POINTER_SPEC.as_spec())));
        if qb == b && qp == p {
            return format!("VerifVM placement {} == UnitVM<{}> ({})", crate::vm::PLACEMENT, q, placement_name(q));
        }
    }
    format!("VerifVM placement {} (forwarding bits {}, pointer {}) has no identical UnitVM placement; nearest: {}", crate::vm::PLACEMENT, b, p, if crate::vm::PLACEMENT == "B" { "UnitVM<106> (both on side, other offsets)" } else { "-" })
}

pub fn run(run: &mut Run) {
    init_scratch();
    let mut cfgs = configs(run.tier);
    if let Ok(f) = std::env::var("C17_FILTER") {
        // debugging aid: only the scenarios whose name contains the filter
        cfgs.retain(|p| Sc::new(p.clone(), 0).name().contains(&f));
    }
    let jobs = run.jobs.min(NWINDOWS).min(8);
    let stats = baton::explore_many(run, cfgs.len(), jobs, |i, slot| {
        let p = cfgs[i].clone();
        let cfg = Config { bound: p.bound, max_executions: 3_000_000, ..Config::default() };
        (Sc::new(p, slot), cfg)
    });
    let mut exhaustive2 = 0u64;
    let mut min2 = u32::MAX;
    let mut min3 = u32::MAX;
    let mut minobs = u32::MAX;
    for (p, st) in cfgs.iter().zip(stats.iter()) {
        if st.violations > 0 {
            continue;
        }
        let b = if st.unbounded_complete { 99 } else { st.completed_bound.unwrap_or(0) };
        if p.tracers == 2 && !p.observer {
            if st.unbounded_complete {
                exhaustive2 += 1;
            } else {
                min2 = min2.min(b);
            }
        } else if p.tracers == 3 {
            min3 = min3.min(b);
        } else {
            minobs = minobs.min(b);
        }
    }
    run.set("configurations_2_tracers_with_all_interleavings_explored", exhaustive2);
    run.set("completed_preemption_bound_other_2_tracer_configurations", if min2 == u32::MAX { 99 } else { min2 as u64 });
    run.set("configurations", cfgs.len() as u64);
    run.set("completed_preemption_bound_3_tracers", if min3 == u32::MAX { 0 } else { min3 as u64 });
    run.set("completed_preemption_bound_2_tracers_plus_observer", if minobs == u32::MAX { 99 } else { minobs as u64 });
    run.set("placements_run", FWD_PLACEMENTS.iter().map(|p| placement_name(*p)).collect::<Vec<_>>());
    run.set("harness_binding_placement", verifvm_placement());
    run.set("rule", "per (trace pattern {CopySpace::trace_object, Immix opportunistic copy: move / decline / already marked}, placement of forwarding bits and pointer {in pointer word shift 0 / 56, separate header word / byte, bits side, pointer side, both side}, 2-3 tracers, optional observer): every interleaving at the forwarding / mark metadata atomics of the object (2 tracers: all; 3 tracers and quick-tier observer runs: up to the stated preemption bound); oracle: copy ran exactly once (0 if declined), all tracers return the same reference (the copy / the unmoved object), observers only ever read the winner's pointer, nobody spins for ever, final forwarding state consistent, no stray write; non-trivial = some thread was interleaved by another between two of its own atomics on the object's metadata");
    run.assume("sequentially consistent interleavings at the instrumented atomics only (engine baton); no weak-memory effects");
    run.assume("seam (a) only: the object_forwarding functions under the call patterns of CopySpace::trace_object and ImmixSpace::trace_object_with_opportunistic_copy; the copy itself is a harness function returning a fresh address (VM::VMObjectModel::copy of the unit binding), the on_after_forwarding callback is empty, ImmixSpace::is_marked/attempt_mark are replaced by their metadata-level operations");
}

pub fn replay(case: &Value, run: &mut Run) {
    init_scratch();
    let p = params_from_json(&case["params"]);
    let sc = Sc::new(p, 0);
    let (info, v) = baton::replay_case(&sc, case, 20_000, 64);
    eprintln!("trace: {}", info.pretty());
    eprintln!("outcome: {}", v.outcome);
    if let Some((sig, msg)) = v.violation {
        run.violation(sig, msg, case.clone());
    }
}
