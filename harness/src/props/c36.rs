//! C36 large-object treadmill: BFS to closure over every history of the real `TreadMill` that the
//! `LargeObjectSpace` protocol can produce, against four plain sets.
//!
//! Protocol mirrored (src/policy/largeobjectspace.rs):
//! * mutator time: `initialize_object_metadata` -> `add_to_treadmill(obj, true)` (allocation
//!   nursery); a reference whose object was swept may be handed out again (address reuse);
//! * `prepare(full_heap)` -> `flip(full_heap)`;
//! * `trace_object`: an object is copied at most once per GC (`test_and_mark`), only if it is a
//!   nursery object (-> `copy(obj, true)`, it is in the collection nursery) or, in a full-heap GC
//!   only, a mature object (-> `copy(obj, false)`, it is in the from-space).  Mature objects are not
//!   traced in a nursery GC (`!in_nursery_gc || nursery_object`);
//! * concurrent full-heap GC (ConcurrentImmix: InitialMark pause prepares, FinalMark pause
//!   releases): between the two, mutators allocate *as live* -> `add_to_treadmill(obj, false)`
//!   (to-space); such objects carry the current mark state and are never copied in that GC;
//! * `release(full_heap)`: `collect_nursery()`, then, only if `full_heap`, `collect_mature()`.
//!
//! The whole state of a `TreadMill` is its four sets, which the hook reads out; states are merged
//! on (phase, real set contents), so closure of the BFS covers histories of any length.

use crate::common::Run;
use crate::seqx::{self, Subject};
use mmtk::util::verif::c36::{treadmill_enumerate_objects, treadmill_sets, TreadMill};
use mmtk::util::{Address, ObjectReference};
use serde_json::{json, Value};
use std::collections::BTreeSet;

const FROM: usize = 0;
const TO: usize = 1;
const CN: usize = 2;
const AN: usize = 3;
const SET_NAMES: [&str; 4] = ["from_space", "to_space", "collect_nursery", "alloc_nursery"];

/// Fake references: distinct, word aligned, never dereferenced by the treadmill.
fn oref(i: u8) -> ObjectReference {
    ObjectReference::from_raw_address(unsafe { Address::from_usize(0x4000_0000 + (i as usize) * 0x10_0000) }).unwrap()
}

fn oid(o: ObjectReference) -> u8 {
    ((o.to_raw_address().as_usize() - 0x4000_0000) / 0x10_0000) as u8
}

#[derive(Clone, Copy, Debug, PartialEq, Eq)]
pub enum Phase {
    Mutator,
    /// between `prepare` and `release`
    Gc { full: bool, concurrent: bool },
}

#[derive(Clone, Debug, PartialEq, Eq)]
pub enum Op {
    /// mutator-time allocation: `add_to_treadmill(o, true)`
    Add(u8),
    /// allocation as live during concurrent marking: `add_to_treadmill(o, false)`
    AddLive(u8),
    /// `flip(full)`
    Start { full: bool, concurrent: bool },
    /// `copy(o, is_in_nursery)` with the flag `trace_object` would pass
    Copy(u8),
    /// `collect_nursery()` [+ `collect_mature()` if full]
    Release,
}

#[derive(Clone, Debug)]
pub struct Model {
    /// the four plain sets, indexed FROM/TO/CN/AN
    pub sets: [BTreeSet<u8>; 4],
    pub phase: Phase,
    // -- property-level bookkeeping, independent of the set placement --
    /// added and not swept
    pub live: BTreeSet<u8>,
    /// live objects allocated into the nursery that have not survived a GC yet
    pub young: BTreeSet<u8>,
    /// objects that existed when the current GC started and may be collected by it
    pub candidates: BTreeSet<u8>,
    /// objects marked (copied) in the current GC
    pub marked: BTreeSet<u8>,
    /// not part of the key: references that were swept at least once (for the coverage rule)
    pub swept_ever: BTreeSet<u8>,
}

pub struct St {
    pub real: TreadMill,
    pub model: Model,
}

pub struct TmSubject {
    pub objects: u8,
}

fn ids(v: &[ObjectReference]) -> Vec<u8> {
    let mut x: Vec<u8> = v.iter().map(|o| oid(*o)).collect();
    x.sort();
    x
}

fn has_dup(sorted: &[u8]) -> bool {
    sorted.windows(2).any(|w| w[0] == w[1])
}

impl Subject for TmSubject {
    type Op = Op;
    type State = St;
    type Snap = ();
    fn name(&self) -> String {
        format!("treadmill[objects={}]", self.objects)
    }
    fn fresh(&self) -> St {
        St {
            real: TreadMill::new(),
            model: Model {
                sets: Default::default(),
                phase: Phase::Mutator,
                live: BTreeSet::new(),
                young: BTreeSet::new(),
                candidates: BTreeSet::new(),
                marked: BTreeSet::new(),
                swept_ever: BTreeSet::new(),
            },
        }
    }
    fn enabled(&self, st: &St) -> Vec<Op> {
        let m = &st.model;
        let mut ops = vec![];
        match m.phase {
            Phase::Mutator => {
                for o in 0..self.objects {
                    if !m.live.contains(&o) {
                        ops.push(Op::Add(o));
                    }
                }
                ops.push(Op::Start { full: false, concurrent: false });
                ops.push(Op::Start { full: true, concurrent: false });
                ops.push(Op::Start { full: true, concurrent: true });
            }
            Phase::Gc { full, concurrent } => {
                // trace_object copies an object only if it is unmarked, and (full-heap GC or
                // nursery object)
                for &o in &m.candidates {
                    if !m.marked.contains(&o) && (full || m.young.contains(&o)) {
                        ops.push(Op::Copy(o));
                    }
                }
                if concurrent {
                    for o in 0..self.objects {
                        if !m.live.contains(&o) {
                            ops.push(Op::AddLive(o));
                        }
                    }
                }
                ops.push(Op::Release);
            }
        }
        ops
    }
    fn apply(&self, st: &mut St, op: &Op) -> Result<bool, String> {
        let m = &mut st.model;
        match *op {
            Op::Add(o) => {
                st.real.add_to_treadmill(oref(o), true);
                m.sets[AN].insert(o);
                m.live.insert(o);
                m.young.insert(o);
                Ok(false)
            }
            Op::AddLive(o) => {
                st.real.add_to_treadmill(oref(o), false);
                m.sets[TO].insert(o);
                m.live.insert(o);
                Ok(false)
            }
            Op::Start { full, concurrent } => {
                st.real.flip(full);
                m.sets.swap(AN, CN);
                if full {
                    m.sets.swap(FROM, TO);
                }
                m.phase = Phase::Gc { full, concurrent };
                m.candidates = if full { m.live.clone() } else { m.young.clone() };
                m.marked.clear();
                Ok(false)
            }
            Op::Copy(o) => {
                // the flag trace_object passes: the object's nursery bit
                let is_in_nursery = m.young.contains(&o);
                st.real.copy(oref(o), is_in_nursery);
                let src = if is_in_nursery { CN } else { FROM };
                m.sets[src].remove(&o);
                m.sets[TO].insert(o);
                m.marked.insert(o);
                // marking clears the nursery bit: the object is mature from now on
                m.young.remove(&o);
                Ok(false)
            }
            Op::Release => {
                let Phase::Gc { full, .. } = m.phase else { unreachable!() };
                // property level: the GC sweeps exactly the unmarked members of the collected
                // cohorts: young candidates, plus (full) mature candidates
                let want_nursery: Vec<u8> = m.candidates.iter().copied().filter(|o| m.young.contains(o) && !m.marked.contains(o)).collect();
                let want_mature: Vec<u8> = if full { m.candidates.iter().copied().filter(|o| !m.young.contains(o) && !m.marked.contains(o)).collect() } else { vec![] };
                let got_nursery = ids(&st.real.collect_nursery().into_iter().collect::<Vec<_>>());
                if has_dup(&got_nursery) {
                    return Err(format!("collect_nursery yielded an object twice: {:?}", got_nursery));
                }
                if got_nursery != want_nursery {
                    return Err(format!("collect_nursery swept {:?}, but the unmarked young objects are {:?} (marked {:?})", got_nursery, want_nursery, m.marked));
                }
                debug_assert_eq!(want_nursery, m.sets[CN].iter().copied().collect::<Vec<_>>());
                m.sets[CN].clear();
                let mut swept = got_nursery;
                if full {
                    // the sets must be consistent between the two sweeps too
                    check_sets(&st.real, m, &swept)?;
                    let got_mature = ids(&st.real.collect_mature().into_iter().collect::<Vec<_>>());
                    if has_dup(&got_mature) {
                        return Err(format!("collect_mature yielded an object twice: {:?}", got_mature));
                    }
                    if got_mature != want_mature {
                        return Err(format!("collect_mature swept {:?}, but the unmarked mature objects are {:?} (marked {:?})", got_mature, want_mature, m.marked));
                    }
                    debug_assert_eq!(want_mature, m.sets[FROM].iter().copied().collect::<Vec<_>>());
                    m.sets[FROM].clear();
                    swept.extend(got_mature);
                }
                for o in &swept {
                    m.live.remove(o);
                    m.young.remove(o);
                    m.swept_ever.insert(*o);
                }
                // non-trivial: the sweep had to discriminate inside the collected sets
                let survivors_of_collected = m.marked.len();
                let nontrivial = !swept.is_empty() && survivors_of_collected > 0;
                m.candidates.clear();
                m.marked.clear();
                m.phase = Phase::Mutator;
                Ok(nontrivial)
            }
        }
    }
    fn check(&self, st: &St) -> Result<(), String> {
        check_sets(&st.real, &st.model, &[])
    }
    fn key(&self, st: &St) -> Vec<u8> {
        // phase + location of every reference in the REAL sets (0 = in no set)
        let sets = treadmill_sets(&st.real);
        let mut k = vec![0u8; self.objects as usize + 1];
        k[0] = match st.model.phase {
            Phase::Mutator => 0,
            Phase::Gc { full: false, .. } => 1,
            Phase::Gc { full: true, concurrent: false } => 2,
            Phase::Gc { full: true, concurrent: true } => 3,
        };
        for (si, s) in sets.iter().enumerate() {
            for o in s {
                k[1 + oid(*o) as usize] = si as u8 + 1;
            }
        }
        k
    }
    fn op_json(&self, op: &Op) -> Value {
        match *op {
            Op::Add(o) => json!({"op": "add", "o": o}),
            Op::AddLive(o) => json!({"op": "add_live", "o": o}),
            Op::Start { full, concurrent } => json!({"op": "start", "full": full, "concurrent": concurrent}),
            Op::Copy(o) => json!({"op": "copy", "o": o}),
            Op::Release => json!({"op": "release"}),
        }
    }
    fn signature(&self, op: &Op, msg: &str) -> String {
        let o = match op {
            Op::Add(_) => "add",
            Op::AddLive(_) => "add_live",
            Op::Start { full: false, .. } => "flip_nursery",
            Op::Start { full: true, .. } => "flip_full",
            Op::Copy(_) => "copy",
            Op::Release => "release",
        };
        let class = if msg.starts_with("panic") {
            "panic"
        } else if msg.contains("swept") || msg.contains("twice") {
            "sweep"
        } else if msg.contains("exactly one") || msg.contains("no set") || msg.contains("not live") {
            "partition"
        } else {
            "placement"
        };
        format!("{}:{}", o, class)
    }
}

/// Full-state oracle.  `just_swept`: objects the current (half-finished) release has already
/// returned; the model's `live` still contains them at that point.
fn check_sets(real: &TreadMill, m: &Model, just_swept: &[u8]) -> Result<(), String> {
    let raw = treadmill_sets(real);
    let sets: Vec<Vec<u8>> = raw.iter().map(|s| ids(s)).collect();
    // (1) property: every live object is in exactly one set; swept / never added objects in none
    let mut count = std::collections::BTreeMap::<u8, Vec<&str>>::new();
    for (si, s) in sets.iter().enumerate() {
        if has_dup(s) {
            return Err(format!("{} holds an object twice: {:?}", SET_NAMES[si], s));
        }
        for o in s {
            count.entry(*o).or_default().push(SET_NAMES[si]);
        }
    }
    for o in &m.live {
        if just_swept.contains(o) {
            continue;
        }
        match count.get(o).map(|v| v.len()).unwrap_or(0) {
            1 => {}
            0 => return Err(format!("live object {} is in no set (sets from/to/cn/an = {:?})", o, sets)),
            _ => return Err(format!("live object {} is not in exactly one set but in {:?}", o, count[o])),
        }
    }
    for (o, w) in &count {
        if !m.live.contains(o) || just_swept.contains(o) {
            return Err(format!("object {} is not live (swept or never added) but still in {:?}", o, w));
        }
    }
    // (2) reference model: the documented role of each set
    for si in 0..4 {
        let want: Vec<u8> = m.sets[si].iter().copied().collect();
        if sets[si] != want {
            return Err(format!("{} = {:?}, four-set model has {:?} (all sets from/to/cn/an: real {:?}, model {:?})", SET_NAMES[si], sets[si], want, sets, m.sets));
        }
    }
    // (3) the emptiness accessors the LOS asserts on, and the enumeration the LOS exposes
    let empt = [real.is_from_space_empty(), real.is_to_space_empty(), real.is_collect_nursery_empty(), real.is_alloc_nursery_empty()];
    for si in 0..4 {
        if empt[si] != sets[si].is_empty() {
            return Err(format!("is_{}_empty() = {} but the set is {:?}", SET_NAMES[si], empt[si], sets[si]));
        }
    }
    for all in [false, true] {
        let got = ids(&treadmill_enumerate_objects(real, all));
        let mut want: Vec<u8> = sets[AN].iter().chain(sets[TO].iter()).copied().collect();
        if all {
            want.extend(sets[CN].iter().chain(sets[FROM].iter()).copied());
        }
        want.sort();
        if got != want {
            return Err(format!("enumerate_objects(all={}) visited {:?}, expected each of {:?} exactly once", all, got, want));
        }
    }
    Ok(())
}

pub fn op_from_json(v: &Value) -> Op {
    let o = v["o"].as_u64().unwrap_or(0) as u8;
    match v["op"].as_str().unwrap_or("") {
        "add" => Op::Add(o),
        "add_live" => Op::AddLive(o),
        "start" => Op::Start { full: v["full"].as_bool().unwrap_or(false), concurrent: v["concurrent"].as_bool().unwrap_or(false) },
        "copy" => Op::Copy(o),
        _ => Op::Release,
    }
}

pub fn run(run: &mut Run) {
    let max_objects: u8 = run.tier.pick(6, 8);
    let cfgs: Vec<u8> = (1..=max_objects).collect();
    let stats = seqx::bfs_many(run, &cfgs, |n| TmSubject { objects: *n }, |n| json!({"objects": n}), 1000, 50_000_000);
    let mut per_cfg = vec![];
    for (n, st) in cfgs.iter().zip(stats.iter()) {
        per_cfg.push(json!({"objects": n, "states": st.states, "transitions": st.transitions, "nontrivial": st.nontrivial, "closed": st.closed, "bfs_depth": st.max_depth}));
    }
    run.set("per_config", Value::Array(per_cfg));
    run.set("configurations", cfgs.len() as u64);
    // concrete histories the BFS contains (replayed here so that the samples are real executions)
    let samples: Vec<Vec<Op>> = vec![
        vec![Op::Add(0), Op::Add(1), Op::Start { full: false, concurrent: false }, Op::Copy(1), Op::Release, Op::Add(0), Op::Start { full: true, concurrent: false }, Op::Copy(0), Op::Release],
        vec![Op::Add(0), Op::Start { full: true, concurrent: true }, Op::AddLive(1), Op::Copy(0), Op::AddLive(2), Op::Release, Op::Start { full: false, concurrent: false }, Op::Release, Op::Start { full: true, concurrent: false }, Op::Copy(1), Op::Release],
        vec![Op::Add(0), Op::Add(1), Op::Add(2), Op::Start { full: false, concurrent: false }, Op::Copy(0), Op::Copy(2), Op::Release, Op::Add(1), Op::Start { full: false, concurrent: false }, Op::Release, Op::Start { full: true, concurrent: false }, Op::Copy(2), Op::Release],
    ];
    let s3 = TmSubject { objects: 3 };
    for h in samples {
        match seqx::replay(&s3, &h) {
            Ok(st) => {
                run.sample(json!({"objects": 3, "history": h.iter().map(|o| s3.op_json(o)).collect::<Vec<_>>(), "final_sets_from_to_cn_an": st.model.sets.iter().map(|s| s.iter().copied().collect::<Vec<u8>>()).collect::<Vec<_>>(), "swept_at_least_once": st.model.swept_ever}));
            }
            Err((i, m)) => {
                // the BFS has reported the class already; keep the sample so that the run is not
                // mistaken for a vacuous one
                run.sample(json!({"objects": 3, "history": h.iter().map(|o| s3.op_json(o)).collect::<Vec<_>>(), "failed_at_step": i, "message": m}));
                run.violation("sample", format!("sample history step {}: {}", i, m), json!({"cfg": {"objects": 3}, "history": h.iter().map(|o| s3.op_json(o)).collect::<Vec<_>>()}));
            }
        }
    }
    run.set("rule", "BFS to closure (every reachable (phase, four real sets) state expanded with every protocol-legal operation) for 1..=N object references: add(o) [mutator time, nursery], start{nursery | full | full concurrent} = flip, copy(o) for each unmarked object trace_object may reach (young in any GC, mature only in a full GC; flag = its nursery bit), add_live(o) during a concurrent full GC, release = collect_nursery [+ collect_mature if full]; swept references are re-added (address reuse).  Oracle after every operation: partition (each live object in exactly one set, swept objects in none), the four-set model, sweep results = unmarked members of the collected cohorts each once, is_*_empty and enumerate_objects agree.  Non-trivial transition = a release that swept at least one object while at least one marked object of the collected sets survived");
    run.assume("copy(o, flag) is only called as LargeObjectSpace::trace_object does: once per object and GC, flag = the object's nursery bit, mature objects only in full-heap GCs, never on objects allocated as live during the same concurrent GC (they carry the current mark state)");
    run.assume("add_to_treadmill(_, false) only happens between prepare and release of a concurrent full-heap GC (ConcurrentImmix sets allocate_as_live after InitialMark and clears it at FinalMark); add_to_treadmill(_, true) only at mutator time");
    run.assume("the complete state of a TreadMill is its four sets (struct TreadMillSync), so merging states with equal phase and set contents loses no behaviour");
}

pub fn replay(case: &Value, run: &mut Run) {
    let n = case["cfg"]["objects"].as_u64().unwrap_or(3) as u8;
    let s = TmSubject { objects: n };
    let hist: Vec<Op> = case["history"].as_array().unwrap().iter().map(op_from_json).collect();
    match seqx::replay(&s, &hist) {
        Ok(_) => {}
        Err((i, m)) => run.violation("replay", format!("step {}: {}", i, m), case.clone()),
    }
}
