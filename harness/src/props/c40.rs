//! C40 revisitable group-by: all sequences over {0,1,2} up to a length bound x key functions x
//! consumption orders, on the real `revisitable_group_by` (via the `verif` wrapper), against a
//! naive maximal-run partition.

use crate::common::{catch, Run};
use mmtk::util::verif::revisitable_group_by_trace;
use serde_json::{json, Value};

const KEYS: [&str; 5] = ["identity", "parity", "constant", "half", "is_zero"];

fn key_of(kf: usize, x: u8) -> u8 {
    match kf {
        0 => x,
        1 => x % 2,
        2 => 7,
        3 => x / 2,
        _ => (x == 0) as u8,
    }
}

/// Reference: maximal runs of equal keys.
fn naive(items: &[u8], kf: usize) -> Vec<(u8, usize, Vec<u8>)> {
    let mut out: Vec<(u8, usize, Vec<u8>)> = vec![];
    for &x in items {
        let k = key_of(kf, x);
        match out.last_mut() {
            Some((lk, len, v)) if *lk == k => {
                *len += 1;
                v.push(x);
            }
            _ => out.push((k, 1, vec![x])),
        }
    }
    out
}

fn check_one(items: &[u8], kf: usize, delay: usize) -> Result<usize, String> {
    let got = catch(|| revisitable_group_by_trace(items, &|x: &u8| key_of(kf, *x), delay))
        .map_err(|p| format!("panic: {}", p))?;
    // the property, stated directly
    let concat: Vec<u8> = got.iter().flat_map(|g| g.2.iter().copied()).collect();
    if concat != items {
        return Err(format!("groups do not concatenate to the input: {:?}", got));
    }
    for (i, (k, len, v)) in got.iter().enumerate() {
        if v.is_empty() {
            return Err(format!("empty group {}", i));
        }
        if *len != v.len() {
            return Err(format!("group {} reports len {} but yields {} items", i, len, v.len()));
        }
        if v.iter().any(|x| key_of(kf, *x) != *k) {
            return Err(format!("group {} key {} does not match its items {:?}", i, k, v));
        }
        if i > 0 && got[i - 1].0 == *k {
            return Err(format!("adjacent groups {} and {} share key {}", i - 1, i, k));
        }
    }
    // and against the reference partition
    let want = naive(items, kf);
    if got != want {
        return Err(format!("got {:?}, want {:?}", got, want));
    }
    Ok(got.len())
}

pub fn run(run: &mut Run) {
    let max_len = run.tier.pick(8, 12);
    let mut evaluations = 0u64;
    let mut nontrivial = 0u64;
    let mut inputs = 0u64;
    let mut outcomes = std::collections::HashSet::new();
    for len in 0..=max_len {
        let total = 3usize.pow(len as u32);
        for code in 0..total {
            let mut items = Vec::with_capacity(len);
            let mut c = code;
            for _ in 0..len {
                items.push((c % 3) as u8);
                c /= 3;
            }
            inputs += 1;
            for kf in 0..KEYS.len() {
                for delay in 0..3 {
                    evaluations += 1;
                    match check_one(&items, kf, delay) {
                        Ok(groups) => {
                            // non-trivial: at least two groups and one group longer than 1, so both the
                            // peeked-head path and the revisit path are exercised
                            if groups >= 2 && groups < items.len() {
                                nontrivial += 1;
                            }
                            outcomes.insert((groups, items.len()));
                            if evaluations % 200_003 == 1 {
                                run.sample(json!({"items": items, "key": KEYS[kf], "delay": delay, "groups": groups}));
                            }
                        }
                        Err(m) => run.violation(
                            format!("group_by:{}:delay{}", KEYS[kf], delay),
                            m,
                            json!({"items": items, "key": kf, "delay": delay}),
                        ),
                    }
                }
            }
        }
    }
    run.sample(json!({"items": [0,0,1,2,2], "key": "identity", "delay": 1, "groups": 3}));
    run.set("states", inputs);
    run.set("transitions", evaluations);
    run.set("evaluations", evaluations);
    run.set("traces_validated_against_impl", evaluations);
    run.set("distinct_nontrivial", nontrivial);
    run.set("distinct_outcomes", outcomes.len() as u64);
    run.set("max_depth", max_len as u64);
    run.set("exhaustive", true);
    run.set("rule", format!("every sequence over {{0,1,2}} of length 0..={} x key functions {:?} x consumption delay {{immediate, after next group produced, after all groups produced}}; non-trivial = at least 2 groups and at least one group of length > 1", max_len, KEYS));
    run.assume("alphabet of 3 item values suffices: the iterator only compares keys for equality");
}

pub fn replay(case: &Value, run: &mut Run) {
    let items: Vec<u8> = case["items"].as_array().unwrap().iter().map(|v| v.as_u64().unwrap() as u8).collect();
    let kf = case["key"].as_u64().unwrap() as usize;
    let delay = case["delay"].as_u64().unwrap() as usize;
    if let Err(m) = check_one(&items, kf, delay) {
        run.violation("group_by", m, case.clone());
    }
}
