//! C22 side-metadata search and scan: all bitmaps over small windows (and all sparse bitmaps
//! over a larger one) x all search ranges, `find_prev_non_zero_value`,
//! `find_next_non_zero_value`, `scan_non_zero_values` on real mapped metadata against a
//! region-by-region loop written here.
//!
//! Reference semantics (from the API docs): find_prev(a, n) looks at the data addresses
//! (a - n, a]; find_next(a, n) at [a, a + n); both return the start address of a region with a
//! non-zero field.  A region counts when its start address lies in the range; for find_next the
//! region containing `a` itself also counts (its start is <= a).  An unmapped data address met
//! during the search ends it with None.  scan(start, end) visits the region starts in
//! [start, end) with non-zero fields, in ascending order, each once.

use super::c20::{field_loc, init_side_metadata};
use crate::common::{catch, Run};
use mmtk::util::metadata::side_metadata::{verif_hooks, SideMetadataSpec};
use mmtk::util::Address;
use serde_json::{json, Value};

const CHUNK: usize = 4 << 20;

struct Win {
    spec: SideMetadataSpec,
    log_bits: usize,
    log_region: usize,
    /// data address of region 0 of the window
    base: Address,
    regions: usize,
    meta_base: Address,
    /// data addresses at or above this are not mapped (usize::MAX if none)
    unmapped_from: Address,
}

fn heap_start() -> Address {
    mmtk::memory_manager::starting_heap_address()
}

impl Win {
    fn new(log_bits: usize, log_region: usize, base: Address, regions: usize, unmapped_from: Address) -> Win {
        let spec = SideMetadataSpec { name: "verif-c22", is_global: true, offset: 0, log_num_of_bits: log_bits, log_bytes_in_region: log_region };
        let (meta_base, _) = verif_hooks::reserved_range();
        Win { spec, log_bits, log_region, base, regions, meta_base, unmapped_from }
    }
    fn rs(&self) -> usize {
        1 << self.log_region
    }
    fn set_bitmap(&self, bm: &[u8]) {
        for (i, v) in bm.iter().enumerate() {
            let l = field_loc(self.meta_base, self.log_bits, self.log_region, self.base + i * self.rs());
            unsafe {
                if l.bits >= 8 {
                    l.byte.store::<u8>(*v);
                } else {
                    let m = ((1u16 << l.bits) - 1) as u8;
                    let old = l.byte.load::<u8>();
                    l.byte.store::<u8>((old & !(m << l.shift)) | ((*v & m) << l.shift));
                }
            }
        }
    }
    fn nonzero(&self, bm: &[u8], addr: Address) -> bool {
        if addr < self.base {
            return false;
        }
        let i = (addr - self.base) / self.rs();
        i < bm.len() && bm[i] != 0
    }
    fn ref_find_prev(&self, bm: &[u8], a: Address, n: usize) -> Option<Address> {
        let lowest = a.as_usize().saturating_sub(n) + 1;
        let mut cur = a.align_down(self.rs());
        while cur.as_usize() >= lowest {
            if self.nonzero(bm, cur) {
                return Some(cur);
            }
            if cur.as_usize() < self.rs() {
                break;
            }
            cur -= self.rs();
        }
        None
    }
    fn ref_find_next(&self, bm: &[u8], a: Address, n: usize) -> Option<Address> {
        let end = a + n;
        let mut cur = a.align_down(self.rs());
        while cur < end {
            if cur >= self.unmapped_from {
                return None;
            }
            if self.nonzero(bm, cur) {
                return Some(cur);
            }
            cur += self.rs();
        }
        None
    }
    fn ref_scan(&self, bm: &[u8], s: Address, e: Address) -> Vec<Address> {
        let mut v = vec![];
        let mut cur = s;
        while cur < e {
            if self.nonzero(bm, cur) {
                v.push(cur);
            }
            cur += self.rs();
        }
        v
    }
    fn check_find(&self, bm: &[u8], prev: bool, a: Address, n: usize) -> Result<bool, String> {
        let want = if prev { self.ref_find_prev(bm, a, n) } else { self.ref_find_next(bm, a, n) };
        let got = catch(|| unsafe {
            if prev {
                self.spec.find_prev_non_zero_value::<u8>(a, n)
            } else {
                self.spec.find_next_non_zero_value::<u8>(a, n)
            }
        })
        .map_err(|p| format!("panic: {} @ {}", p, crate::common::last_panic_location()))?;
        if got != want {
            return Err(format!("returned {:?}, region-by-region scan gives {:?}", got, want));
        }
        Ok(want.is_some())
    }
    fn check_scan(&self, bm: &[u8], s: Address, e: Address) -> Result<bool, String> {
        let want = self.ref_scan(bm, s, e);
        let mut got = vec![];
        catch(|| self.spec.scan_non_zero_values::<u8>(s, e, &mut |a| got.push(a))).map_err(|p| format!("panic: {} @ {}", p, crate::common::last_panic_location()))?;
        if got != want {
            return Err(format!("visited {:?}, region-by-region scan gives {:?}", got, want));
        }
        Ok(!want.is_empty())
    }
}

#[derive(Clone, Debug)]
struct Placement {
    name: &'static str,
    log_bits: usize,
    log_region: usize,
    /// region index of the window start relative to the heap start
    first_region: usize,
    regions: usize,
    /// window ends at the end of the mapped chunk
    at_mapped_end: bool,
}

fn case_json(p: &Placement, bm: &[u8], f: &str, a: isize, n: usize) -> Value {
    json!({"placement": p.name, "log_bits": p.log_bits, "log_region": p.log_region, "first_region": p.first_region, "regions": p.regions, "at_mapped_end": p.at_mapped_end,
        "bitmap": bm, "fn": f, "addr_offset": a, "limit_or_end": n})
}

fn make_win(p: &Placement) -> Win {
    let base = heap_start() + p.first_region * (1usize << p.log_region);
    let unmapped_from = if p.at_mapped_end { heap_start() + 2 * CHUNK } else { unsafe { Address::from_usize(usize::MAX) } };
    Win::new(p.log_bits, p.log_region, base, p.regions, unmapped_from)
}

/// Run every (function, range) on one bitmap.
fn run_bitmap(run: &mut Run, p: &Placement, w: &Win, bm: &[u8], full_ranges: bool, counters: &mut (u64, u64)) {
    w.set_bitmap(bm);
    let rs = w.rs();
    let n = p.regions;
    let sub_offsets: Vec<usize> = if rs > 1 { vec![0, 1, rs - 1] } else { vec![0] };
    let positions: Vec<usize> = if full_ranges {
        (0..n).collect()
    } else {
        // around the set regions and at the edges
        let mut v = vec![0, n - 1];
        for (i, b) in bm.iter().enumerate() {
            if *b != 0 {
                for d in [-1isize, 0, 1] {
                    let x = i as isize + d;
                    if x >= 0 && (x as usize) < n {
                        v.push(x as usize);
                    }
                }
            }
        }
        v.sort();
        v.dedup();
        v
    };
    for &pos in &positions {
        for &off in &sub_offsets {
            let a = w.base + pos * rs + off;
            // limits in bytes: every count of regions plus sub-region variations
            let mut limits: Vec<usize> = vec![];
            let max_regions = if full_ranges { n + 1 } else { 3 };
            for k in 0..=max_regions {
                for d in [0usize, 1, rs - 1] {
                    let l = k * rs + d;
                    if l > 0 {
                        limits.push(l);
                    }
                }
            }
            if !full_ranges {
                limits.push(n * rs);
                limits.push((n + 2) * rs);
            }
            limits.sort();
            limits.dedup();
            for &lim in &limits {
                for prev in [true, false] {
                    // prev must not run below the mapped heap start; next past the window is fine
                    if prev && lim > (a - heap_start()) + 1 {
                        continue;
                    }
                    counters.0 += 1;
                    match w.check_find(bm, prev, a, lim) {
                        Ok(found) => {
                            if found {
                                counters.1 += 1;
                            }
                        }
                        Err(m) => {
                            let f = if prev { "find_prev" } else { "find_next" };
                            let within_region = prev && lim <= off;
                            run.violation(
                                format!("{}:{}bit{}", f, 1 << p.log_bits, if within_region { ":range_inside_one_region" } else { "" }),
                                format!("{} placement={} bitmap={:?} addr=window+{} limit={}: {}", f, p.name, bm, pos * rs + off, lim, m),
                                case_json(p, bm, f, (pos * rs + off) as isize, lim),
                            );
                        }
                    }
                }
            }
        }
        // scan from this region to every later region boundary
        let ends: Vec<usize> = if full_ranges { (pos..=n).collect() } else { vec![pos, (pos + 1).min(n), (pos + 9).min(n), n] };
        for e in ends {
            counters.0 += 1;
            match w.check_scan(bm, w.base + pos * rs, w.base + e * rs) {
                Ok(found) => {
                    if found {
                        counters.1 += 1;
                    }
                }
                Err(m) => run.violation(
                    format!("scan:{}bit", 1 << p.log_bits),
                    format!("scan placement={} bitmap={:?} regions [{}, {}): {}", p.name, bm, pos, e, m),
                    case_json(p, bm, "scan", (pos * rs) as isize, e * rs),
                ),
            }
        }
    }
    // clear
    w.set_bitmap(&vec![0u8; bm.len()]);
}

fn placements(thorough: bool) -> Vec<Placement> {
    let mut v = vec![];
    let small = if thorough { 12 } else { 10 };
    // 1 bit per 8 bytes (the VO-bit shape, fast paths): 64 regions per metadata word
    v.push(Placement { name: "1bit/word-boundary", log_bits: 0, log_region: 3, first_region: 4096 + 64 - small / 2, regions: small, at_mapped_end: false });
    v.push(Placement { name: "1bit/byte-boundary", log_bits: 0, log_region: 3, first_region: 4096 + 8 + 5, regions: small, at_mapped_end: false });
    v.push(Placement { name: "1bit/page-boundary", log_bits: 0, log_region: 3, first_region: 32768 * 3 - small / 2, regions: small, at_mapped_end: false });
    v.push(Placement { name: "1bit/at-mapped-end", log_bits: 0, log_region: 3, first_region: 2 * CHUNK / 8 - small, regions: small, at_mapped_end: true });
    // 1 bit per 16-byte region (sub-region addresses matter more)
    v.push(Placement { name: "1bit/16B-regions", log_bits: 0, log_region: 4, first_region: 2048 + 64 - small / 2, regions: small, at_mapped_end: false });
    // 2 and 8 bits per region: the simple paths
    v.push(Placement { name: "2bit", log_bits: 1, log_region: 3, first_region: 4096 + 32 - 4, regions: 8, at_mapped_end: false });
    v.push(Placement { name: "8bit", log_bits: 3, log_region: 3, first_region: 4096 + 8 - 4, regions: 8, at_mapped_end: false });
    v
}

pub fn setup() {
    init_side_metadata();
    // two mapped data chunks at the heap start; the third stays unmapped
    assert!(mmtk::util::verif::mmapper_ensure_mapped(heap_start(), 2 * CHUNK / 4096));
    assert!(!mmtk::util::verif::mmapper_is_mapped(heap_start() + 2 * CHUNK));
    for (log_bits, log_region) in [(0usize, 3usize), (0, 4), (1, 3), (3, 3)] {
        let spec = SideMetadataSpec { name: "verif-c22", is_global: true, offset: 0, log_num_of_bits: log_bits, log_bytes_in_region: log_region };
        assert!(verif_hooks::map_metadata(&[spec], &[], heap_start(), 2 * CHUNK));
    }
}

pub fn run(run: &mut Run) {
    setup();
    let thorough = run.tier == crate::common::Tier::Thorough;
    let mut counters = (0u64, 0u64);
    let mut bitmaps = 0u64;
    for p in placements(thorough) {
        let w = make_win(&p);
        let values: u8 = if p.log_bits == 0 { 1 } else if p.log_bits == 1 { 3 } else { 0x80 };
        // all bitmaps
        for code in 0u32..(1 << p.regions) {
            let bm: Vec<u8> = (0..p.regions).map(|i| if code >> i & 1 == 1 { values } else { 0 }).collect();
            bitmaps += 1;
            run_bitmap(run, &p, &w, &bm, true, &mut counters);
            if code == 0b1000100 && run.samples.len() < 3 {
                run.sample(json!({"placement": p.name, "bitmap": bm, "ranges": "every (address, limit) pair and every scan range over the window"}));
            }
        }
    }
    // sparse bitmaps over a larger window (crosses several metadata words)
    let big = Placement { name: "1bit/200-regions", log_bits: 0, log_region: 3, first_region: 8192 + 40, regions: 200, at_mapped_end: false };
    let w = make_win(&big);
    let max_set = if thorough { 3 } else { 2 };
    let mut idx: Vec<usize> = vec![];
    fn rec(run: &mut Run, p: &Placement, w: &Win, idx: &mut Vec<usize>, from: usize, left: usize, counters: &mut (u64, u64), bitmaps: &mut u64) {
        let mut bm = vec![0u8; p.regions];
        for &i in idx.iter() {
            bm[i] = 1;
        }
        *bitmaps += 1;
        run_bitmap(run, p, w, &bm, false, counters);
        if left == 0 {
            return;
        }
        for i in from..p.regions {
            idx.push(i);
            rec(run, p, w, idx, i + 1, left - 1, counters, bitmaps);
            idx.pop();
        }
    }
    rec(run, &big, &w, &mut idx, 0, max_set, &mut counters, &mut bitmaps);
    run.sample(json!({"placement": big.name, "bitmap": format!("every bitmap with <= {} set bits over 200 regions", max_set), "ranges": "addresses around the set bits and the edges x limits of 0..3 regions (+-1 byte) and the full window"}));
    run.set("states", bitmaps);
    run.set("transitions", counters.0);
    run.set("evaluations", counters.0);
    run.set("traces_validated_against_impl", counters.0);
    run.set("distinct_nontrivial", counters.1);
    run.set("exhaustive", true);
    run.set("max_depth", 1);
    run.set("rule", "placements: 1-bit spec windows straddling a metadata byte, word and page boundary, one ending where mapped memory ends, 16-byte regions, 2-bit and 8-bit specs; all 2^n bitmaps over each small window x every (address incl. mid-region, limit incl. +-1 byte) for find_prev/find_next and every (start, end) region pair for scan; all bitmaps with <=2 (3) set bits over 200 regions x ranges around the set bits; non-trivial = the reference finds at least one non-zero region in the range");
    run.assume("scan ranges are region-aligned (block/chunk ranges in all callers)");
    run.assume("search ranges stay at or above the mapped heap start");
}

pub fn replay(case: &Value, run: &mut Run) {
    setup();
    let p = Placement {
        name: "replay",
        log_bits: case["log_bits"].as_u64().unwrap() as usize,
        log_region: case["log_region"].as_u64().unwrap() as usize,
        first_region: case["first_region"].as_u64().unwrap() as usize,
        regions: case["regions"].as_u64().unwrap() as usize,
        at_mapped_end: case["at_mapped_end"].as_bool().unwrap(),
    };
    let w = make_win(&p);
    let bm: Vec<u8> = case["bitmap"].as_array().unwrap().iter().map(|v| v.as_u64().unwrap() as u8).collect();
    w.set_bitmap(&bm);
    let a = w.base + case["addr_offset"].as_i64().unwrap() as usize;
    let n = case["limit_or_end"].as_u64().unwrap() as usize;
    let r = match case["fn"].as_str().unwrap() {
        "find_prev" => w.check_find(&bm, true, a, n),
        "find_next" => w.check_find(&bm, false, a, n),
        _ => w.check_scan(&bm, a, w.base + n),
    };
    if let Err(m) = r {
        run.violation("replay", m, case.clone());
    }
}
