//! C28 — page resources hand out disjoint in-space pages with exact accounting.
//!
//! shadowvm monitor: the page resources of the real `MMTK` instance record every grant and
//! release (hook `mmtk::util::verif::c28`: `FreeListPageResource`, `BlockPageResource`,
//! `MonotonePageResource`, `RegionPageResource`).  All mutator programs up to a depth over
//! {alloc small / medium / large (-> LOS), bursts (one crossing a 4 MiB chunk in the default space,
//! one crossing a chunk in the LOS), drop, GC normal / exhaustive, bind / destroy a second mutator}
//! (plus a variant with Los and Immortal semantics, and a variant under a compressed-pointer layout:
//! Map32, discontiguous spaces) are run per plan, back to back on one instance;
//! after EVERY operation (and therefore after every collection) the event log is drained into a
//! small model of the live grants and compared with the real counters:
//!
//!  * every grant is page-aligned, non-empty, inside the granting space (`[start, start+extent)`
//!    of a contiguous space; `Space::address_in_space` and the VM map's descriptor for its first and
//!    last page), inside address space the resource acquired before (free-list growth / the chunk
//!    handed to the block layer / the backing region of a region resource), and disjoint from every
//!    live grant of every page resource;
//!  * a release names a live grant of that resource, with the grant's size; bulk releases
//!    (`MonotonePageResource::reset`, `reset_cursor`, `RegionPageResource::reset_cursor`) end the
//!    grants they cover;
//!  * at every quiescent point `reserved_pages` and `committed_pages` of every space's page
//!    resource equal the pages of its live grants (data pages: `PageAccounting` of a page resource
//!    does not include side metadata) and are nowhere near `usize::MAX` (underflow).

use crate::common::{catch, emit_child_result, machinery_failure, run_children, Run, Tier};
use crate::progs::{enumerate, prog_from_json, prog_json, step, Alphabet, Op};
use crate::shadow_check::{canonical_shadow, panic_slug};
use crate::shadowvm::{install_crash_handlers, set_current_case, worker_panic_to_crash, BootCfg, Fail, Sem, World, ALL_PLANS};
use crate::vm::with_state;
use mmtk::util::verif::c28 as hook;
use mmtk::util::Address;
use serde_json::{json, Value};
use std::collections::{BTreeMap, HashMap, HashSet};

const PAGE: usize = 4096;

fn fail<T>(sig: &str, msg: String) -> Result<T, Fail> {
    Err((sig.to_string(), msg))
}

const PR_FILES: [&str; 6] = ["accounting.rs", "pageresource.rs", "freelistpageresource.rs", "blockpageresource.rs", "monotonepageresource.rs", "regionpageresource.rs"];

/// `pages:` is C28's own class; an assertion failing inside the page resources / the page
/// accounting (e.g. the underflow assertions of `PageAccounting::release`) is the code itself
/// reporting a violation of this property.
pub fn owns(sig: &str) -> bool {
    sig.starts_with("pages:") || ((sig.starts_with("crash:") || sig.starts_with("panic:")) && PR_FILES.iter().any(|f| sig.contains(&format!(":{}:", f))))
}

// ---------------------------------------------------------------------------------------------
// the model

#[derive(Default)]
pub struct PrModel {
    /// pages in live grants
    pub granted: usize,
    /// backing regions of a region page resource: start -> end
    pub backing: BTreeMap<usize, usize>,
    pub backing_pages: usize,
    /// address space acquired by a free-list resource: start -> end (adjacent ranges merged)
    pub grow: BTreeMap<usize, usize>,
    /// chunks handed to the block layer: start -> end
    pub chunks: BTreeMap<usize, usize>,
    pub block_pages: Option<usize>,
    /// a grant outside every backing region: must be turned into a backing region by the very
    /// next event of this resource
    pub pending_backing: Option<(usize, usize)>,
    pub grants: u64,
    pub releases: u64,
}

#[derive(Default, Clone, Debug)]
pub struct MonStats {
    pub events: u64,
    pub grants: u64,
    pub releases: u64,
    pub bulk_releases: u64,
    pub reuses: u64,
    pub gc_grants: u64,
    pub growths: u64,
    pub shrinks: u64,
    pub counter_checks: u64,
    pub unstable_skips: u64,
    pub max_live_grants: usize,
}

pub struct Monitor {
    pub spaces: Vec<hook::SpaceInfo>,
    pub pr_index: HashMap<usize, usize>,
    /// live grants of all page resources: start -> (end, space index)
    pub live: BTreeMap<usize, (usize, usize)>,
    pub prs: Vec<PrModel>,
    /// first pages of grants that were released at some time (a later grant there is a reuse)
    pub released_starts: HashSet<usize>,
    pub stats: MonStats,
}

fn overlap_in(map: &BTreeMap<usize, usize>, s: usize, e: usize) -> Option<(usize, usize)> {
    if let Some((&a, &b)) = map.range(..e).next_back() {
        if b > s && a < e {
            return Some((a, b));
        }
    }
    None
}

fn contained_in(map: &BTreeMap<usize, usize>, s: usize, e: usize) -> bool {
    match map.range(..=s).next_back() {
        Some((&a, &b)) => a <= s && e <= b,
        None => false,
    }
}

fn insert_merged(map: &mut BTreeMap<usize, usize>, s: usize, e: usize) {
    let mut s = s;
    let mut e = e;
    if let Some((&a, &b)) = map.range(..=s).next_back() {
        if b == s {
            s = a;
            map.remove(&a);
        }
    }
    if let Some(&b) = map.get(&e) {
        map.remove(&e);
        e = b;
    }
    map.insert(s, e);
}

impl Monitor {
    pub fn new(w: &World) -> Monitor {
        let spaces = hook::spaces(w.mmtk);
        let mut pr_index = HashMap::new();
        for (i, s) in spaces.iter().enumerate() {
            if pr_index.insert(s.pr, i).is_some() {
                crate::common::machinery_failure("two spaces share a page resource");
            }
        }
        let prs = spaces.iter().map(|_| PrModel::default()).collect();
        Monitor { spaces, pr_index, live: BTreeMap::new(), prs, released_starts: HashSet::new(), stats: MonStats::default() }
    }

    fn name(&self, i: usize) -> &'static str {
        self.spaces[i].name
    }

    fn end_grant(&mut self, start: usize) {
        if let Some((end, i)) = self.live.remove(&start) {
            self.prs[i].granted -= (end - start) / PAGE;
            self.released_starts.insert(start);
        }
    }

    /// End (or cut down) every live grant of space `i` that lies in `[from, to)`.
    fn release_range(&mut self, i: usize, from: usize, to: usize) -> Result<(), Fail> {
        let mut cut: Vec<(usize, usize)> = vec![];
        for (&s, &(e, owner)) in self.live.range(..to) {
            if owner == i && e > from {
                cut.push((s, e));
            }
        }
        for (s, e) in cut {
            if e > to {
                return fail("pages:release:splits_grant", format!("space '{}': the release of [{:#x},{:#x}) ends inside the live grant [{:#x},{:#x})", self.name(i), from, to, s, e));
            }
            self.end_grant(s);
            if s < from {
                // the grant straddles the new cursor: its lower part stays granted
                self.live.insert(s, (from, i));
                self.prs[i].granted += (from - s) / PAGE;
            }
        }
        Ok(())
    }

    pub fn feed(&mut self, w: &World, events: &[hook::PageEvent]) -> Result<(), Fail> {
        for ev in events {
            self.stats.events += 1;
            let Some(&i) = self.pr_index.get(&ev.pr) else {
                return fail("pages:event:unknown_page_resource", format!("page event {:?} from a page resource that belongs to no space of the plan", ev));
            };
            let sp = self.spaces[i].clone();
            let (s, e) = (ev.start, ev.start.wrapping_add(ev.pages.wrapping_mul(PAGE)));
            if let Some((ps, pe)) = self.prs[i].pending_backing {
                if !(ev.kind == hook::REGION_NEW && ps == s && pe == e) {
                    return fail("pages:grant:outside_region", format!("space '{}': grant [{:#x},{:#x}) is not inside a backing region of its region page resource", self.name(i), ps, pe));
                }
                self.prs[i].pending_backing = None;
            }
            let in_space = |mon: &Monitor, what: &str, s: usize, e: usize| -> Result<(), Fail> {
                if s % PAGE != 0 {
                    return fail(&format!("pages:{}:unaligned", what), format!("space '{}': {} at {:#x} is not page-aligned", mon.name(i), what, s));
                }
                if e <= s {
                    return fail(&format!("pages:{}:empty", what), format!("space '{}': {} of {} pages at {:#x}", mon.name(i), what, ev.pages, s));
                }
                if sp.contiguous && !(s >= sp.start && e <= sp.start + sp.extent) {
                    return fail(&format!("pages:{}:outside_space", what), format!("space '{}' is [{:#x},{:#x}) but {} is [{:#x},{:#x})", mon.name(i), sp.start, sp.start + sp.extent, what, s, e));
                }
                for a in [s, e - PAGE] {
                    let (inside, desc) = hook::owner_checks(w.mmtk, i, unsafe { Address::from_usize(a) });
                    if !inside {
                        return fail(&format!("pages:{}:outside_space", what), format!("space '{}': page {:#x} of the {} [{:#x},{:#x}) is not in the space (address_in_space)", mon.name(i), a, what, s, e));
                    }
                    if !desc {
                        return fail(&format!("pages:{}:descriptor", what), format!("space '{}': the VM map's descriptor for page {:#x} of the {} [{:#x},{:#x}) is not the space's descriptor", mon.name(i), a, what, s, e));
                    }
                }
                Ok(())
            };
            match ev.kind {
                hook::GRANT => {
                    self.stats.grants += 1;
                    self.prs[i].grants += 1;
                    if ev.in_gc_worker {
                        self.stats.gc_grants += 1;
                    }
                    in_space(self, "grant", s, e)?;
                    if let Some((&a, &(b, o))) = self.live.range(..e).next_back() {
                        if b > s && a < e {
                            return fail("pages:grant:overlap", format!("space '{}' was granted [{:#x},{:#x}) ({} pages) overlapping the live grant [{:#x},{:#x}) of space '{}'", self.name(i), s, e, ev.pages, a, b, self.name(o)));
                        }
                    }
                    let pm = &self.prs[i];
                    let outside_backing = !pm.backing.is_empty() && !contained_in(&pm.backing, s, e);
                    if !pm.chunks.is_empty() {
                        if !contained_in(&pm.chunks, s, e) {
                            return fail("pages:grant:outside_chunk", format!("space '{}': block grant [{:#x},{:#x}) is not inside a chunk its block page resource took from the free list", self.name(i), s, e));
                        }
                        if s % (ev.pages * PAGE) != 0 || pm.block_pages.map(|b| b != ev.pages).unwrap_or(false) {
                            return fail("pages:grant:block_shape", format!("space '{}': block grant [{:#x},{:#x}) of {} pages is not one aligned block (block size {:?} pages)", self.name(i), s, e, ev.pages, pm.block_pages));
                        }
                    } else if !pm.grow.is_empty() && !contained_in(&pm.grow, s, e) {
                        return fail("pages:grant:outside_acquired", format!("space '{}': grant [{:#x},{:#x}) is not inside address space its free-list page resource acquired", self.name(i), s, e));
                    }
                    if self.released_starts.contains(&s) {
                        self.stats.reuses += 1;
                    }
                    self.live.insert(s, (e, i));
                    let pm = &mut self.prs[i];
                    pm.granted += ev.pages;
                    if outside_backing {
                        pm.pending_backing = Some((s, e));
                    }
                    if !pm.chunks.is_empty() {
                        pm.block_pages = Some(ev.pages);
                    }
                    self.stats.max_live_grants = self.stats.max_live_grants.max(self.live.len());
                }
                hook::RELEASE => {
                    self.stats.releases += 1;
                    self.prs[i].releases += 1;
                    match self.live.get(&s) {
                        Some(&(end, o)) if o == i && end == e => self.end_grant(s),
                        other => {
                            return fail(
                                "pages:release:not_live",
                                format!("space '{}' released {} pages at {:#x}, which is not a live grant of that size of this page resource (live grant starting there: {:?})", self.name(i), ev.pages, s, other.map(|(end, o)| (format!("{:#x}", end), self.name(*o)))),
                            )
                        }
                    }
                }
                hook::RELEASE_ALL => {
                    self.stats.bulk_releases += 1;
                    self.release_range(i, 0, usize::MAX)?;
                }
                hook::TRUNCATE => {
                    self.stats.bulk_releases += 1;
                    if s % PAGE != 0 {
                        return fail("pages:truncate:unaligned", format!("space '{}': cursor reset to {:#x}", self.name(i), s));
                    }
                    self.release_range(i, s, usize::MAX)?;
                }
                hook::RELEASE_RANGE => {
                    self.stats.bulk_releases += 1;
                    if ev.pages > 0 {
                        self.release_range(i, s, e)?;
                    }
                }
                hook::TRUNCATE_DISCONTIGUOUS => {
                    // discontiguous monotone resource: regions are kept whole by the accounting
                    // (not modelled: the default 64-bit layout has no such resource)
                    crate::common::machinery_failure("TRUNCATE_DISCONTIGUOUS event under a layout the C28 monitor does not model");
                }
                hook::GROW => {
                    self.stats.growths += 1;
                    in_space(self, "growth", s, e)?;
                    if let Some((a, b)) = overlap_in(&self.prs[i].grow, s, e) {
                        return fail("pages:growth:overlap", format!("space '{}': its page resource acquired [{:#x},{:#x}) overlapping [{:#x},{:#x}) acquired earlier", self.name(i), s, e, a, b));
                    }
                    insert_merged(&mut self.prs[i].grow, s, e);
                }
                hook::SHRINK => {
                    self.stats.shrinks += 1;
                    // whole chunks returned to the global pool (discontiguous spaces only)
                    let pm = &mut self.prs[i];
                    if let Some((&a, &b)) = pm.grow.range(..=s).next_back() {
                        if a <= s && e <= b {
                            pm.grow.remove(&a);
                            if a < s {
                                pm.grow.insert(a, s);
                            }
                            if e < b {
                                pm.grow.insert(e, b);
                            }
                        }
                    }
                }
                hook::CHUNK => {
                    in_space(self, "chunk", s, e)?;
                    let pm = &self.prs[i];
                    if !contained_in(&pm.grow, s, e) {
                        return fail("pages:chunk:outside_acquired", format!("space '{}': chunk [{:#x},{:#x}) handed to the block layer is not inside address space the resource acquired", self.name(i), s, e));
                    }
                    if let Some((a, b)) = overlap_in(&pm.chunks, s, e) {
                        return fail("pages:chunk:overlap", format!("space '{}': chunk [{:#x},{:#x}) handed to the block layer twice (earlier [{:#x},{:#x}))", self.name(i), s, e, a, b));
                    }
                    self.prs[i].chunks.insert(s, e);
                }
                hook::REGION_NEW => {
                    // the grant just made by the inner monotone resource is a backing region
                    match self.live.get(&s) {
                        Some(&(end, o)) if o == i && end == e => {
                            self.live.remove(&s);
                            let pm = &mut self.prs[i];
                            pm.granted -= ev.pages;
                            pm.backing.insert(s, e);
                            pm.backing_pages += ev.pages;
                            self.stats.grants -= 1;
                        }
                        _ => return fail("pages:region:not_granted", format!("space '{}': new region [{:#x},{:#x}) was not granted by the inner monotone page resource", self.name(i), s, e)),
                    }
                }
                _ => crate::common::machinery_failure("unknown page event kind"),
            }
        }
        for (i, pm) in self.prs.iter().enumerate() {
            if let Some((ps, pe)) = pm.pending_backing {
                return fail("pages:grant:outside_region", format!("space '{}': grant [{:#x},{:#x}) is not inside a backing region of its region page resource", self.name(i), ps, pe));
            }
        }
        Ok(())
    }

    /// Compare the real counters with the model.  `infos` must have been read at a quiescent
    /// point (no event pending, no collection in progress).
    pub fn check_counters(&mut self, infos: &[hook::SpaceInfo], at: &str) -> Result<(), Fail> {
        self.stats.counter_checks += 1;
        for (i, info) in infos.iter().enumerate() {
            let pm = &self.prs[i];
            for (what, v) in [("reserved", info.pr_reserved), ("committed", info.pr_committed)] {
                if v > usize::MAX / 2 {
                    return fail(&format!("pages:underflow:{}", what), format!("{}: space '{}' has {}_pages = {:#x} (underflow); model: {} pages granted", at, info.name, what, v, pm.granted));
                }
            }
            if info.pr_reserved != pm.granted {
                return fail("pages:accounting:reserved", format!("{}: space '{}' has reserved_pages = {} but {} pages are currently granted ({} grants, {} releases so far)", at, info.name, info.pr_reserved, pm.granted, pm.grants, pm.releases));
            }
            if pm.backing.is_empty() {
                if info.pr_committed != pm.granted {
                    return fail("pages:accounting:committed", format!("{}: space '{}' has committed_pages = {} but {} pages are currently granted (reserved_pages = {})", at, info.name, info.pr_committed, pm.granted, info.pr_reserved));
                }
            } else if info.pr_committed < pm.granted || info.pr_committed > pm.granted + pm.backing_pages {
                // region page resource: whole backing regions are committed when created
                return fail("pages:accounting:committed", format!("{}: space '{}' (region page resource) has committed_pages = {}, outside [{} granted, + {} pages of backing regions]", at, info.name, info.pr_committed, pm.granted, pm.backing_pages));
            }
        }
        Ok(())
    }

    /// Drain the event log into the model and, if the instance is quiescent, compare the counters.
    pub fn quiesce(&mut self, w: &World, at: &str) -> Result<(), Fail> {
        for _ in 0..5 {
            let (c0, a0) = with_state(|s| (s.gc_count, s.gc_active));
            let ev = hook::drain();
            self.feed(w, &ev)?;
            let infos = hook::spaces(w.mmtk);
            let (c1, a1) = with_state(|s| (s.gc_count, s.gc_active));
            let more = hook::drain();
            let stable = c0 == c1 && !a0 && !a1 && more.is_empty();
            self.feed(w, &more)?;
            if stable {
                return self.check_counters(&infos, at);
            }
            std::thread::sleep(std::time::Duration::from_millis(2));
        }
        // a concurrent collection kept running: the events were checked, the counters are skipped
        self.stats.unstable_skips += 1;
        Ok(())
    }
}

// ---------------------------------------------------------------------------------------------
// programs

fn plans(_t: Tier) -> Vec<&'static str> {
    ALL_PLANS.to_vec()
}

fn alphabet(plan: &str, v: &str, _t: Tier) -> Alphabet {
    if v == "sem" {
        // page-granular LOS grants of different sizes (free-list coalescing), immortal (monotone, never released)
        return Alphabet { sizes: vec![48, 12296], sems: vec![Sem::Los, Sem::Immortal], gc_kinds: vec![true], bursts: vec![(264, 100, 2)], refused_allocs: false, align_bursts: false, eph_chains: vec![], two_mutators: false, pins: false, cross_writes: false, fields: 0 };
    }
    Alphabet {
        sizes: vec![40, 264, 81920],
        sems: vec![Sem::Default],
        gc_kinds: vec![false, true],
        // (264 B x 100, keep every 2nd): fragments blocks; (2 KiB x 2500 = 5 MB, keep every 50th):
        // crosses a 4 MiB chunk of the default space; (80 KiB x 60 = 4.7 MB, keep every 4th):
        // crosses a chunk of the large object space
        // (NoGC: nothing is ever reclaimed and the shadow heap keeps every object; PageProtect: one
        // mprotect'ed page per object -- for both the 80 KiB burst alone (1200 pages) crosses a
        // chunk of the one space they allocate in)
        bursts: if plan == "NoGC" || plan == "PageProtect" { vec![(264, 100, 2), (81920, 60, 4)] } else { vec![(264, 100, 2), (2048, 2500, 50), (81920, 60, 4)] },
        refused_allocs: false, align_bursts: false, eph_chains: vec![], two_mutators: true,
        pins: false,
        cross_writes: false,
        fields: 0,
    }
}

fn depth(plan: &str, v: &str, t: Tier) -> usize {
    let d = match (plan, t) {
        ("NoGC", _) => 2,
        ("MarkCompact", Tier::Quick) | ("PageProtect", Tier::Quick) => 2,
        ("MarkCompact", Tier::Thorough) | ("PageProtect", Tier::Thorough) => 3,
        (_, Tier::Quick) => 3,
        (_, Tier::Thorough) => 4,
    };
    if v == "map32" && t == Tier::Quick && plan != "NoGC" {
        // quick: the discontiguous layout one level shallower
        d - 1
    } else {
        d
    }
}

/// "" = main alphabet under the default 64-bit layout (contiguous spaces); "sem" = Los / Immortal
/// semantics; "map32" = the main alphabet under a compressed-pointer style layout (35-bit address
/// space, discontiguous spaces sharing the chunks of one range through `Map32`).  MarkCompact is
/// left out of "map32": `MonotonePageResource::reset_cursor` on a discontiguous resource accounts
/// whole regions (its region list is not visible to the model).
fn variants(plan: &str, _t: Tier) -> Vec<&'static str> {
    if plan == "MarkCompact" {
        vec!["", "sem"]
    } else {
        vec!["", "sem", "map32"]
    }
}

fn boot(plan: &str, _t: Tier) -> BootCfg {
    let mut c = BootCfg::new(plan);
    c.heap_bytes = if plan == "NoGC" { 3 << 30 } else { 32 << 20 };
    c
}

const RULE: &str = "every program of length <= depth per plan (all 11) over {alloc 40 B | 264 B | 80 KiB (-> LOS), burst(264 B x100 keep 2nd), burst(2 KiB x2500 keep 50th: crosses a 4 MiB chunk; not NoGC / PageProtect), burst(80 KiB x60 keep 4th: crosses a chunk of the LOS), drop root, GC(normal), GC(exhaustive), bind/destroy a second mutator}, plus variant 'sem' {alloc 48 B | 12 KiB with Los | Immortal semantics, burst, drop, GC(exhaustive)} (256 MiB heap) and variant 'map32' = the main alphabet under a 35-bit compressed-pointer layout (Map32: discontiguous spaces sharing one chunk pool; quick one level shallower; not MarkCompact); each program followed by a closing exhaustive GC and a drop-all + GC, run back to back on one real MMTK instance (32 MiB heap, 1 GC worker; default 64-bit layout with contiguous spaces unless map32). After EVERY operation the page resources' event log (grants, releases, bulk releases, growth) is drained into the model: grants page-aligned, in the space's range and descriptor, inside acquired address space / chunk / backing region, disjoint from all live grants of all spaces; releases name live grants; reserved_pages == committed_pages == pages of live grants for every space. states = distinct canonical shadow heaps at program end; transitions = mutator operations; distinct_nontrivial = programs in which a grant reused pages that had been released earlier (the case in which disjointness and accounting can go wrong)";

fn timeout_s(t: Tier) -> u64 {
    t.pick(900, 6000)
}

fn label(plan: &str, variant: &str) -> String {
    if variant.is_empty() {
        plan.to_string()
    } else {
        format!("{}/{}", plan, variant)
    }
}

/// Merge the children's results (as `shadow_check::absorb`): a crashed child is a violation if the
/// crash class is this property's, otherwise exploration of that plan stopped for a foreign reason.
fn absorb(run: &mut Run, names: &[String], results: Vec<Value>) {
    for (name, r) in names.iter().zip(results) {
        if r.get("child_crashed").is_some() {
            let crash = r["crash"].as_str().unwrap_or("");
            let (sig, rest) = crash.split_once(' ').unwrap_or((crash, ""));
            let (case_s, detail) = rest.split_once(" ||| ").unwrap_or((rest, ""));
            let case: Value = serde_json::from_str(case_s).unwrap_or(json!({"plan": name, "raw": case_s}));
            let loc = detail.split("panicked at ").nth(1).map(panic_slug);
            let class = format!("crash:{}{}", sig, loc.unwrap_or_default());
            if std::env::var("VERIF_OWN_ALL").is_ok() || owns(&class) {
                run.violation(format!("{}:{}", class, name), format!("plan {}: the process died ({}) while running the program {} {}", name, sig, case["program"], detail), case);
            } else {
                run.assume(&format!("plan {}: exploration stopped by a crash ({}) that belongs to another property's failure class", name, sig));
                run.set("exhaustive", false);
            }
            run.add("children_crashed", 1);
            continue;
        }
        if r.get("child_died").is_some() {
            machinery_failure(&format!("child for plan {} died without a result: {}", name, r));
        }
        run.absorb_child_json(&r);
    }
}

pub fn run(run: &mut Run) {
    // one child process per plan x variant, heaviest variant first
    let plans = plans(run.tier);
    let mut jobs: Vec<(&str, &str)> = vec![];
    for v in ["", "map32", "sem"] {
        for p in &plans {
            if variants(p, run.tier).contains(&v) {
                jobs.push((p, v));
            }
        }
    }
    let args: Vec<Vec<String>> = jobs.iter().map(|(p, v)| vec!["--child".to_string(), "C28".to_string(), p.to_string(), run.tier.name().to_string(), "run".to_string(), v.to_string()]).collect();
    let results = run_children(args, run.jobs, timeout_s(run.tier));
    let names: Vec<String> = jobs.iter().map(|(p, v)| label(p, v)).collect();
    absorb(run, &names, results);
    run.set("rule", RULE);
    run.set("plans", json!(plans));
    run.set("placement", crate::vm::PLACEMENT);
    run.set("features", json!(crate::shadowvm::feature_set()));
    run.assume("one GC worker, mutators played by one thread: single-threaded acquire/release histories (the two-thread interleavings at the page-resource locks are the baton scenario's)");
    run.assume("layouts: the default 64-bit layout (Map64, contiguous spaces) and, variant map32, a 35-bit compressed-pointer style layout (Map32, discontiguous spaces); MarkCompact is not run under map32 (MonotonePageResource::reset_cursor on a discontiguous resource accounts whole regions, which the model does not follow)");
    run.assume("RegionPageResource (Compressor): reserved_pages is checked exactly, committed_pages only to lie between the granted pages and granted + whole backing regions (regions are committed whole when created)");
    run.assume("an assertion failing inside accounting.rs / *pageresource.rs (e.g. the underflow assertions of PageAccounting) is counted as a violation of this property");
}

/// Replay one recorded program in a fresh process; if it passes there, replay the enumeration
/// prefix that preceded it (the verdict may depend on the state earlier programs left behind).
pub fn replay(case: &Value, run: &mut Run) {
    let plan = case["plan"].as_str().unwrap_or("SemiSpace").to_string();
    let prog = serde_json::to_string(&case["program"]).unwrap();
    let ord = case["ordinal"].as_u64().unwrap_or(0).to_string();
    let variant = case["variant"].as_str().unwrap_or("").to_string();
    let name = label(&plan, &variant);
    let base = vec!["--child".to_string(), "C28".to_string(), plan.clone(), run.tier.name().to_string(), "replay".to_string(), variant, prog];
    let r = run_children(vec![base.clone()], 1, 900);
    let before = run.violations.len();
    absorb(run, &[name.clone()], r);
    if run.violations.len() == before {
        let mut a = base;
        a.push("prefix".to_string());
        a.push(ord);
        let r = run_children(vec![a], 1, timeout_s(run.tier));
        absorb(run, &[name], r);
    }
}

/// Child process: as `shadow_check::child`, but the monitor runs after every operation.
pub fn child(args: &[String]) -> ! {
    let plan = args[0].as_str();
    let tier = if args.get(1).map(|s| s.as_str()) == Some("thorough") { Tier::Thorough } else { Tier::Quick };
    install_crash_handlers();
    let _ = crate::common::WORKER_PANIC_HANDLER.set(Box::new(worker_panic_to_crash));
    let variant = args.get(3).map(|s| s.as_str()).unwrap_or("");
    let mut cfg = boot(plan, tier);
    if variant == "sem" && plan != "NoGC" {
        // immortal objects are never reclaimed: room for everything the variant allocates
        cfg.heap_bytes = 256 << 20;
    }
    set_current_case(&json!({"plan": plan, "program": "boot"}));
    if variant == "map32" {
        // the layout is process-global and must be installed before the instance is created
        let mut b = mmtk::MMTKBuilder::new_no_env_vars();
        b.set_vm_layout(mmtk::util::heap::vm_layout::VMLayout {
            log_address_space: 35,
            heap_start: unsafe { Address::from_usize(0x4000_0000) },
            heap_end: unsafe { Address::from_usize(0x8_0000_0000) },
            log_space_extent: 31,
            force_use_contiguous_spaces: false,
        });
    }
    hook::enable(true);
    let mut w = World::boot(cfg.clone());
    let mut mon = Monitor::new(&w);
    let mut sub = Run::new("C28", tier);
    let discontiguous = mon.spaces.iter().filter(|s| !s.contiguous).count();
    if (variant == "map32") != (discontiguous > 0) {
        crate::common::machinery_failure(&format!("variant '{}' but {} discontiguous spaces", variant, discontiguous));
    }
    let alphabet = alphabet(plan, variant, tier);
    let depth = depth(plan, variant, tier);
    let label = label(plan, variant);
    let progs: Vec<Vec<Op>> = if args.get(2).map(|s| s.as_str()) == Some("replay") {
        let p = prog_from_json(&serde_json::from_str::<Value>(&args[4]).unwrap_or(Value::Null));
        if args.get(5).map(|s| s.as_str()) == Some("prefix") {
            let n: usize = args[6].parse().unwrap_or(0);
            let mut all = enumerate(&alphabet, depth, &|_p: &[Op]| true);
            all.truncate(n + 1);
            all
        } else {
            vec![p]
        }
    } else {
        enumerate(&alphabet, depth, &|_p: &[Op]| true)
    };
    let mut states: HashSet<u64> = HashSet::new();
    let mut nontrivial = 0u64;
    let mut evaluated = 0u64;
    let mut stopped = false;
    let total = progs.len();
    for (i, p) in progs.iter().enumerate() {
        let case = json!({"plan": plan, "variant": variant, "ordinal": i, "program": prog_json(p), "boot": cfg.json()});
        set_current_case(&case);
        let reuses0 = mon.stats.reuses;
        let ev0 = mon.stats.events;
        let r = catch(|| {
            mon.quiesce(&w, "before the program")?;
            for (k, op) in p.iter().enumerate() {
                let r = step(&mut w, op);
                // the monitor's verdict comes first: it is what this property is about
                mon.quiesce(&w, &format!("after operation #{} {}", k, op.json()))?;
                r?;
            }
            let r = w.gc(0, true);
            mon.quiesce(&w, "after the closing exhaustive GC")?;
            r?;
            states.insert(canonical_shadow(&w));
            let r = w.reset();
            mon.quiesce(&w, "after dropping all roots and an exhaustive GC")?;
            r
        });
        evaluated += 1;
        let failure: Option<Fail> = match r {
            Ok(Ok(())) => {
                if mon.stats.reuses > reuses0 {
                    nontrivial += 1;
                }
                if i % (total / 3 + 1) == total / 6 && matches!(plan, "SemiSpace" | "Immix" | "MarkSweep" | "Compressor") {
                    sub.sample(json!({"plan": label, "program": prog_json(p), "page_events": mon.stats.events - ev0, "grants_reusing_released_pages": mon.stats.reuses - reuses0,
                        "live_grants_now": mon.live.len(), "reserved_pages_now": mon.spaces.iter().enumerate().filter(|(i, _)| mon.prs[*i].grants > 0).map(|(i, s)| json!([s.name, mon.prs[i].granted])).collect::<Vec<_>>()}));
                }
                None
            }
            Ok(Err(e)) => Some(e),
            Err(pm) => Some((format!("panic{}", panic_slug(&format!("{}:0: {}", crate::common::last_panic_location(), pm))), format!("panic at {}: {}", crate::common::last_panic_location(), pm.lines().next().unwrap_or("")))),
        };
        if let Some((sig, msg)) = failure {
            sub.sample(json!({"plan": label, "program": prog_json(p), "failed": sig, "page_events_so_far": mon.stats.events}));
            if std::env::var("VERIF_OWN_ALL").is_ok() || owns(&sig) {
                sub.violation(format!("{}:{}", sig, label), format!("plan {} program #{} {}: {}", label, i, prog_json(p), msg), case);
            } else {
                sub.assume(&format!("plan {}: exploration stopped at program #{} by a failure of another property's class ({})", plan, i, sig));
                sub.set("foreign_failures", json!([format!("{}: {} (program {})", sig, msg, prog_json(p))]));
            }
            stopped = true;
            break;
        }
    }
    sub.add("states", states.len() as u64);
    sub.add("transitions", w.stats.ops);
    sub.add("evaluations", evaluated);
    sub.add("traces_validated_against_impl", evaluated);
    sub.add("distinct_nontrivial", nontrivial);
    sub.add("collections", w.stats.gcs);
    sub.add("page_events", mon.stats.events);
    sub.add("grants", mon.stats.grants);
    sub.add("grants_by_gc_workers", mon.stats.gc_grants);
    sub.add("single_releases", mon.stats.releases);
    sub.add("bulk_releases", mon.stats.bulk_releases);
    sub.add("grants_reusing_released_pages", mon.stats.reuses);
    sub.add("address_space_growths", mon.stats.growths);
    sub.add("chunk_returns_to_global_pool", mon.stats.shrinks);
    if variant == "map32" {
        sub.add("programs_under_discontiguous_layout", evaluated);
    }
    sub.add("counter_comparisons", mon.stats.counter_checks);
    sub.add("counter_comparisons_skipped_concurrent_gc", mon.stats.unstable_skips);
    sub.set("max_depth", depth as u64);
    sub.set("exhaustive", !stopped);
    sub.set("per_plan", json!({label: {"programs": evaluated, "depth": depth, "collections": w.stats.gcs, "page_events": mon.stats.events, "grants": mon.stats.grants, "releases": mon.stats.releases + mon.stats.bulk_releases, "reuses": mon.stats.reuses, "max_live_grants": mon.stats.max_live_grants}}));
    emit_child_result(&sub.to_child_json());
}
