//! C30 mmap chunk states: BFS to closure over `quarantine_address_range` / `ensure_mapped` /
//! `mark_as_mapped` histories on a *private* `ChunkStateMmapper`, over a window of chunks that
//! straddles a slab boundary of the two-level state storage, against a per-chunk three-state model
//! (Unmapped -> Quarantined -> Mapped, never back).
//!
//! After every operation, for every chunk of the window and one guard chunk on each side:
//!  * the recorded state (read through a hook) equals the model (so: monotone, every chunk of the
//!    requested range reached the requested state, no chunk outside the range changed);
//!  * `is_mapped_address` at the first and the last byte of the chunk is true exactly for Mapped;
//!  * the OS view, read from /proc/self/maps (and `mincore` as a second source): a Mapped chunk
//!    is completely covered by readable + writable mappings, a Quarantined chunk is completely
//!    reserved by a mapping, an Unmapped chunk of the private window has no mapping at all;
//!  * a chunk that the operation made Mapped is really written and read back at its first and
//!    last byte (guarded by EFAULT-returning syscall probes, so a violation cannot kill the
//!    harness), once per distinct (operation, chunk, previous state[, neighbours' states]) --
//!    page faults are by far the most expensive part of this check, VERIF_C30_TOUCH_ALL=1 touches
//!    after every operation.
//!
//! Each window is explored in its own child process (mmap/munmap of threads of one process
//! serialise on the mmap lock).  A state is rebuilt by replaying its history on a fresh private
//! mapper in a freshly unmapped window.
//!
//! Preconditions respected by the alphabet: `quarantine_address_range` is not offered on a range
//! that contains a Quarantined chunk (explicit panic in the implementation); before
//! `mark_as_mapped` the harness maps the chunks itself, as a VM would; all ranges are
//! page-aligned and inside the mappable address space.

use crate::common::{machinery_failure, Run};
use crate::seqx::{self, Subject};
use mmtk::util::os::{HugePageSupport, MmapAnnotation, MmapProtection};
use mmtk::util::verif::c30::{self as hooks, ChunkStateMmapper, Mmapper, MAPPED, QUARANTINED, UNMAPPED};
use mmtk::util::Address;
use serde_json::{json, Value};
use std::cell::RefCell;
use std::collections::HashSet;

const LOG_CHUNK: usize = 22;
const CHUNK: usize = 1 << LOG_CHUNK;
const PAGE: usize = 4096;
const PAGES_IN_CHUNK: usize = CHUNK / PAGE;

const ANNO: MmapAnnotation<'static> = MmapAnnotation::Misc { name: "verif-c30" };

#[derive(Clone, Debug)]
pub struct Cfg {
    /// address of a slab boundary of the two-level storage (multiple of the slab size)
    pub boundary: usize,
    /// number of window chunks below the boundary (0 or `chunks`: the window touches the boundary
    /// from one side only)
    pub before: usize,
    /// window size in chunks
    pub chunks: usize,
    /// longest range offered, in chunks
    pub max_len: usize,
    /// offer the two page-unaligned shapes on every (first chunk, length); otherwise only on the
    /// ranges that start at the last chunk below the slab boundary (lengths 1..3)
    pub all_shapes: bool,
    /// physically write + read back the first and last byte of a freshly Mapped chunk once per
    /// (operation, chunk, previous state of the chunk *and of its two neighbours*) instead of
    /// once per (operation, chunk, previous state)
    pub touch_fine: bool,
}

impl Cfg {
    fn base(&self) -> usize {
        self.boundary - self.before * CHUNK
    }
    /// window plus one guard chunk on each side
    fn guarded(&self) -> (usize, usize) {
        (self.base() - CHUNK, (self.chunks + 2) * CHUNK)
    }
}

#[derive(Clone, Copy, Debug, PartialEq, Eq, Hash)]
pub enum Kind {
    Quarantine,
    Ensure,
    Mark,
}

/// How the requested byte range sits on the chunks it overlaps.
#[derive(Clone, Copy, Debug, PartialEq, Eq, Hash)]
pub enum Shape {
    /// starts and ends on chunk boundaries
    Aligned,
    /// starts one page after the first chunk's start, ends one page before the last chunk's end
    Inner,
    /// starts at the last page of the first chunk, ends after the first page of the last chunk
    /// (for a single chunk: one page in the middle of the chunk)
    Edge,
}

#[derive(Clone, Copy, Debug, PartialEq, Eq, Hash)]
pub struct Op {
    pub kind: Kind,
    /// first overlapped chunk of the window
    pub s: usize,
    /// number of overlapped chunks
    pub l: usize,
    pub shape: Shape,
}

impl Op {
    /// (start offset from window base, bytes); both page-aligned.
    fn byte_range(&self) -> (usize, usize) {
        let lo = self.s * CHUNK;
        let hi = (self.s + self.l) * CHUNK;
        match self.shape {
            Shape::Aligned => (lo, hi - lo),
            Shape::Inner => (lo + PAGE, hi - lo - 2 * PAGE),
            Shape::Edge => {
                if self.l == 1 {
                    (lo + CHUNK / 2, PAGE)
                } else {
                    let a = lo + CHUNK - PAGE;
                    let b = hi - CHUNK + PAGE;
                    (a, b - a)
                }
            }
        }
    }
}

struct Probe {
    rd: i32,
    wr: i32,
}

impl Probe {
    fn new() -> Probe {
        let mut fds = [0i32; 2];
        if unsafe { libc::pipe(fds.as_mut_ptr()) } != 0 {
            machinery_failure("pipe() failed");
        }
        Probe { rd: fds[0], wr: fds[1] }
    }
    /// write(2) from an inaccessible buffer fails with EFAULT instead of faulting.
    fn readable(&mut self, a: usize) -> bool {
        let n = unsafe { libc::write(self.wr, a as *const libc::c_void, 1) };
        if n == 1 {
            let mut b = 0u8;
            unsafe { libc::read(self.rd, &mut b as *mut u8 as *mut libc::c_void, 1) };
            true
        } else {
            false
        }
    }
    /// read(2) into an unwritable buffer fails with EFAULT instead of faulting.  Stores `v`.
    fn writable(&mut self, a: usize, v: u8) -> bool {
        let n = unsafe { libc::write(self.wr, &v as *const u8 as *const libc::c_void, 1) };
        if n != 1 {
            machinery_failure("probe pipe write failed");
        }
        let n = unsafe { libc::read(self.rd, a as *mut libc::c_void, 1) };
        if n == 1 {
            true
        } else {
            // the byte may or may not still be in the pipe: start over with a new pipe
            *self = Probe::new();
            false
        }
    }
}

impl Drop for Probe {
    fn drop(&mut self) {
        unsafe {
            libc::close(self.rd);
            libc::close(self.wr);
        }
    }
}

/// Does every page of the chunk at `a` have an OS mapping (of any protection)?
fn os_fully_mapped(a: usize) -> bool {
    let mut vec = [0u8; PAGES_IN_CHUNK];
    unsafe { libc::mincore(a as *mut libc::c_void, CHUNK, vec.as_mut_ptr()) == 0 }
}

/// What a VM does before `mark_as_mapped`: map the memory itself, readable and writable.
fn vm_maps(a: usize, bytes: usize) {
    let p = unsafe {
        libc::mmap(
            a as *mut libc::c_void,
            bytes,
            libc::PROT_READ | libc::PROT_WRITE,
            libc::MAP_PRIVATE | libc::MAP_ANONYMOUS | libc::MAP_NORESERVE | libc::MAP_FIXED,
            -1,
            0,
        )
    };
    if p as usize != a {
        machinery_failure("harness (acting as the VM) could not map a chunk of its window");
    }
}

/// The mappings of /proc/self/maps that intersect [lo, hi): (start, end, readable, writable).
fn proc_maps(lo: usize, hi: usize) -> Vec<(usize, usize, bool, bool)> {
    let Ok(s) = std::fs::read_to_string("/proc/self/maps") else {
        machinery_failure("cannot read /proc/self/maps");
    };
    let mut v = vec![];
    for line in s.lines() {
        let mut it = line.split_ascii_whitespace();
        let (Some(range), Some(perms)) = (it.next(), it.next()) else { continue };
        let Some((a, b)) = range.split_once('-') else { continue };
        let (Ok(a), Ok(b)) = (usize::from_str_radix(a, 16), usize::from_str_radix(b, 16)) else { continue };
        if a < hi && lo < b {
            let p = perms.as_bytes();
            v.push((a, b, p[0] == b'r', p[1] == b'w'));
        }
    }
    v
}

pub struct St {
    mapper: ChunkStateMmapper,
    model: Vec<u8>,
    /// the operations applied since `fresh()`
    hist: Vec<Op>,
    /// the model before the last operation
    prev: Vec<u8>,
}

#[derive(Default)]
struct Extra {
    seen: HashSet<(Vec<u8>, Op)>,
    by_kind: [u64; 3],
    by_shape: [u64; 3],
    spans_boundary: u64,
    mixed_states: u64,
    spans_and_mixed: u64,
    quarantine_over_mapped: u64,
    mark_over_quarantined: u64,
    ensure_over_quarantined: u64,
    all_already_mapped: u64,
    checks: u64,
    byte_probes: u64,
    touched: HashSet<(Op, usize, [u8; 3])>,
    examples: Vec<Value>,
}

pub struct MmSubject {
    pub cfg: Cfg,
    /// VERIF_C30_TOUCH_ALL=1: write + read back every freshly Mapped chunk after every operation
    touch_all: bool,
    probe: RefCell<Probe>,
    extra: RefCell<Extra>,
}

fn state_name(s: u8) -> &'static str {
    match s {
        UNMAPPED => "Unmapped",
        QUARANTINED => "Quarantined",
        MAPPED => "Mapped",
        _ => "<invalid>",
    }
}

fn vec_str(v: &[u8]) -> String {
    v.iter().map(|s| ['U', 'Q', 'M', '?'][(*s).min(3) as usize]).collect()
}

impl MmSubject {
    pub fn new(cfg: Cfg) -> Self {
        let slab = 1usize << hooks::log_slab_bytes();
        if cfg.boundary % slab != 0 || cfg.before > cfg.chunks || cfg.base() < 2 * CHUNK {
            machinery_failure("C30: bad window configuration");
        }
        let (lo, bytes) = cfg.guarded();
        let busy = proc_maps(lo, lo + bytes);
        if !busy.is_empty() {
            machinery_failure(&format!("C30: window {:#x}+{:#x} is not free in this process: {:x?}", lo, bytes, busy));
        }
        MmSubject { cfg, touch_all: std::env::var("VERIF_C30_TOUCH_ALL").map(|v| v == "1").unwrap_or(false), probe: RefCell::new(Probe::new()), extra: RefCell::new(Extra::default()) }
    }
    fn addr(&self, chunk: isize) -> usize {
        (self.cfg.base() as isize + chunk * CHUNK as isize) as usize
    }
    /// The operation on the real mapper and on the model.
    fn do_op(&self, st: &mut St, op: &Op) -> Result<(), String> {
        let pre = st.model.clone();
        let range = op.s..op.s + op.l;
        let (off, bytes) = op.byte_range();
        let start = unsafe { Address::from_usize(self.cfg.base() + off) };
        assert!(bytes > 0 && bytes % PAGE == 0 && off % PAGE == 0);
        assert!(off / CHUNK == op.s && (off + bytes - 1) / CHUNK == op.s + op.l - 1 && op.s + op.l <= self.cfg.chunks);
        match op.kind {
            Kind::Quarantine => {
                st.mapper
                    .quarantine_address_range(start, bytes / PAGE, HugePageSupport::No, &ANNO)
                    .map_err(|e| format!("op-failed: quarantine_address_range({}, {} pages) on chunks {} failed: {}", start, bytes / PAGE, vec_str(&pre[range.clone()]), e))?;
                for i in range.clone() {
                    st.model[i] = st.model[i].max(QUARANTINED);
                }
            }
            Kind::Ensure => {
                st.mapper
                    .ensure_mapped(start, bytes / PAGE, HugePageSupport::No, MmapProtection::ReadWrite, &ANNO)
                    .map_err(|e| format!("op-failed: ensure_mapped({}, {} pages) on chunks {} failed: {}", start, bytes / PAGE, vec_str(&pre[range.clone()]), e))?;
                for i in range.clone() {
                    st.model[i] = MAPPED;
                }
            }
            Kind::Mark => {
                // "Used to mark pages that the VM has already mapped": the harness is the VM.  It
                // maps whole chunks because the mapper documents that it rounds ranges to chunks.
                for i in range.clone() {
                    if pre[i] != MAPPED {
                        vm_maps(self.addr(i as isize), CHUNK);
                    }
                }
                st.mapper.mark_as_mapped(start, bytes);
                for i in range.clone() {
                    st.model[i] = MAPPED;
                }
            }
        }
        st.hist.push(*op);
        st.prev = pre;
        Ok(())
    }
    fn real_states(&self, st: &St) -> Vec<u8> {
        (0..self.cfg.chunks).map(|i| hooks::chunk_state(&st.mapper, unsafe { Address::from_usize(self.addr(i as isize)) })).collect()
    }
}

impl Subject for MmSubject {
    type Op = Op;
    type State = St;
    /// A "snapshot" is the history itself: the mapper owns OS mappings and cannot be copied, so a
    /// state is rebuilt by replaying its history on a fresh mapper in a clean window.  Every
    /// prefix of that history was the final operation of an earlier transition and got the full
    /// oracle then; the rebuild only re-checks that the recorded states follow the model.
    type Snap = Vec<Op>;
    fn name(&self) -> String {
        format!("mmapper[{:?}]", self.cfg)
    }
    fn snapshot(&self, st: &St) -> Option<Vec<Op>> {
        Some(st.hist.clone())
    }
    fn restore(&self, hist: &Vec<Op>) -> St {
        let mut st = self.fresh();
        for op in hist {
            if let Err(m) = self.do_op(&mut st, op) {
                machinery_failure(&format!("C30: replay divergence at {:?} of {:?}: {}", op, hist, m));
            }
        }
        if self.real_states(&st) != st.model {
            machinery_failure(&format!("C30: replay divergence after {:?}: recorded {} model {}", hist, vec_str(&self.real_states(&st)), vec_str(&st.model)));
        }
        st
    }
    fn fresh(&self) -> St {
        // a clean window (guards included) and a mapper without history
        let (lo, bytes) = self.cfg.guarded();
        if unsafe { libc::munmap(lo as *mut libc::c_void, bytes) } != 0 {
            machinery_failure("C30: cannot unmap the window");
        }
        St { mapper: hooks::new_chunk_state_mmapper(), model: vec![UNMAPPED; self.cfg.chunks], hist: vec![], prev: vec![UNMAPPED; self.cfg.chunks] }
    }
    fn enabled(&self, st: &St) -> Vec<Op> {
        let w = self.cfg.chunks;
        let mut ops = vec![];
        for l in 1..=self.cfg.max_len.min(w) {
            for s in 0..=(w - l) {
                for shape in [Shape::Aligned, Shape::Inner, Shape::Edge] {
                    if shape != Shape::Aligned && !(self.cfg.all_shapes || (l <= 3 && s == self.cfg.before.saturating_sub(1).min(w - l))) {
                        continue;
                    }
                    for kind in [Kind::Quarantine, Kind::Ensure, Kind::Mark] {
                        // explicit precondition of the implementation: never quarantine a
                        // Quarantined chunk again
                        if kind == Kind::Quarantine && st.model[s..s + l].contains(&QUARANTINED) {
                            continue;
                        }
                        ops.push(Op { kind, s, l, shape });
                    }
                }
            }
        }
        ops
    }
    fn apply(&self, st: &mut St, op: &Op) -> Result<bool, String> {
        let pre = st.model.clone();
        let range = op.s..op.s + op.l;
        let (off, bytes) = op.byte_range();
        let start = unsafe { Address::from_usize(self.cfg.base() + off) };
        let spans = op.s < self.cfg.before && op.s + op.l > self.cfg.before;
        let mixed = pre[range.clone()].iter().any(|x| *x != pre[op.s]);
        {
            let mut e = self.extra.borrow_mut();
            if e.seen.insert((pre.clone(), *op)) {
                e.by_kind[op.kind as usize] += 1;
                e.by_shape[op.shape as usize] += 1;
                e.spans_boundary += spans as u64;
                e.mixed_states += mixed as u64;
                e.spans_and_mixed += (spans && mixed) as u64;
                let has = |s: u8| pre[range.clone()].contains(&s);
                e.quarantine_over_mapped += (op.kind == Kind::Quarantine && has(MAPPED)) as u64;
                e.mark_over_quarantined += (op.kind == Kind::Mark && has(QUARANTINED)) as u64;
                e.ensure_over_quarantined += (op.kind == Kind::Ensure && has(QUARANTINED)) as u64;
                e.all_already_mapped += pre[range.clone()].iter().all(|x| *x == MAPPED) as u64;
            }
        }
        self.do_op(st, op)?;
        if spans && mixed {
            let mut e = self.extra.borrow_mut();
            if e.examples.len() < 2 && op.l >= 3 {
                e.examples.push(json!({"before": vec_str(&pre), "op": self.op_json(op), "start": format!("{}", start), "bytes": bytes, "after": vec_str(&st.model)}));
            }
        }
        Ok(spans || mixed)
    }
    fn check(&self, st: &St) -> Result<(), String> {
        let w = self.cfg.chunks as isize;
        let mut probe = self.probe.borrow_mut();
        let mut e = self.extra.borrow_mut();
        e.checks += 1;
        // The OS view of the window: /proc/self/maps is the authority on which pages have a
        // mapping and with which protection, for whole chunks and without touching memory.
        let (lo, bytes) = self.cfg.guarded();
        let maps = proc_maps(lo, lo + bytes);
        let all = vec_str(&st.model);
        let last = st.hist.last();
        for i in -1..=w {
            let a = self.addr(i);
            let guard = i < 0 || i == w;
            let want = if guard { UNMAPPED } else { st.model[i as usize] };
            let what = if guard { format!("guard chunk {} ({:#x}) next to the window", i, a) } else { format!("chunk {} ({:#x})", i, a) };
            let got = hooks::chunk_state(&st.mapper, unsafe { Address::from_usize(a) });
            if got != want {
                return Err(format!("recorded-state: {} is recorded {} but must be {} (model {})", what, state_name(got), state_name(want), all));
            }
            for b in [a, a + CHUNK - 1] {
                let m = st.mapper.is_mapped_address(unsafe { Address::from_usize(b) });
                if m != (want == MAPPED) {
                    return Err(format!("is_mapped_address: {:#x} in {} which is {} -> {} (model {})", b, what, state_name(want), m, all));
                }
            }
            let mut covered = 0usize;
            let mut rw = true;
            for &(s, t, r, wr) in &maps {
                let (s, t) = (s.max(a), t.min(a + CHUNK));
                if s < t {
                    covered += t - s;
                    rw &= r && wr;
                }
            }
            match want {
                MAPPED => {
                    if covered != CHUNK || !os_fully_mapped(a) {
                        return Err(format!("os-mapped: {} is Mapped but only {:#x} of its {:#x} bytes have an OS mapping (model {})", what, covered, CHUNK, all));
                    }
                    if !rw {
                        return Err(format!("os-mapped: {} is Mapped but not all of its pages are readable and writable according to /proc/self/maps (model {})", what, all));
                    }
                }
                QUARANTINED => {
                    if covered != CHUNK || !os_fully_mapped(a) {
                        return Err(format!("os-quarantined: {} is Quarantined but only {:#x} of its {:#x} bytes are reserved by an OS mapping (model {})", what, covered, CHUNK, all));
                    }
                }
                _ => {
                    if covered != 0 {
                        return Err(format!("os-unmapped: {} is Unmapped but {:#x} bytes of it have an OS mapping in the private window (model {})", what, covered, all));
                    }
                }
            }
            // A chunk that the last operation made Mapped: really write and read back its first
            // and last byte (the first time this case occurs; page faults are the expensive part
            // of this check).  /proc/self/maps says rw, so this cannot fault; the EFAULT probes are
            // a second safety net.
            if let (false, MAPPED, Some(op)) = (guard, want, last) {
                let i = i as usize;
                let at = |j: isize| if j < 0 || j >= w { UNMAPPED } else { st.prev[j as usize] };
                if st.prev[i] != MAPPED && (op.s..op.s + op.l).contains(&i) {
                    let class = if self.cfg.touch_fine { [at(i as isize - 1), st.prev[i], at(i as isize + 1)] } else { [3, st.prev[i], 3] };
                    if e.touched.insert((*op, i, class)) || self.touch_all {
                        for (k, b) in [a, a + CHUNK - 1].into_iter().enumerate() {
                            e.byte_probes += 1;
                            if !probe.readable(b) {
                                return Err(format!("os-mapped: byte {:#x} of Mapped {} is not readable (model {})", b, what, all));
                            }
                            let v = 0xa5u8 ^ (k as u8) ^ (i as u8);
                            if !probe.writable(b, v) {
                                return Err(format!("os-mapped: byte {:#x} of Mapped {} is not writable (model {})", b, what, all));
                            }
                            let p = b as *mut u8;
                            let back = unsafe { std::ptr::read_volatile(p) };
                            unsafe { std::ptr::write_volatile(p, !v) };
                            let back2 = unsafe { std::ptr::read_volatile(p) };
                            if back != v || back2 != !v {
                                return Err(format!("os-mapped: byte {:#x} of Mapped {} read back {:#x}/{:#x} after writing {:#x}/{:#x}", b, what, back, back2, v, !v));
                            }
                        }
                    }
                }
            }
        }
        Ok(())
    }
    fn key(&self, st: &St) -> Vec<u8> {
        // the complete state of the mapper inside the window: recorded chunk states, and which of
        // the two slabs exist (a missing slab reads as Unmapped through a different path)
        let mut k = self.real_states(st);
        let lo = unsafe { Address::from_usize(self.addr(0)) };
        let hi = unsafe { Address::from_usize(self.addr(self.cfg.chunks as isize - 1)) };
        k.push(hooks::slab_allocated(&st.mapper, lo) as u8);
        k.push(hooks::slab_allocated(&st.mapper, hi) as u8);
        k
    }
    fn op_json(&self, op: &Op) -> Value {
        json!({
            "op": match op.kind { Kind::Quarantine => "quarantine_address_range", Kind::Ensure => "ensure_mapped", Kind::Mark => "mark_as_mapped" },
            "chunk": op.s,
            "chunks": op.l,
            "shape": match op.shape { Shape::Aligned => "aligned", Shape::Inner => "inner", Shape::Edge => "edge" },
        })
    }
    fn signature(&self, op: &Op, msg: &str) -> String {
        let k = match op.kind {
            Kind::Quarantine => "quarantine_address_range",
            Kind::Ensure => "ensure_mapped",
            Kind::Mark => "mark_as_mapped",
        };
        let tag = msg.split(':').next().unwrap_or("");
        let tag = if tag.len() <= 20 && !tag.contains(' ') { tag } else { "mismatch" };
        let span = if op.s < self.cfg.before && op.s + op.l > self.cfg.before { "across-slabs" } else if op.l > 1 { "multi-chunk" } else { "single-chunk" };
        format!("{}:{}:{}", k, span, tag)
    }
}

pub fn op_from_json(v: &Value) -> Op {
    Op {
        kind: match v["op"].as_str().unwrap_or("") {
            "quarantine_address_range" => Kind::Quarantine,
            "ensure_mapped" => Kind::Ensure,
            _ => Kind::Mark,
        },
        s: v["chunk"].as_u64().unwrap_or(0) as usize,
        l: v["chunks"].as_u64().unwrap_or(1) as usize,
        shape: match v["shape"].as_str().unwrap_or("") {
            "inner" => Shape::Inner,
            "edge" => Shape::Edge,
            _ => Shape::Aligned,
        },
    }
}

fn cfg_json(c: &Cfg) -> Value {
    json!({"boundary": format!("{:#x}", c.boundary), "before": c.before, "chunks": c.chunks, "max_len": c.max_len, "all_shapes": c.all_shapes, "touch_fine": c.touch_fine})
}

fn cfg_from_json(v: &Value) -> Cfg {
    let b = v["boundary"].as_str().unwrap_or("0x0");
    Cfg {
        boundary: usize::from_str_radix(b.trim_start_matches("0x"), 16).unwrap_or(0),
        before: v["before"].as_u64().unwrap_or(0) as usize,
        chunks: v["chunks"].as_u64().unwrap_or(0) as usize,
        max_len: v["max_len"].as_u64().unwrap_or(0) as usize,
        all_shapes: v["all_shapes"].as_bool().unwrap_or(true),
        touch_fine: v["touch_fine"].as_bool().unwrap_or(true),
    }
}

/// Windows at distinct slab boundaries (threads never share a window).  The boundaries are far
/// from everything a Linux process maps on its own (binary 0x55.., libraries and stacks 0x7f..)
/// and no MMTk instance exists in this process.
pub fn configs(tier: crate::common::Tier) -> Vec<Cfg> {
    let slab = 1usize << hooks::log_slab_bytes();
    // slab 2048|2049 is at 2^46 for the 32 GiB slabs of the current code
    let high = |i: usize| (0x4000_0000_0000usize / slab + 2 * i) * slab;
    let mut v = vec![];
    let thorough = tier == crate::common::Tier::Thorough;
    let c = |i: usize, before: usize, chunks: usize, max_len: usize| Cfg { boundary: high(i), before, chunks, max_len, all_shapes: thorough, touch_fine: thorough };
    // the centred 6-chunk window of the plan
    v.push(c(0, 3, 6, 3));
    // boundary after the first / before the last chunk
    v.push(c(1, 1, 6, 3));
    if thorough {
        v.push(c(2, 5, 6, 3));
    }
    // the very first slab boundary (slab index 0 | 1)
    v.push(Cfg { boundary: slab, ..c(0, 3, 6, 3) });
    if thorough {
        // every range length
        v.push(c(3, 3, 6, 6));
        v.push(c(4, 2, 6, 6));
        v.push(c(5, 4, 6, 6));
        // window ending / starting exactly at a slab boundary (slice upper bound == slab length)
        v.push(c(6, 6, 6, 6));
        v.push(c(7, 0, 6, 6));
        // longer windows, every range length (unaligned shapes only next to the boundary)
        v.push(Cfg { all_shapes: false, touch_fine: false, ..c(8, 3, 7, 7) });
        v.push(Cfg { all_shapes: false, touch_fine: false, ..c(9, 4, 7, 7) });
    }
    v
}

/// One window = one child process: mmap/munmap of the threads of one process serialise on the
/// process-wide mmap lock (and unmapping needs TLB shoot-downs in a threaded process), and a
/// window must be invisible to every other exploration.
pub fn child(args: &[String]) {
    let tier = if args.get(1).map(|s| s.as_str()) == Some("thorough") { crate::common::Tier::Thorough } else { crate::common::Tier::Quick };
    let cfgs = configs(tier);
    let i: usize = args.first().and_then(|s| s.parse().ok()).unwrap_or(usize::MAX);
    if i >= cfgs.len() {
        machinery_failure("C30 child: bad configuration index");
    }
    let mut sub = Run::new("C30", tier);
    let subj = MmSubject::new(cfgs[i].clone());
    let st = seqx::bfs(&subj, &mut sub, cfg_json(&cfgs[i]), 64, 100_000);
    let (lo, bytes) = cfgs[i].guarded();
    unsafe { libc::munmap(lo as *mut libc::c_void, bytes) };
    let e = subj.extra.borrow();
    let extra = json!({
        "quarantine_address_range": e.by_kind[0], "ensure_mapped": e.by_kind[1], "mark_as_mapped": e.by_kind[2],
        "shape_aligned": e.by_shape[0], "shape_inner": e.by_shape[1], "shape_edge": e.by_shape[2],
        "ranges_spanning_slab_boundary": e.spans_boundary,
        "ranges_over_mixed_states": e.mixed_states,
        "ranges_spanning_and_mixed": e.spans_and_mixed,
        "quarantine_over_mapped_chunk": e.quarantine_over_mapped,
        "mark_as_mapped_over_quarantined_chunk": e.mark_over_quarantined,
        "ensure_mapped_over_quarantined_chunk": e.ensure_over_quarantined,
        "range_already_all_mapped": e.all_already_mapped,
        "distinct_state_op_pairs": e.seen.len(),
        "full_state_checks": e.checks,
        "byte_rw_probes": e.byte_probes,
        "examples": e.examples,
    });
    crate::common::emit_child_result(&json!({
        "stats": {"states": st.states, "transitions": st.transitions, "nontrivial": st.nontrivial, "max_depth": st.max_depth, "closed": st.closed, "violations": st.violations},
        "run": sub.to_child_json(),
        "extra": extra,
    }));
}

pub fn run(run: &mut Run) {
    let cfgs = configs(run.tier);
    let slab_log = hooks::log_slab_bytes();
    let args: Vec<Vec<String>> = (0..cfgs.len()).map(|i| vec!["--child".to_string(), "C30".to_string(), i.to_string(), run.tier.name().to_string()]).collect();
    let outs = crate::common::run_children(args, run.jobs, run.tier.pick(300, 1500));
    let mut results = vec![];
    for o in outs {
        if o.get("child_died").is_some() || o.get("stats").is_none() {
            machinery_failure(&format!("C30: exploration process failed: {}", o));
        }
        let s = &o["stats"];
        let g = |k: &str| s[k].as_u64().unwrap_or(0);
        let st = seqx::Stats { states: g("states"), transitions: g("transitions"), nontrivial: g("nontrivial"), max_depth: g("max_depth"), closed: s["closed"].as_bool().unwrap_or(false), violations: g("violations") };
        results.push(Some((st, o["run"].clone(), o["extra"].clone())));
    }
    let mut per_cfg = vec![];
    let mut totals: std::collections::BTreeMap<String, u64> = Default::default();
    let mut all_states_reached = true;
    for (c, r) in cfgs.iter().zip(results) {
        let (st, j, extra) = r.unwrap();
        if let Some(a) = j.get("violations").and_then(|c| c.as_array()) {
            for x in a {
                run.violation(x["signature"].as_str().unwrap_or("?").to_string(), x["message"].as_str().unwrap_or("").to_string(), x["case"].clone());
            }
        }
        seqx::add_stats(run, &st);
        let expected = 3u64.pow(c.chunks as u32);
        all_states_reached &= st.states == expected;
        for (k, v) in extra.as_object().unwrap() {
            if let Some(n) = v.as_u64() {
                *totals.entry(k.clone()).or_default() += n;
            }
        }
        if let Some(ex) = extra["examples"].as_array() {
            for x in ex.iter().take(1) {
                run.sample(json!({"config": cfg_json(c), "states": st.states, "transitions": st.transitions, "closed": st.closed, "case": x}));
            }
        }
        per_cfg.push(json!({"config": cfg_json(c), "states": st.states, "expected_states_3^chunks": expected, "transitions": st.transitions, "nontrivial": st.nontrivial, "max_depth": st.max_depth, "closed": st.closed}));
    }
    for (k, v) in &totals {
        run.set(k, *v);
    }
    run.set("per_config", Value::Array(per_cfg));
    run.set("configurations", cfgs.len() as u64);
    run.set("log_slab_bytes", slab_log as u64);
    run.set("all_3^chunks_state_vectors_reached", all_states_reached);
    run.set(
        "rule",
        "per window: BFS to closure over {quarantine_address_range, ensure_mapped, mark_as_mapped} x every (first chunk, 1..max_len chunks) x {chunk-aligned, both ends one page inside, last page of first chunk .. first page of last chunk} on a fresh private ChunkStateMmapper (history replayed from scratch for every transition); states deduplicated on the recorded chunk states + slab presence read from the real mapper; after every operation of every replay the full oracle runs (recorded state == model for window + 2 guard chunks, is_mapped_address at first/last byte, OS view). non-trivial transition = the chunk range spans the slab boundary of the two-level storage, or covers chunks in >= 2 different recorded states (bulk_transition_state must split it into groups)",
    );
    run.assume("quarantine_address_range is only offered on ranges without a Quarantined chunk (re-quarantining panics by design); ranges containing Mapped chunks are offered and those chunks must stay Mapped");
    run.assume("before mark_as_mapped the harness maps every not yet Mapped chunk of the chunk-rounded range read-write itself (MAP_FIXED, replacing a quarantine reservation), as a VM that 'has already mapped' the memory; mark_as_mapped over Quarantined chunks is accepted by the implementation and is monotone, so it is offered");
    run.assume("the window and its guard chunks are used by nothing else in the process (verified through /proc/self/maps at start); an OS mapping on an Unmapped chunk of it is therefore the mapper's");
    run.assume("Quarantined is checked as 'address range reserved by an OS mapping'; its protection (PROT_NONE) is documented as 'usually' and not required");
    run.assume("huge pages: HugePageSupport::No only; protection ReadWrite only; no mmap failures are injected");
}

pub fn replay(case: &Value, run: &mut Run) {
    let c = cfg_from_json(&case["cfg"]);
    let s = MmSubject::new(c);
    let hist: Vec<Op> = case["history"].as_array().map(|a| a.iter().map(op_from_json).collect()).unwrap_or_default();
    match seqx::replay(&s, &hist) {
        Ok(_) => {}
        Err((i, m)) => run.violation("replay", format!("step {}: {}", i, m), case.clone()),
    }
    let (lo, bytes) = s.cfg.guarded();
    unsafe { libc::munmap(lo as *mut libc::c_void, bytes) };
}
