//! C33 alignment and size arithmetic meet their specifications.
//!
//! Part A (`arith`): the real `raw_align_up/down`, `raw_is_aligned`, `Address::align_up/
//! align_down/is_aligned_to`, `rshift_align_up` for all 64 power-of-two alignments, and the fixed
//! page/chunk helpers of `util::conversions` (`bytes_to_pages_up`, `pages_to_bytes`,
//! `bytes_to_chunks_up`, `chunk_align_up/down`, `page_align_down`, `is_page_aligned`,
//! `is_address_aligned`, `address_to_chunk_index`, `chunk_index_to_address`), over a value grid
//! built to sit on the rounding boundaries, against division/multiplication in `u128`.
//!
//! Part B (`align_allocation`): the real `align_allocation_no_fill` / `align_allocation` /
//! `get_maximum_aligned_size` (generic over the binding's MIN/MAX_ALIGNMENT) for four bindings,
//! every MIN-aligned region in a window of 4*MAX_ALIGNMENT centred on 0, every power of two and
//! the top of the address space, every power-of-two alignment MIN..=MAX, every offset that is a
//! multiple of MIN in (-2*MAX, 2*MAX); oracle: least address >= region with
//! (address + offset) % alignment == 0 in `u128`.
//!
//! Inputs whose mathematically exact result does not fit in `usize` are skipped (counted), and so
//! are inputs on which the *documented formula's* intermediate `val + (align - 1)` overflows
//! although the final result would fit (`rshift_align_up`, `bytes_to_pages_up`,
//! `bytes_to_chunks_up`, `get_maximum_aligned_size` within `align` of `usize::MAX`): the doc
//! comments are silent about them,
//! they are counted as `excluded_intermediate_overflow` and what the code does on them is recorded
//! in the evidence (`excluded_behaviour`), not judged.

use crate::common::{catch, last_panic_location, machinery_failure, Run, Tier};
use crate::vm::VerifVM;
use mmtk::util::constants::{BYTES_IN_ADDRESS, BYTES_IN_PAGE};
use mmtk::util::conversions as cv;
use mmtk::util::copy::{CopySemantics, GCWorkerCopyContext};
use mmtk::util::heap::vm_layout::BYTES_IN_CHUNK;
use mmtk::util::opaque_pointer::*;
use mmtk::util::verif::c33::{align_allocation, align_allocation_no_fill, get_maximum_aligned_size};
use mmtk::util::{Address, ObjectReference};
use mmtk::vm::*;
use mmtk::Mutator;
use serde_json::{json, Value};
use std::ops::Range;

const MAX: u128 = usize::MAX as u128;
const PAGE: usize = 4096;
const CHUNK: usize = 1 << 22;

fn addr(a: usize) -> Address {
    unsafe { Address::from_usize(a) }
}

// ---------------------------------------------------------------------------------------------
// marker bindings: only the constants matter; no method is ever called

pub struct Stub;

impl<VM: VMBinding> ObjectModel<VM> for Stub {
    const GLOBAL_LOG_BIT_SPEC: VMGlobalLogBitSpec = VMGlobalLogBitSpec::side_first();
    const LOCAL_FORWARDING_POINTER_SPEC: VMLocalForwardingPointerSpec = VMLocalForwardingPointerSpec::in_header(0);
    const LOCAL_FORWARDING_BITS_SPEC: VMLocalForwardingBitsSpec = VMLocalForwardingBitsSpec::in_header(0);
    const LOCAL_MARK_BIT_SPEC: VMLocalMarkBitSpec = VMLocalMarkBitSpec::side_first();
    const LOCAL_LOS_MARK_NURSERY_SPEC: VMLocalLOSMarkNurserySpec = VMLocalLOSMarkNurserySpec::side_after(<Self as ObjectModel<VM>>::LOCAL_MARK_BIT_SPEC.as_spec());
    #[cfg(feature = "pinning")]
    const LOCAL_PINNING_BIT_SPEC: VMLocalPinningBitSpec = VMLocalPinningBitSpec::side_after(<Self as ObjectModel<VM>>::LOCAL_LOS_MARK_NURSERY_SPEC.as_spec());
    const OBJECT_REF_OFFSET_LOWER_BOUND: isize = 0;
    fn copy(_: ObjectReference, _: CopySemantics, _: &mut GCWorkerCopyContext<VM>) -> ObjectReference {
        unimplemented!()
    }
    fn copy_to(_: ObjectReference, _: ObjectReference, _: Address) -> Address {
        unimplemented!()
    }
    fn get_reference_when_copied_to(_: ObjectReference, _: Address) -> ObjectReference {
        unimplemented!()
    }
    fn get_current_size(_: ObjectReference) -> usize {
        unimplemented!()
    }
    fn get_size_when_copied(_: ObjectReference) -> usize {
        unimplemented!()
    }
    fn get_align_when_copied(_: ObjectReference) -> usize {
        unimplemented!()
    }
    fn get_align_offset_when_copied(_: ObjectReference) -> usize {
        unimplemented!()
    }
    fn get_type_descriptor(_: ObjectReference) -> &'static [i8] {
        unimplemented!()
    }
    fn ref_to_object_start(_: ObjectReference) -> Address {
        unimplemented!()
    }
    fn ref_to_header(_: ObjectReference) -> Address {
        unimplemented!()
    }
    fn dump_object(_: ObjectReference) {
        unimplemented!()
    }
}

impl<VM: VMBinding> ActivePlan<VM> for Stub {
    fn is_mutator(_: VMThread) -> bool {
        unimplemented!()
    }
    fn mutator(_: VMMutatorThread) -> &'static mut Mutator<VM> {
        unimplemented!()
    }
    fn mutators<'a>() -> Box<dyn Iterator<Item = &'a mut Mutator<VM>> + 'a> {
        unimplemented!()
    }
    fn number_of_mutators() -> usize {
        unimplemented!()
    }
}

impl<VM: VMBinding> Collection<VM> for Stub {
    fn stop_all_mutators<F>(_: VMWorkerThread, _: F)
    where
        F: FnMut(&'static mut Mutator<VM>),
    {
        unimplemented!()
    }
    fn resume_mutators(_: VMWorkerThread) {
        unimplemented!()
    }
    fn block_for_gc(_: VMMutatorThread) {
        unimplemented!()
    }
    fn spawn_gc_thread(_: VMThread, _: GCThreadContext<VM>) {
        unimplemented!()
    }
}

impl<VM: VMBinding> Scanning<VM> for Stub {
    fn scan_object<SV: SlotVisitor<VM::VMSlot>>(_: VMWorkerThread, _: ObjectReference, _: &mut SV) {
        unimplemented!()
    }
    fn notify_initial_thread_scan_complete(_: bool, _: VMWorkerThread) {
        unimplemented!()
    }
    fn scan_roots_in_mutator_thread(_: VMWorkerThread, _: &'static mut Mutator<VM>, _: impl RootsWorkFactory<VM::VMSlot>) {
        unimplemented!()
    }
    fn scan_vm_specific_roots(_: VMWorkerThread, _: impl RootsWorkFactory<VM::VMSlot>) {
        unimplemented!()
    }
    fn supports_return_barrier() -> bool {
        unimplemented!()
    }
    fn prepare_for_roots_re_scanning() {
        unimplemented!()
    }
}

impl<VM: VMBinding> ReferenceGlue<VM> for Stub {
    type FinalizableType = ObjectReference;
    fn clear_referent(_: ObjectReference) {
        unimplemented!()
    }
    fn get_referent(_: ObjectReference) -> Option<ObjectReference> {
        unimplemented!()
    }
    fn set_referent(_: ObjectReference, _: ObjectReference) {
        unimplemented!()
    }
    fn enqueue_references(_: &[ObjectReference], _: VMWorkerThread) {
        unimplemented!()
    }
}

macro_rules! marker_binding {
    ($name:ident, $min:expr, $max:expr, $fill:expr) => {
        #[derive(Default)]
        pub struct $name;
        impl VMBinding for $name {
            type VMObjectModel = Stub;
            type VMScanning = Stub;
            type VMCollection = Stub;
            type VMActivePlan = Stub;
            type VMReferenceGlue = Stub;
            type VMSlot = Address;
            type VMMemorySlice = Range<Address>;
            const MIN_ALIGNMENT: usize = $min;
            const MAX_ALIGNMENT: usize = $max;
            const ALIGNMENT_VALUE: u8 = $fill;
        }
    };
}

// the trait's defaults (32-bit style): MIN 4, MAX 8
marker_binding!(Vm4x8, 4, 8, 0xab);
// MIN == MAX: the "no alignment ever required" short cut
marker_binding!(Vm16x16, 16, 16, 0xab);
// wide ratio, and ALIGNMENT_VALUE == 0 so that `align_allocation` (fill) never writes memory
marker_binding!(Vm4x256NoFill, 4, 256, 0);

const VMS: [&str; 4] = ["VerifVM(8,64,fill)", "Vm4x8(4,8,fill)", "Vm16x16(16,16,fill)", "Vm4x256NoFill(4,256,nofill)"];

// ---------------------------------------------------------------------------------------------
// Part A: conversions / Address arithmetic

#[derive(Clone, Copy, PartialEq, Eq, Debug)]
enum F {
    RawAlignUp,
    RawAlignDown,
    RawIsAligned,
    AddrAlignUp,
    AddrAlignDown,
    AddrIsAlignedTo,
    RshiftAlignUp,
    // fixed alignment (log_align ignored)
    BytesToPagesUp,
    PagesToBytes,
    BytesToChunksUp,
    ChunkAlignUp,
    ChunkAlignDown,
    PageAlignDown,
    IsPageAligned,
    IsAddressAligned,
    AddressToChunkIndex,
    ChunkIndexToAddress,
}

const PARAM_FNS: [F; 7] = [F::RawAlignUp, F::RawAlignDown, F::RawIsAligned, F::AddrAlignUp, F::AddrAlignDown, F::AddrIsAlignedTo, F::RshiftAlignUp];
const FIXED_FNS: [F; 10] = [
    F::BytesToPagesUp,
    F::PagesToBytes,
    F::BytesToChunksUp,
    F::ChunkAlignUp,
    F::ChunkAlignDown,
    F::PageAlignDown,
    F::IsPageAligned,
    F::IsAddressAligned,
    F::AddressToChunkIndex,
    F::ChunkIndexToAddress,
];

fn fn_name(f: F) -> &'static str {
    match f {
        F::RawAlignUp => "raw_align_up",
        F::RawAlignDown => "raw_align_down",
        F::RawIsAligned => "raw_is_aligned",
        F::AddrAlignUp => "Address::align_up",
        F::AddrAlignDown => "Address::align_down",
        F::AddrIsAlignedTo => "Address::is_aligned_to",
        F::RshiftAlignUp => "rshift_align_up",
        F::BytesToPagesUp => "bytes_to_pages_up",
        F::PagesToBytes => "pages_to_bytes",
        F::BytesToChunksUp => "bytes_to_chunks_up",
        F::ChunkAlignUp => "chunk_align_up",
        F::ChunkAlignDown => "chunk_align_down",
        F::PageAlignDown => "page_align_down",
        F::IsPageAligned => "is_page_aligned",
        F::IsAddressAligned => "is_address_aligned",
        F::AddressToChunkIndex => "address_to_chunk_index",
        F::ChunkIndexToAddress => "chunk_index_to_address",
    }
}

fn fn_by_name(s: &str) -> Option<F> {
    PARAM_FNS.iter().chain(FIXED_FNS.iter()).copied().find(|f| fn_name(*f) == s)
}

/// What the specification says about (f, v, 2^k).
enum Want {
    /// the exact result, and whether rounding had to move the value
    Value(u128, bool),
    /// the exact result does not fit in usize
    ResultOverflow,
    /// the result fits but the documented formula's intermediate `v + (align-1)` does not
    IntermediateOverflow,
}

fn up(v: usize, a: u128) -> u128 {
    (v as u128).div_ceil(a) * a
}
fn down(v: usize, a: u128) -> u128 {
    (v as u128) / a * a
}
fn fits(x: u128, moved: bool) -> Want {
    if x > MAX {
        Want::ResultOverflow
    } else {
        Want::Value(x, moved)
    }
}

fn want(f: F, v: usize, k: usize) -> Want {
    let a: u128 = 1u128 << k;
    // "non-trivial": the value sits within 3 of a multiple of the alignment without being one
    // (where an off-by-one in the rounding shows); for the boolean tests it is simply "not aligned"
    let unaligned = |al: u128| {
        let r = (v as u128) % al;
        al >= 8 && (r >= 1 && r <= 3 || r >= al - 3)
    };
    let not_multiple = |al: u128| (v as u128) % al != 0;
    match f {
        F::RawAlignUp | F::AddrAlignUp => fits(up(v, a), unaligned(a)),
        F::RawAlignDown | F::AddrAlignDown => fits(down(v, a), unaligned(a)),
        F::RawIsAligned | F::AddrIsAlignedTo => Want::Value(!not_multiple(a) as u128, unaligned(a)),
        F::RshiftAlignUp => {
            if v as u128 + (a - 1) > MAX {
                Want::IntermediateOverflow
            } else {
                Want::Value((v as u128).div_ceil(a), unaligned(a))
            }
        }
        F::BytesToPagesUp => {
            if v as u128 + (PAGE as u128 - 1) > MAX {
                Want::IntermediateOverflow
            } else {
                Want::Value((v as u128).div_ceil(PAGE as u128), unaligned(PAGE as u128))
            }
        }
        F::BytesToChunksUp => {
            // the code computes `(bytes + BYTES_IN_CHUNK) - 1`: the first sum is the one that overflows
            if v as u128 + CHUNK as u128 > MAX {
                Want::IntermediateOverflow
            } else {
                Want::Value((v as u128).div_ceil(CHUNK as u128), unaligned(CHUNK as u128))
            }
        }
        F::PagesToBytes => fits(v as u128 * PAGE as u128, v as u128 * PAGE as u128 >= 1 << 63),
        F::ChunkIndexToAddress => fits(v as u128 * CHUNK as u128, v as u128 * CHUNK as u128 >= 1 << 63),
        F::ChunkAlignUp => fits(up(v, CHUNK as u128), unaligned(CHUNK as u128)),
        F::ChunkAlignDown => fits(down(v, CHUNK as u128), unaligned(CHUNK as u128)),
        F::PageAlignDown => fits(down(v, PAGE as u128), unaligned(PAGE as u128)),
        F::IsPageAligned => Want::Value(!not_multiple(PAGE as u128) as u128, unaligned(PAGE as u128)),
        F::IsAddressAligned => Want::Value(!not_multiple(8) as u128, unaligned(8)),
        F::AddressToChunkIndex => Want::Value(v as u128 / CHUNK as u128, unaligned(CHUNK as u128)),
    }
}

/// Call the real function.
fn real(f: F, v: usize, k: usize) -> u128 {
    let a = 1usize << k;
    (match f {
        F::RawAlignUp => cv::raw_align_up(v, a),
        F::RawAlignDown => cv::raw_align_down(v, a),
        F::RawIsAligned => cv::raw_is_aligned(v, a) as usize,
        F::AddrAlignUp => addr(v).align_up(a).as_usize(),
        F::AddrAlignDown => addr(v).align_down(a).as_usize(),
        F::AddrIsAlignedTo => addr(v).is_aligned_to(a) as usize,
        F::RshiftAlignUp => cv::rshift_align_up(v, k),
        F::BytesToPagesUp => cv::bytes_to_pages_up(v),
        F::PagesToBytes => cv::pages_to_bytes(v),
        F::BytesToChunksUp => cv::bytes_to_chunks_up(v),
        F::ChunkAlignUp => cv::chunk_align_up(addr(v)).as_usize(),
        F::ChunkAlignDown => cv::chunk_align_down(addr(v)).as_usize(),
        F::PageAlignDown => cv::page_align_down(addr(v)).as_usize(),
        F::IsPageAligned => cv::is_page_aligned(addr(v)) as usize,
        F::IsAddressAligned => cv::is_address_aligned(addr(v)) as usize,
        F::AddressToChunkIndex => cv::address_to_chunk_index(addr(v)),
        F::ChunkIndexToAddress => cv::chunk_index_to_address(v).as_usize(),
    }) as u128
}

fn val_class(v: usize) -> &'static str {
    if v <= (1 << 22) {
        "low"
    } else if v >= usize::MAX - (1 << 22) {
        "top"
    } else {
        "mid"
    }
}

#[derive(Default)]
struct Part {
    inputs: u64,
    evaluations: u64,
    nontrivial: u64,
    skipped_result_overflow: u64,
    excluded_intermediate_overflow: u64,
    /// first violating execution of every signature (in enumeration order), at most 64
    violations: Vec<(String, String, Value)>,
    violating_total: u64,
}

impl Part {
    /// Record a violation; the message and case are only built for the first of a signature.
    fn violate(&mut self, signature: String, detail: impl FnOnce() -> (String, Value)) {
        self.violating_total += 1;
        if self.violations.len() < 64 && !self.violations.iter().any(|v| v.0 == signature) {
            let (m, c) = detail();
            self.violations.push((signature, m, c));
        }
    }

    fn merge_into(self, run: &mut Run) {
        run.add("states", self.inputs);
        run.add("evaluations", self.evaluations);
        run.add("transitions", self.evaluations);
        run.add("traces_validated_against_impl", self.evaluations);
        run.add("distinct_nontrivial", self.nontrivial);
        run.add("skipped_result_overflow", self.skipped_result_overflow);
        run.add("excluded_intermediate_overflow", self.excluded_intermediate_overflow);
        let kept = self.violations.len() as u64;
        for (s, m, c) in self.violations {
            run.violation(s, m, c);
        }
        run.add("violating_executions_total", self.violating_total - kept);
    }
}

/// One (function, value, log alignment): Ok(Some(nontrivial)) checked, Ok(None) skipped.
fn check_arith(f: F, v: usize, k: usize, p: &mut Part) {
    let w = match want(f, v, k) {
        Want::ResultOverflow => {
            p.skipped_result_overflow += 1;
            return;
        }
        Want::IntermediateOverflow => {
            p.excluded_intermediate_overflow += 1;
            return;
        }
        Want::Value(w, moved) => {
            p.evaluations += 1;
            if moved {
                p.nontrivial += 1;
            }
            w
        }
    };
    let case = || json!({"part": "arith", "fn": fn_name(f), "val": v as u64, "log_align": k as u64});
    match catch(|| real(f, v, k)) {
        Ok(got) if got == w => {}
        Ok(got) => p.violate(format!("arith:{}:wrong_value:{}", fn_name(f), val_class(v)), || {
            (format!("{}({:#x}, align 2^{}) = {:#x}, exact {:#x}", fn_name(f), v, k, got, w), case())
        }),
        Err(m) => p.violate(format!("arith:{}:panic:{}", fn_name(f), val_class(v)), || {
            (format!("{}({:#x}, align 2^{}) panicked at {}: {}; exact result {:#x} fits", fn_name(f), v, k, last_panic_location(), m, w), case())
        }),
    }
}

/// The value grid common to all alignments.
fn common_values(tier: Tier) -> Vec<usize> {
    let w: usize = tier.pick(4096, 1 << 22);
    let j: usize = tier.pick(3, 64);
    let mut v: Vec<usize> = Vec::with_capacity(2 * w + 200 * j);
    v.extend(0..=w);
    for d in 0..=w {
        v.push(usize::MAX - d);
    }
    for k in 0..64 {
        let p = 1usize << k;
        for d in 0..=j {
            v.push(p.wrapping_sub(d)); // k small: wraps to the top window, harmless
            v.push(p.wrapping_add(d));
        }
    }
    v.sort();
    v.dedup();
    v
}

/// Values around the small and the last multiples of 2^k.
fn near_multiples(k: usize, tier: Tier) -> Vec<usize> {
    let j: u128 = tier.pick(3, 64);
    let a = 1u128 << k;
    let n = 1u128 << (64 - k); // number of multiples below 2^64
    let mut v = vec![];
    for m in [1u128, 2, 3, 5, 6, 7, n / 2 + 1, n.saturating_sub(3), n.saturating_sub(2), n - 1] {
        if m >= n {
            continue;
        }
        let x = m * a;
        for d in 0..=j {
            if x >= d {
                v.push((x - d) as usize);
            }
            if x + d <= MAX {
                v.push((x + d) as usize);
            }
        }
    }
    v.sort();
    v.dedup();
    v
}

fn run_arith(run: &mut Run) {
    if BYTES_IN_PAGE != PAGE || BYTES_IN_CHUNK != CHUNK || BYTES_IN_ADDRESS != 8 {
        machinery_failure("C33: page/chunk/word size differ from the oracle's constants");
    }
    let tier = run.tier;
    let common = common_values(tier);
    // parametric functions: one job per log alignment
    let next = std::sync::atomic::AtomicUsize::new(0);
    let parts: std::sync::Mutex<Vec<(usize, Part)>> = std::sync::Mutex::new(vec![]);
    std::thread::scope(|s| {
        for _ in 0..run.jobs.clamp(1, 16) {
            s.spawn(|| loop {
                let k = next.fetch_add(1, std::sync::atomic::Ordering::SeqCst);
                if k > 64 {
                    break;
                }
                let mut p = Part::default();
                if k < 64 {
                    let extra = near_multiples(k, tier);
                    for &v in common.iter().chain(extra.iter().filter(|x| common.binary_search(*x).is_err())) {
                        p.inputs += 1;
                        for f in PARAM_FNS {
                            check_arith(f, v, k, &mut p);
                        }
                    }
                } else {
                    // job 64: the fixed page/chunk/word helpers
                    let mut vals = common.clone();
                    for kk in [3, 12, 22, 42, 52] {
                        vals.extend(near_multiples(kk, tier));
                    }
                    vals.sort();
                    vals.dedup();
                    for &v in &vals {
                        p.inputs += 1;
                        for f in FIXED_FNS {
                            check_arith(f, v, 0, &mut p);
                        }
                    }
                }
                parts.lock().unwrap().push((k, p));
            });
        }
    });
    let mut parts = parts.into_inner().unwrap();
    parts.sort_by_key(|x| x.0);
    if parts.len() != 65 {
        machinery_failure("C33: an arithmetic job was lost");
    }
    for (_, p) in parts {
        p.merge_into(run);
    }
    run.set("arith_common_values", common.len() as u64);
    // what the code does on the excluded inputs (recorded, not judged)
    let probe = |f: F, v: usize, k: usize| -> String {
        let exact = match f {
            F::RshiftAlignUp => (v as u128).div_ceil(1u128 << k),
            F::BytesToPagesUp => (v as u128).div_ceil(PAGE as u128),
            _ => (v as u128).div_ceil(CHUNK as u128),
        };
        match catch(|| real(f, v, k)) {
            Ok(g) => format!("returns {:#x} (exact {:#x})", g, exact),
            Err(m) => format!("panics: {} (exact {:#x})", m, exact),
        }
    };
    run.set(
        "excluded_behaviour",
        json!({
            "rshift_align_up(usize::MAX, 1)": probe(F::RshiftAlignUp, usize::MAX, 1),
            "rshift_align_up(usize::MAX - 2, 2)": probe(F::RshiftAlignUp, usize::MAX - 2, 2),
            "bytes_to_pages_up(usize::MAX)": probe(F::BytesToPagesUp, usize::MAX, 0),
            "bytes_to_pages_up(usize::MAX - 4094)": probe(F::BytesToPagesUp, usize::MAX - 4094, 0),
            "bytes_to_chunks_up(usize::MAX)": probe(F::BytesToChunksUp, usize::MAX, 0),
            "bytes_to_chunks_up(usize::MAX - 0x3fffff)": probe(F::BytesToChunksUp, usize::MAX - 0x3f_ffff, 0),
            "get_maximum_aligned_size::<VerifVM>(usize::MAX - 15, 16)": match catch(|| get_maximum_aligned_size::<VerifVM>(usize::MAX - 15, 16)) {
                Ok(g) => format!("returns {:#x} (size + worst pad {:#x})", g, usize::MAX - 7),
                Err(m) => format!("panics: {} (size + worst pad {:#x})", m, usize::MAX - 7),
            },
        }),
    );
    run.sample(json!({"fn": "raw_align_up", "val": "0xffffffffffffefff", "log_align": 12, "result": format!("{:#x}", cv::raw_align_up(0xffff_ffff_ffff_efff, 4096))}));
    run.sample(json!({"fn": "rshift_align_up", "val": "0x8000000000000001", "bits": 62, "result": cv::rshift_align_up(0x8000_0000_0000_0001, 62)}));
    run.sample(json!({"fn": "bytes_to_pages_up", "val": "0xfffffffffffff000", "result": format!("{:#x}", cv::bytes_to_pages_up(0xffff_ffff_ffff_f000))}));
}

// ---------------------------------------------------------------------------------------------
// Part B: align_allocation / get_maximum_aligned_size

const SCRATCH: usize = 0x5c33_0000_0000;
const SCRATCH_LEN: usize = 1 << 16;
const SENTINEL: u8 = 0x11;

fn map_scratch() {
    let p = unsafe {
        libc::mmap(
            SCRATCH as *mut libc::c_void,
            SCRATCH_LEN,
            libc::PROT_READ | libc::PROT_WRITE,
            libc::MAP_PRIVATE | libc::MAP_ANONYMOUS | libc::MAP_FIXED_NOREPLACE,
            -1,
            0,
        )
    };
    if p as usize != SCRATCH {
        machinery_failure("C33: cannot map scratch memory at its fixed address");
    }
}

/// The specification: least address >= region with (address + offset) % align == 0; None if it
/// does not fit in usize.  `offset` is taken modulo 2^64 (a "negative" offset is its two's
/// complement; align divides 2^64, so the congruence is the same).
fn aa_exact(region: usize, align: usize, offset: usize) -> Option<usize> {
    let a = align as u128;
    let r = (region as u128 + offset as u128) % a;
    let res = region as u128 + (a - r) % a;
    if res > MAX {
        None
    } else {
        Some(res as usize)
    }
}

fn region_class(region: usize, exact: usize) -> &'static str {
    const HALF: usize = 1 << 63;
    if region < HALF && exact >= HALF {
        "result_crosses_2^63"
    } else if region >= HALF {
        "region>=2^63"
    } else {
        "region<2^63"
    }
}

#[derive(Default)]
struct FillInfo {
    checked: u64,
    mismatch: u64,
}

/// One call of the real function.  `fill` selects `align_allocation` (true) or `_no_fill`.
/// With fill and a non-zero ALIGNMENT_VALUE the region must lie in the scratch mapping.
fn check_aa<VM: VMBinding>(vm: &str, fill: bool, region: usize, align: usize, offset: usize, p: &mut Part, fi: &mut FillInfo) {
    let Some(exact) = aa_exact(region, align, offset) else {
        p.skipped_result_overflow += 1;
        return;
    };
    p.evaluations += 1;
    // non-trivial: the worst-case pad (the one get_maximum_aligned_size must cover)
    if exact != region && exact - region == align - VM::MIN_ALIGNMENT {
        p.nontrivial += 1;
    }
    let writes = fill && VM::ALIGNMENT_VALUE != 0;
    let lo = if writes { region - 16 } else { 0 };
    let len = 16 + align + 16;
    if writes {
        if !(lo >= SCRATCH && lo + len <= SCRATCH + SCRATCH_LEN) {
            machinery_failure("C33: filling call outside the scratch mapping");
        }
        unsafe { std::ptr::write_bytes(lo as *mut u8, SENTINEL, len) };
    }
    let fname = if fill { "align_allocation" } else { "align_allocation_no_fill" };
    let off_class = if (offset as isize) < 0 { "neg_offset" } else { "offset>=0" };
    let case = || json!({"part": "align_allocation", "vm": vm, "fill": fill, "region": region as u64, "align": align as u64, "offset": offset as u64});
    let r = catch(|| {
        if fill {
            align_allocation::<VM>(addr(region), align, offset).as_usize()
        } else {
            align_allocation_no_fill::<VM>(addr(region), align, offset).as_usize()
        }
    });
    match r {
        Ok(got) if got == exact => {
            if writes {
                fi.checked += 1;
                let bytes = unsafe { std::slice::from_raw_parts(lo as *const u8, len) };
                let ok = bytes.iter().enumerate().all(|(i, &b)| {
                    let a = lo + i;
                    b == if a >= region && a < exact { VM::ALIGNMENT_VALUE } else { SENTINEL }
                });
                if !ok {
                    fi.mismatch += 1;
                }
            }
        }
        Ok(got) => p.violate(format!("align_allocation:wrong_value:{}:{}:{}:{}", region_class(region, exact), fname, vm, off_class), || {
            (format!("{}::<{}>(region {:#x}, align {}, offset {:#x}) = {:#x}, least solution is {:#x}", fname, vm, region, align, offset, got, exact), case())
        }),
        Err(m) => p.violate(format!("align_allocation:panic:{}:{}:{}:{}", region_class(region, exact), fname, vm, off_class), || {
            (
                format!("{}::<{}>(region {:#x}, align {}, offset {:#x}) panicked at {}: {}; least solution {:#x} fits", fname, vm, region, align, offset, last_panic_location(), m, exact),
                case(),
            )
        }),
    }
}

fn check_gmas<VM: VMBinding>(vm: &str, size: usize, align: usize, worst_pad: usize, p: &mut Part, tight: &mut u64) {
    let need = size as u128 + worst_pad as u128;
    if need > MAX {
        p.skipped_result_overflow += 1;
        return;
    }
    // the code computes `(size + alignment) - known_alignment`: within `alignment` of usize::MAX the
    // first sum overflows although the result fits; undocumented, excluded like the other
    // intermediate overflows
    if worst_pad > 0 && size as u128 + align as u128 > MAX {
        p.excluded_intermediate_overflow += 1;
        return;
    }
    p.evaluations += 1;
    if worst_pad > 0 {
        p.nontrivial += 1;
    }
    let case = || json!({"part": "gmas", "vm": vm, "size": size as u64, "align": align as u64, "worst_pad": worst_pad as u64});
    match catch(|| get_maximum_aligned_size::<VM>(size, align)) {
        Ok(got) if got as u128 >= need => {
            if got as u128 == need {
                *tight += 1;
            }
        }
        Ok(got) => p.violate(format!("get_maximum_aligned_size:{}:too_small", vm), || {
            (format!("get_maximum_aligned_size::<{}>({:#x}, {}) = {:#x} < size + worst pad {} = {:#x}", vm, size, align, got, worst_pad, need), case())
        }),
        Err(m) => p.violate(format!("get_maximum_aligned_size:{}:panic", vm), || {
            (format!("get_maximum_aligned_size::<{}>({:#x}, {}) panicked at {}: {}; size + worst pad {:#x} fits", vm, size, align, last_panic_location(), m, need), case())
        }),
    }
}

fn aligns_of<VM: VMBinding>() -> Vec<usize> {
    let mut v = vec![];
    let mut a = VM::MIN_ALIGNMENT;
    while a <= VM::MAX_ALIGNMENT {
        v.push(a);
        a *= 2;
    }
    v
}

fn offsets_of<VM: VMBinding>() -> Vec<usize> {
    let n = 2 * VM::MAX_ALIGNMENT / VM::MIN_ALIGNMENT;
    let mut v: Vec<usize> = (0..n).map(|i| i * VM::MIN_ALIGNMENT).collect();
    v.extend((1..n).map(|i| (i * VM::MIN_ALIGNMENT).wrapping_neg()));
    v
}

fn run_aa<VM: VMBinding>(vm: &str, tier: Tier) -> (Part, FillInfo, u64, Value) {
    let (min, max) = (VM::MIN_ALIGNMENT, VM::MAX_ALIGNMENT);
    let w = 2 * max;
    let aligns = aligns_of::<VM>();
    let offsets = offsets_of::<VM>();
    let mut p = Part::default();
    let mut fi = FillInfo::default();
    let mut tight = 0u64;
    // window centres: 0, every power of two above the window, 2^64 (the top), and the scratch map
    let mut centres: Vec<u128> = vec![0];
    for k in 0..=64u32 {
        let c = 1u128 << k;
        if c > w as u128 {
            centres.push(c);
        }
    }
    let scratch_centre = (SCRATCH + SCRATCH_LEN / 2) as u128;
    centres.push(scratch_centre);
    let mut max_pad: Vec<usize> = vec![0; aligns.len()];
    let mut regions_seen = 0u64;
    for &c in &centres {
        let lo = c.saturating_sub(w as u128);
        let hi = (c + w as u128).min(MAX + 1);
        let mut r = lo;
        while r < hi {
            let region = r as usize;
            r += min as u128;
            regions_seen += 1;
            for (ai, &align) in aligns.iter().enumerate() {
                for &offset in &offsets {
                    p.inputs += 1;
                    if let Some(e) = aa_exact(region, align, offset) {
                        max_pad[ai] = max_pad[ai].max(e - region);
                    }
                    check_aa::<VM>(vm, false, region, align, offset, &mut p, &mut fi);
                    // the filling entry point: where it cannot write (ALIGNMENT_VALUE == 0) anywhere
                    // but at 0 (documented debug_assert), otherwise only inside the scratch mapping
                    if region != 0 && (VM::ALIGNMENT_VALUE == 0 || c == scratch_centre) {
                        check_aa::<VM>(vm, true, region, align, offset, &mut p, &mut fi);
                    }
                }
            }
        }
    }
    // the oracle's worst pad must be what the documentation of known_alignment implies
    for (ai, &align) in aligns.iter().enumerate() {
        if max_pad[ai] != align - min {
            machinery_failure("C33: worst pad of the grid is not align - MIN_ALIGNMENT (model error)");
        }
    }
    // get_maximum_aligned_size: sizes are multiples of MIN (documented debug_assert)
    let small: usize = tier.pick(4096, 1 << 16);
    let mut sizes: Vec<usize> = (0..=small / min).map(|i| i * min).collect();
    for k in 0..64 {
        let c = 1u128 << k;
        for d in 0..=(w / min) as u128 {
            for x in [c.saturating_sub(d * min as u128), c + d * min as u128] {
                if x <= MAX && x % min as u128 == 0 {
                    sizes.push(x as usize);
                }
            }
        }
    }
    let top = usize::MAX & !(min - 1);
    for d in 0..=(2 * w / min) {
        sizes.push(top - d * min);
    }
    sizes.sort();
    sizes.dedup();
    for (ai, &align) in aligns.iter().enumerate() {
        for &size in &sizes {
            p.inputs += 1;
            check_gmas::<VM>(vm, size, align, max_pad[ai], &mut p, &mut tight);
        }
    }
    let info = json!({"vm": vm, "min": min, "max": max, "regions": regions_seen, "alignments": aligns, "offsets": offsets.len(), "gmas_sizes": sizes.len(), "worst_pad": max_pad});
    (p, fi, tight, info)
}

fn dispatch_aa(vm: &str, tier: Tier) -> (Part, FillInfo, u64, Value) {
    match vm {
        "VerifVM(8,64,fill)" => run_aa::<VerifVM>(vm, tier),
        "Vm4x8(4,8,fill)" => run_aa::<Vm4x8>(vm, tier),
        "Vm16x16(16,16,fill)" => run_aa::<Vm16x16>(vm, tier),
        "Vm4x256NoFill(4,256,nofill)" => run_aa::<Vm4x256NoFill>(vm, tier),
        _ => machinery_failure("C33: unknown binding"),
    }
}

fn run_align_allocation(run: &mut Run) {
    map_scratch();
    let mut configs = vec![];
    let mut fill_checked = 0;
    let mut fill_mismatch = 0;
    let mut tight_total = 0;
    for vm in VMS {
        let (p, fi, tight, info) = dispatch_aa(vm, run.tier);
        p.merge_into(run);
        fill_checked += fi.checked;
        fill_mismatch += fi.mismatch;
        tight_total += tight;
        configs.push(info);
    }
    run.set("align_allocation_configs", Value::Array(configs));
    run.set("fill_gap_checked_info", fill_checked);
    run.set("fill_gap_mismatch_info", fill_mismatch);
    run.set("gmas_bound_attained_info", tight_total);
    let r = align_allocation_no_fill::<VerifVM>(addr(0x1_0000_0008), 64, 16).as_usize();
    run.sample(json!({"fn": "align_allocation_no_fill::<VerifVM>", "region": "0x100000008", "align": 64, "offset": 16, "result": format!("{:#x}", r), "max_aligned_size(24,64)": get_maximum_aligned_size::<VerifVM>(24, 64)}));
    let r = align_allocation_no_fill::<Vm4x256NoFill>(addr(usize::MAX - 255), 256, 4usize.wrapping_neg()).as_usize();
    run.sample(json!({"fn": "align_allocation_no_fill::<Vm4x256NoFill>", "region": "0xffffffffffffff00", "align": 256, "offset": -4, "result": format!("{:#x}", r)}));
}

pub fn run(run: &mut Run) {
    run_arith(run);
    run_align_allocation(run);
    run.set("max_depth", 1u64);
    run.set("exhaustive", true);
    let (w, j) = run.tier.pick(("4096", "3"), ("2^22", "64"));
    run.set(
        "rule",
        format!(
            "arith: values [0,{w}] + usize::MAX-[0,{w}] + 2^k±[0,{j}] (all k) + m*2^k±[0,{j}] for m in {{1,2,3,5,6,7,n/2+1,n-3,n-2,n-1}} (n = 2^(64-k)) x all 64 power-of-two alignments x 7 parametric functions; 10 fixed page/chunk/word helpers over the same values plus the near-multiples of 2^3,2^12,2^22,2^42,2^52; align_allocation: 4 bindings (MIN,MAX) = (8,64),(4,8),(16,16),(4,256) x every MIN-aligned region within 2*MAX of 0, of every power of two, of 2^64 and of a mapped scratch address x every power-of-two alignment MIN..=MAX x every offset multiple of MIN in (-2*MAX,2*MAX); get_maximum_aligned_size: sizes multiples of MIN in [0,{gs}], around every power of two and below usize::MAX x alignments, against size + worst pad of the grid; non-trivial = the value lies within 3 of a multiple of the alignment (>= 8) without being one, or a shifted result has its top bit set / the allocation needs the worst-case pad align-MIN > 0 / get_maximum_aligned_size with alignment > MIN",
            w = w,
            j = j,
            gs = run.tier.pick("4096", "65536"),
        ),
    );
    run.assume("align must be a power of two (documented); inputs whose exact result exceeds usize::MAX are skipped");
    run.assume("rshift_align_up / bytes_to_pages_up / bytes_to_chunks_up / get_maximum_aligned_size within `align` of usize::MAX overflow their intermediate sum although the result fits; undocumented, excluded (see excluded_behaviour)");
    run.assume("align_allocation: region is MIN_ALIGNMENT-aligned (the meaning of known_alignment), alignment a power of two in [MIN,MAX], offset a multiple of MIN (debug_asserts); negative offsets are two's complement");
    run.assume("exhaustive refers to the stated grid, not to all 2^64 values");
}

pub fn replay(case: &Value, run: &mut Run) {
    let mut p = Part::default();
    match case["part"].as_str() {
        Some("arith") => {
            let f = fn_by_name(case["fn"].as_str().unwrap_or("")).unwrap_or_else(|| machinery_failure("C33 replay: unknown fn"));
            check_arith(f, case["val"].as_u64().unwrap() as usize, case["log_align"].as_u64().unwrap() as usize, &mut p);
        }
        Some("align_allocation") => {
            let vm = case["vm"].as_str().unwrap();
            let fill = case["fill"].as_bool().unwrap();
            let (region, align, offset) = (case["region"].as_u64().unwrap() as usize, case["align"].as_u64().unwrap() as usize, case["offset"].as_u64().unwrap() as usize);
            if fill && region >= SCRATCH && region < SCRATCH + SCRATCH_LEN {
                map_scratch();
            }
            let mut fi = FillInfo::default();
            match vm {
                "VerifVM(8,64,fill)" => check_aa::<VerifVM>(vm, fill, region, align, offset, &mut p, &mut fi),
                "Vm4x8(4,8,fill)" => check_aa::<Vm4x8>(vm, fill, region, align, offset, &mut p, &mut fi),
                "Vm16x16(16,16,fill)" => check_aa::<Vm16x16>(vm, fill, region, align, offset, &mut p, &mut fi),
                "Vm4x256NoFill(4,256,nofill)" => check_aa::<Vm4x256NoFill>(vm, fill, region, align, offset, &mut p, &mut fi),
                _ => machinery_failure("C33 replay: unknown binding"),
            }
        }
        Some("gmas") => {
            let vm = case["vm"].as_str().unwrap();
            let (size, align, pad) = (case["size"].as_u64().unwrap() as usize, case["align"].as_u64().unwrap() as usize, case["worst_pad"].as_u64().unwrap() as usize);
            let mut t = 0;
            match vm {
                "VerifVM(8,64,fill)" => check_gmas::<VerifVM>(vm, size, align, pad, &mut p, &mut t),
                "Vm4x8(4,8,fill)" => check_gmas::<Vm4x8>(vm, size, align, pad, &mut p, &mut t),
                "Vm16x16(16,16,fill)" => check_gmas::<Vm16x16>(vm, size, align, pad, &mut p, &mut t),
                "Vm4x256NoFill(4,256,nofill)" => check_gmas::<Vm4x256NoFill>(vm, size, align, pad, &mut p, &mut t),
                _ => machinery_failure("C33 replay: unknown binding"),
            }
        }
        _ => machinery_failure("C33 replay: unknown case"),
    }
    for (s, m, c) in p.violations {
        run.violation(s, m, c);
    }
}
