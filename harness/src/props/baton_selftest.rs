//! Self-test of the `baton` engine (id `BATON`): small scenarios whose interleaving spaces are
//! known in closed form or whose bugs are planted in the harness itself.  Nothing of mmtk-core is
//! judged here; the check fails with exit 2 (machinery failure) if the engine miscounts, misses a
//! planted deadlock / lost update, or loses determinism.
//!
//! 1. `counter(n)`: n threads do `x = x + 1` as load / store with an explicit scheduling point before
//!    each: the number of executions must be (2n)!/2^n, with n = 2 exactly [2, 2, 2] executions with
//!    0 / 1 / 2 preemptions, and the lost update (final < n) must be observed.
//! 2. `prodcons`: a producer and two consumers over a harness-side mutex + condition variable that
//!    go through the runtime seam (`lock_acquire` / `cond_wait` / `cond_notify`); `notify_one` with
//!    two waiters must appear as a choice point; no execution may deadlock.
//! 3. `lostwakeup`: a planted lost wake-up (flag tested outside the mutex): the engine must
//!    report `End::Deadlock` on some but not all executions.
//! 4. `rwlock`: the `spin::RwLock` protocol of `BlockPool::pop` (upgradeable read, write, upgrade)
//!    against a reader that takes the two locks in the opposite order, through `rt::lock_scope`:
//!    the lock-order deadlock must be found, and never when the reader is absent.
//! 5. `spin`: a thread spinning (yield point) on a flag another thread sets: must terminate in
//!    every execution (fairness); with the setter removed it must be reported as livelock.
//! 6. `persistent`: two long-lived worker threads and a registered controller thread over a
//!    monitor (mutex + two condition variables); executions begin and end at quiescent points
//!    without respawning; all interleavings with <= 2 preemptions of "post 2 work items, wait for
//!    completion".

use crate::baton::{self, Arming, BCondvar, BMutex, Config, End, ExecInfo, Inst, Prefix, Scenario, Verdict};
use crate::common::{machinery_failure, Run};
use mmtk::util::verif::rt::{self, Class, LockMode};
use serde_json::{json, Value};
use std::collections::VecDeque;
use std::sync::atomic::{AtomicBool, AtomicUsize, Ordering::SeqCst};
use std::sync::{Arc, Mutex};

// ---------------------------------------------------------------------------------------------

struct Counter {
    n: usize,
    x: AtomicUsize,
}

impl Scenario for Counter {
    fn name(&self) -> String {
        format!("counter({})", self.n)
    }
    fn params(&self) -> Value {
        json!({"kind": "counter", "n": self.n})
    }
    fn threads(&self) -> usize {
        self.n
    }
    fn setup(&self, _a: &mut Arming) {
        self.x.store(0, SeqCst);
    }
    fn body(&self, _tid: usize) {
        baton::step(1);
        let v = self.x.load(SeqCst);
        baton::step(2);
        self.x.store(v + 1, SeqCst);
    }
    fn check(&self, info: &ExecInfo) -> Verdict {
        let v = self.x.load(SeqCst);
        Verdict { outcome: format!("{}:final={}", info.end.name(), v), violation: None, nontrivial: v < self.n }
    }
}

// ---------------------------------------------------------------------------------------------

struct ProdCons {
    q: BMutex<VecDeque<usize>>,
    cv: BCondvar,
    got: Mutex<Vec<Option<usize>>>,
}

impl Scenario for ProdCons {
    fn name(&self) -> String {
        "prodcons".into()
    }
    fn params(&self) -> Value {
        json!({"kind": "prodcons"})
    }
    fn threads(&self) -> usize {
        3
    }
    fn setup(&self, a: &mut Arming) {
        a.class(Class::Sync);
        self.q.lock().clear();
        *self.got.lock().unwrap() = vec![None; 3];
    }
    fn body(&self, tid: usize) {
        if tid == 0 {
            for item in [10usize, 20] {
                let mut g = self.q.lock();
                g.push_back(item);
                drop(g);
                self.cv.notify_one();
            }
        } else {
            let mut g = self.q.lock();
            while g.is_empty() {
                g = self.cv.wait(g);
            }
            let v = g.pop_front();
            drop(g);
            self.got.lock().unwrap()[tid] = v;
        }
    }
    fn check(&self, info: &ExecInfo) -> Verdict {
        let got = self.got.lock().unwrap().clone();
        let ok = info.end == End::Complete && {
            let mut v: Vec<usize> = got[1..].iter().flatten().copied().collect();
            v.sort();
            v == vec![10, 20]
        };
        let notify_choice = info.choices.iter().any(|c| c.notify);
        Verdict {
            outcome: format!("{}:{:?}{}", info.end.name(), &got[1..], if notify_choice { ":waiter-choice" } else { "" }),
            violation: if ok { None } else { Some(("selftest:prodcons".into(), format!("consumers got {:?}, end {:?}", got, info.end))) },
            nontrivial: notify_choice,
        }
    }
}

// ---------------------------------------------------------------------------------------------

struct LostWakeup {
    m: BMutex<()>,
    cv: BCondvar,
    ready: AtomicBool,
}

impl Scenario for LostWakeup {
    fn name(&self) -> String {
        "lostwakeup".into()
    }
    fn params(&self) -> Value {
        json!({"kind": "lostwakeup"})
    }
    fn threads(&self) -> usize {
        2
    }
    fn setup(&self, a: &mut Arming) {
        a.class(Class::Sync);
        self.ready.store(false, SeqCst);
    }
    fn body(&self, tid: usize) {
        if tid == 0 {
            // planted bug: the flag is tested before the mutex is taken and never re-tested
            baton::step(1);
            if !self.ready.load(SeqCst) {
                let g = self.m.lock();
                let _g = self.cv.wait(g);
            }
        } else {
            baton::step(2);
            self.ready.store(true, SeqCst);
            self.cv.notify_all();
        }
    }
    fn check(&self, info: &ExecInfo) -> Verdict {
        Verdict { outcome: info.end.name().to_string(), violation: None, nontrivial: matches!(info.end, End::Deadlock(_)) }
    }
}

// ---------------------------------------------------------------------------------------------

struct RwProto {
    with_reader: bool,
    /// what the threads really hold, maintained by the bodies: bit 0 writer, bit 1 upgradeable,
    /// bits 8.. reader count; checked against the `spin::RwLock` compatibility rules
    head: AtomicUsize,
    global: AtomicUsize,
}

const W: usize = 1;
const U: usize = 2;
const R: usize = 256;

fn enter(l: &AtomicUsize, mode: usize) {
    let cur = l.load(SeqCst);
    let ok = match mode {
        W => cur == 0,
        U => cur & (W | U) == 0,
        _ => cur & (W | U) == 0,
    };
    if !ok {
        machinery_failure(&format!("baton self-test: logical rw-lock granted in mode {} while the lock state is {:#x}", mode, cur));
    }
    l.fetch_add(mode, SeqCst);
}

impl Scenario for RwProto {
    fn name(&self) -> String {
        format!("rwlock(reader={})", self.with_reader)
    }
    fn params(&self) -> Value {
        json!({"kind": "rwlock", "with_reader": self.with_reader})
    }
    fn threads(&self) -> usize {
        if self.with_reader {
            3
        } else {
            2
        }
    }
    fn setup(&self, a: &mut Arming) {
        a.class(Class::Pool);
        self.head.store(0, SeqCst);
        self.global.store(0, SeqCst);
    }
    fn body(&self, tid: usize) {
        let h = rt::addr_of(&self.head);
        let g = rt::addr_of(&self.global);
        if tid < 2 {
            // the lock protocol of BlockPool::pop's slow path
            let _v1 = rt::lock_scope(h, LockMode::RwUpgradeable);
            enter(&self.head, U);
            baton::step(1);
            {
                let _v2 = rt::lock_scope(g, LockMode::RwWrite);
                enter(&self.global, W);
                baton::step(2);
                {
                    let _vu = rt::upgrade_scope(h);
                    // upgrade: no reader may be inside
                    if self.head.load(SeqCst) != U {
                        machinery_failure("baton self-test: upgrade granted while readers hold the lock");
                    }
                    self.head.store(W, SeqCst);
                    baton::step(3);
                    self.head.store(0, SeqCst);
                }
                self.global.fetch_sub(W, SeqCst);
            }
        } else {
            // BlockPool::iterate_blocks takes head.read() then global.read()
            let _v1 = rt::lock_scope(h, LockMode::RwRead);
            enter(&self.head, R);
            baton::step(4);
            {
                let _v2 = rt::lock_scope(g, LockMode::RwRead);
                enter(&self.global, R);
                baton::step(5);
                self.global.fetch_sub(R, SeqCst);
            }
            self.head.fetch_sub(R, SeqCst);
        }
    }
    fn check(&self, info: &ExecInfo) -> Verdict {
        Verdict { outcome: info.end.name().to_string(), violation: None, nontrivial: matches!(info.end, End::Deadlock(_)) }
    }
    fn min_outcomes(&self) -> usize {
        if self.with_reader {
            2
        } else {
            1
        }
    }
}

// ---------------------------------------------------------------------------------------------

struct Spin {
    with_setter: bool,
    flag: AtomicBool,
    iterations: AtomicUsize,
}

impl Scenario for Spin {
    fn name(&self) -> String {
        format!("spin(setter={})", self.with_setter)
    }
    fn params(&self) -> Value {
        json!({"kind": "spin", "with_setter": self.with_setter})
    }
    fn threads(&self) -> usize {
        2
    }
    fn setup(&self, _a: &mut Arming) {
        self.flag.store(false, SeqCst);
        self.iterations.store(0, SeqCst);
    }
    fn body(&self, tid: usize) {
        if tid == 0 {
            loop {
                baton::step(0);
                if self.flag.load(SeqCst) {
                    break;
                }
                self.iterations.fetch_add(1, SeqCst);
                rt::yield_point(rt::addr_of(&self.flag));
            }
        } else {
            baton::step(2);
            baton::step(3);
            if self.with_setter {
                self.flag.store(true, SeqCst);
            }
        }
    }
    fn check(&self, info: &ExecInfo) -> Verdict {
        Verdict { outcome: format!("{}:spins={}", info.end.name(), self.iterations.load(SeqCst).min(3)), violation: None, nontrivial: self.iterations.load(SeqCst) > 0 }
    }
    fn min_outcomes(&self) -> usize {
        1
    }
}

// ---------------------------------------------------------------------------------------------
// persistent mode

struct Monitor {
    work: usize,
    done: usize,
    shutdown: bool,
    /// per worker: items processed in the current execution
    processed: [usize; 2],
}

struct Shared {
    m: BMutex<Monitor>,
    work_cv: BCondvar,
    done_cv: BCondvar,
}

fn worker_loop(sh: &Shared, w: usize) {
    loop {
        let mut g = sh.m.lock();
        while g.work == 0 && !g.shutdown {
            g = sh.work_cv.wait(g);
        }
        if g.shutdown {
            return;
        }
        g.work -= 1;
        drop(g);
        baton::step(100 + w as u32); // "process the item"
        let mut g = sh.m.lock();
        g.done += 1;
        g.processed[w] += 1;
        drop(g);
        sh.done_cv.notify_all();
    }
}

fn persistent(run: &mut Run) -> baton::Stats {
    let inst = Inst::new();
    inst.adopt_current(0);
    let sh = Arc::new(Shared { m: BMutex::new(Monitor { work: 0, done: 0, shutdown: false, processed: [0; 2] }), work_cv: BCondvar::new(), done_cv: BCondvar::new() });
    // start-up under the default strategy
    let mut arming = Arming::default();
    arming.class(Class::Sync);
    inst.begin_execution(Prefix::default(), arming.clone(), 100_000, 64);
    let mut handles = vec![];
    for w in 0..2usize {
        let sh2 = sh.clone();
        handles.push(inst.spawn(1 + w, &format!("selftest-worker-{}", w), move || worker_loop(&sh2, w)));
    }
    inst.quiesce();
    let _ = inst.end_execution();
    let cfg = Config { bound: Some(2), ..Config::default() };
    let params = json!({"kind": "persistent", "workers": 2, "items": 2});
    let mut run_one = |prefix: Prefix| -> (ExecInfo, Verdict) {
        // every execution must start from the same quiescent state: both workers waiting for work
        let waiting = inst.waiting_threads();
        if waiting.len() != 2 || !waiting.iter().all(|(_, op)| matches!(op, baton::Op::CondWake { .. })) {
            machinery_failure(&format!("baton self-test: persistent scenario not quiescent at the start of an execution: {:?}", waiting));
        }
        {
            let mut g = sh.m.lock();
            g.done = 0;
            g.processed = [0; 2];
        }
        inst.begin_execution(prefix, arming.clone(), 100_000, 64);
        {
            let mut g = sh.m.lock();
            g.work = 2;
            drop(g);
            sh.work_cv.notify_one();
            sh.work_cv.notify_one();
            let mut g = sh.m.lock();
            while g.done < 2 {
                g = sh.done_cv.wait(g);
            }
        }
        inst.quiesce();
        let info = inst.end_execution();
        let g = sh.m.lock();
        let ok = g.done == 2 && g.work == 0 && g.processed[0] + g.processed[1] == 2;
        let v = Verdict {
            outcome: format!("processed={:?}", g.processed),
            violation: if ok { None } else { Some(("selftest:persistent".into(), format!("done {} work {} processed {:?}", g.done, g.work, g.processed))) },
            nontrivial: info.preemptions > 0,
        };
        drop(g);
        (info, v)
    };
    let st = baton::drive("persistent", &params, &cfg, 2, run, &mut run_one);
    // shut the workers down (under the default strategy) and leave
    inst.begin_execution(Prefix::default(), arming.clone(), 100_000, 64);
    {
        let mut g = sh.m.lock();
        g.shutdown = true;
        drop(g);
        sh.work_cv.notify_all();
    }
    inst.quiesce();
    let _ = inst.end_execution();
    inst.exit_current();
    for h in handles {
        let _ = h.join();
    }
    st
}

// ---------------------------------------------------------------------------------------------

fn lap(t: &mut std::time::Instant, what: &str, st: &baton::Stats) {
    if std::env::var("BATON_TIMING").is_ok() {
        eprintln!("[selftest] {:<28} {:>8} executions {:>9} steps {:>8.1} ms  ({:.1} us/execution)", what, st.executions, st.transitions, t.elapsed().as_secs_f64() * 1e3, t.elapsed().as_secs_f64() * 1e6 / st.executions.max(1) as f64);
    }
    *t = std::time::Instant::now();
}

fn expect(cond: bool, what: &str) {
    if !cond {
        machinery_failure(&format!("baton self-test failed: {}", what));
    }
}

fn factorial(n: u64) -> u64 {
    (1..=n).product()
}

pub fn run(run: &mut Run) {
    let unbounded = Config { bound: None, ..Config::default() };
    if std::env::var("BATON_BENCH").is_ok() {
        // throughput probe: the same small exploration many times
        let t0 = std::time::Instant::now();
        let mut ex = 0;
        for _ in 0..20 {
            let st = baton::explore(&Counter { n: 3, x: AtomicUsize::new(0) }, &unbounded, run);
            ex += st.executions;
        }
        eprintln!("[bench] counter(3) x20: {} executions in {:.1} ms = {:.1} us/execution", ex, t0.elapsed().as_secs_f64() * 1e3, t0.elapsed().as_secs_f64() * 1e6 / ex as f64);
    }
    let mut t = std::time::Instant::now();
    // 1. counter
    for n in [2usize, 3] {
        let st = baton::explore(&Counter { n, x: AtomicUsize::new(0) }, &unbounded, run);
        lap(&mut t, &format!("{}", run.get("scenarios")), &st);
        let want = factorial(2 * n as u64) / 2u64.pow(n as u32);
        expect(st.executions == want, &format!("counter({}) explored {} executions, the interleaving space has {}", n, st.executions, want));
        expect(st.unbounded_complete && st.complete, "counter: exploration not reported complete");
        expect(st.outcomes.contains_key("complete:final=1") && st.outcomes.contains_key(&format!("complete:final={}", n)), &format!("counter: outcomes {:?}", st.outcomes));
        if n == 2 {
            expect(st.by_preemptions == vec![2, 2, 2], &format!("counter(2): executions by preemptions {:?}, expected [2, 2, 2]", st.by_preemptions));
            expect(st.outcomes["complete:final=1"] == 4 && st.outcomes["complete:final=2"] == 2, &format!("counter(2): outcomes {:?}", st.outcomes));
        }
        baton::add_stats(run, &st);
        // bounded exploration must be a prefix of the unbounded one
        let st1 = baton::explore(&Counter { n, x: AtomicUsize::new(0) }, &Config { bound: Some(1), ..Config::default() }, run);
        expect(st1.executions == st.by_preemptions[0] + st.by_preemptions[1], "counter: bound 1 does not explore exactly the executions with <= 1 preemption");
        expect(!st1.unbounded_complete && st1.completed_bound == Some(1), "counter: bound 1 completion flags");
    }
    // 2. producer / consumers
    let pc = ProdCons { q: BMutex::new(VecDeque::new()), cv: BCondvar::new(), got: Mutex::new(vec![]) };
    let st = baton::explore(&pc, &unbounded, run);
    lap(&mut t, &format!("{}", run.get("scenarios")), &st);
    expect(st.violations == 0, "prodcons: violation reported");
    expect(st.unbounded_complete, "prodcons: not complete");
    expect(st.nontrivial > 0, "prodcons: notify_one with two waiters never was a choice point");
    expect(st.outcomes.keys().any(|k| k.starts_with("complete:[Some(10), Some(20)]")) && st.outcomes.keys().any(|k| k.starts_with("complete:[Some(20), Some(10)]")), &format!("prodcons: outcomes {:?}", st.outcomes));
    baton::add_stats(run, &st);
    run.set("selftest_prodcons_executions", st.executions);
    // 3. planted lost wake-up
    let st = baton::explore(&LostWakeup { m: BMutex::new(()), cv: BCondvar::new(), ready: AtomicBool::new(false) }, &unbounded, run);
    lap(&mut t, &format!("{}", run.get("scenarios")), &st);
    expect(st.outcomes.contains_key("deadlock") && st.outcomes.contains_key("complete"), &format!("lostwakeup: outcomes {:?}", st.outcomes));
    baton::add_stats(run, &st);
    // 4. rw-lock protocol
    let st = baton::explore(&RwProto { with_reader: false, head: AtomicUsize::new(0), global: AtomicUsize::new(0) }, &unbounded, run);
    lap(&mut t, &format!("{}", run.get("scenarios")), &st);
    expect(st.outcomes.len() == 1 && st.outcomes.contains_key("complete"), &format!("rwlock without reader: outcomes {:?}", st.outcomes));
    baton::add_stats(run, &st);
    let st = baton::explore(&RwProto { with_reader: true, head: AtomicUsize::new(0), global: AtomicUsize::new(0) }, &unbounded, run);
    lap(&mut t, &format!("{}", run.get("scenarios")), &st);
    expect(st.outcomes.contains_key("deadlock") && st.outcomes.contains_key("complete"), &format!("rwlock with reader: outcomes {:?}", st.outcomes));
    run.set("selftest_rwlock_deadlocks", st.outcomes["deadlock"]);
    baton::add_stats(run, &st);
    // 5. spinning
    let st = baton::explore(&Spin { with_setter: true, flag: AtomicBool::new(false), iterations: AtomicUsize::new(0) }, &unbounded, run);
    lap(&mut t, &format!("{}", run.get("scenarios")), &st);
    expect(st.outcomes.keys().all(|k| k.starts_with("complete")), &format!("spin with setter: outcomes {:?}", st.outcomes));
    expect(st.nontrivial > 0, "spin: the spinner never spun");
    baton::add_stats(run, &st);
    let st = baton::explore(&Spin { with_setter: false, flag: AtomicBool::new(false), iterations: AtomicUsize::new(0) }, &Config { bound: Some(1), ..Config::default() }, run);
    lap(&mut t, &format!("{}", run.get("scenarios")), &st);
    expect(st.outcomes.keys().all(|k| k.starts_with("livelock")), &format!("spin without setter: outcomes {:?}", st.outcomes));
    // 6. persistent threads
    let st = persistent(run);
    lap(&mut t, &format!("{}", run.get("scenarios")), &st);
    expect(st.violations == 0 && st.completed_bound == Some(2), "persistent: not completed");
    expect(st.outcomes.len() >= 3, &format!("persistent: outcomes {:?}", st.outcomes));
    baton::add_stats(run, &st);
    run.set("selftest_persistent_executions", st.executions);
    run.set("rule", "engine self-test: closed-form execution counts of n racing read-modify-write threads ((2n)!/2^n, [2,2,2] by preemptions for n=2), planted lost update / lost wake-up / lock-order deadlock / livelock all found, producer-consumer over the runtime seam's mutex+condvar explored completely with notify_one waiter choice, persistent-thread executions between quiescent points; non-trivial = executions showing the planted effect");
    run.assume("nothing of mmtk-core is judged by this self-test");
}

pub fn replay(_case: &Value, _run: &mut Run) {
    machinery_failure("the baton self-test has no replay");
}
