//! C05 — generational remembered sets are sound (GenCopy, GenImmix, StickyImmix).
//!
//! In a generational / sticky plan a young object that is reachable only through a reference
//! stored into an older object — by the object-remembering write barrier
//! (`object_reference_write_pre/post`) or by the memory-region-copy barrier
//! (`memory_region_copy_pre/post`) — survives the next nursery collection, and the stored
//! reference is updated if the young object moves.
//!
//! Engine `shadowvm`: mutator programs run on a real `MMTK<VerifVM>` instance (one child process
//! per plan x variant x shard).  A program is a *start state* (fresh, or <= 3 operations followed
//! by a promoting collection, so that old objects exist) followed by a *suffix* of barrier
//! operations and collections that ends in a nursery collection.  All start states and all
//! suffixes up to the tier's depth are enumerated (see `RULE`).
//!
//! Oracle, after every collection:
//!  1. the C01 graph comparison of `World::verify_heap` (real heap walked from the real roots ==
//!     shadow heap: the young object is there, the old object's field holds its new address);
//!  2. nothing reachable is still *young* according to the plan itself
//!     (`GenerationalPlan::is_object_in_nursery`): a copying nursery is evacuated and released by
//!     every collection, a sticky nursery object that survives is marked — a reachable object
//!     that is still "in the nursery" was not traced and its memory is free for reuse;
//!  3. (vo_bit builds) every reachable object is still a valid MMTk object;
//!  4. after the suffix a *probe* allocates young objects over the memory the collection
//!     reclaimed (every allocation is checked against the live intervals of the shadow heap) and
//!     the heap is compared again: a young object the collection lost is overwritten / handed
//!     out a second time.
//!
//! Attribution: a failure is C05's (`remset:<barrier>:<kind>:<plan>/<variant>`) only when the
//! failing slot is an old->young slot that existed at a *nursery* collection of the running
//! program, or the failing object was reachable only through such slots at that collection.
//! Every other failure class belongs to another property (C01/C02/C04/C11) and is foreign here.

use crate::common::{catch, emit_child_result, machinery_failure, run_children, Run, Tier};
use crate::shadow_check::{canonical_shadow, panic_slug};
use crate::shadowvm::{install_crash_handlers, set_current_case, worker_panic_to_crash, BootCfg, Fail, Sem, World};
use crate::vm::{field_addr, mutator_tls, VerifVM, MAX_ROOTS};
use mmtk::util::ObjectReference;
use mmtk::vm::ActivePlan;
use serde_json::{json, Value};
use std::collections::{BTreeSet, HashMap, HashSet};

const PLANS: [&str; 3] = ["GenCopy", "GenImmix", "StickyImmix"];
/// root slots programs use
const SLOTS: usize = 3;
const NULL: u8 = 0xff;
/// scratch root slots of the macro operations
const TMP: usize = MAX_ROOTS - 1;
const TMP2: usize = MAX_ROOTS - 2;
/// (source field offset, destination field offset, number of fields) of a region copy between
/// two 4-field arrays: the whole array; the head of the source over the *tail* of the
/// destination (ends at the last field of the object); one slot from the last source field
const RANGES: [(usize, usize, usize); 3] = [(0, 0, 4), (0, 2, 2), (3, 1, 1)];
const LEAF_BYTES: usize = 40;
const ARR_BYTES: usize = 264;
const LOS_BYTES: usize = 80 << 10;

const RULE: &str = "per plan in {GenCopy, GenImmix, StickyImmix} and variant (def: arrays are 264 B Default objects; los: arrays are 80 KiB LOS objects — old LOS holders and young LOS-nursery arrays; m2: as def, but a second mutator is bound after the start state, allocates and executes every barrier of the suffix and is destroyed (destroy_mutator: its buffers must be flushed) right before the closing nursery GC): START STATES = fresh + every distinct abstract heap reachable by <= k ops (k = 3 for def, 2 for los and m2; numbers in start_states_*) over {new leaf|array, store, store-new, drop} followed by a promoting GC (nursery and full-heap each); SUFFIXES = every op sequence of length <= depth (thorough: 4; quick: 3 for the start states built by <= 2 ops (los: <= 1), 2 for the others) that ends in GC(nursery), over {new leaf (40 B, 2 refs) | array (4 refs, field 3 -> a fresh unrooted leaf) into the lowest empty of 3 roots; store root.f{0,1} <- rooted young object | null through object_reference_write_pre/post; store-new root.f{0,1} <- fresh unrooted young leaf|array (reachable only through that field); copy fields of array root -> other array root over ranges {[0..4)->[0..4), [0..2)->[2..4), [3]->[1]} with memory_region_copy_pre + memmove + memory_region_copy_post; copy-new: the same from a fresh unrooted young array holding 4 fresh unrooted leaves; drop root; GC(nursery) = forced user request, not exhaustive; GC(full) = forced exhaustive request}, kept when some barrier operation of the suffix created an old->young edge; each program = start state + suffix + probe (young allocations over the reclaimed memory + heap comparison) + drop all + full GC, run back to back on one real MMTK instance with 1 GC worker; variant bulk: N in {1,2,4096,4097 (quick) | 1,2,3,4095,4096,4097,8192,8193 (thorough)} old holders in a list (around the 4096-entry modbuf / region-modbuf capacity, where the barrier flushes a packet outside any collection) each receiving a fresh unrooted young object by write or by region copy (every holder | every 2nd: thorough), 1 (quick) or 1|2 (thorough) epochs each closed by GC(nursery), promoted by nursery | full GC. Oracle after every collection: graph comparison with the shadow heap, no reachable object still young per GenerationalPlan::is_object_in_nursery, every reachable object a valid MMTk object (vo_bit). states = distinct canonical shadow heaps at the end of the suffixes; transitions = mutator operations executed; distinct_nontrivial = programs in which, at a collection that really was a nursery collection (last_collection_full_heap() == false), an old->young edge existed and a young object was reachable ONLY through such edges, survived, and (GenCopy/GenImmix: copying nursery) moved";

// ---------------------------------------------------------------------------------------------
// operations

#[derive(Clone, Copy, PartialEq, Eq, Hash, Debug)]
pub enum Kind {
    Leaf,
    Arr,
}

impl Kind {
    fn nrefs(self) -> usize {
        match self {
            Kind::Leaf => 2,
            Kind::Arr => 4,
        }
    }
    fn name(self) -> &'static str {
        match self {
            Kind::Leaf => "leaf",
            Kind::Arr => "array",
        }
    }
    fn from_name(s: &str) -> Kind {
        if s == "array" {
            Kind::Arr
        } else {
            Kind::Leaf
        }
    }
}

#[derive(Clone, Copy, PartialEq, Eq, Hash, Debug)]
pub enum Op {
    /// allocate a young object into the lowest empty root (arrays: field 3 <- fresh unrooted leaf)
    New { kind: Kind },
    /// roots[src].field <- roots[dst] | null, through the write barrier
    Store { src: u8, field: u8, dst: u8 },
    /// roots[src].field <- fresh unrooted young object, through the write barrier
    StoreNew { src: u8, field: u8, kind: Kind },
    /// region copy between two rooted arrays, through the memory-region-copy barrier
    Copy { src: u8, dst: u8, range: u8 },
    /// region copy from a fresh unrooted young array holding four fresh unrooted leaves
    CopyNew { dst: u8, range: u8 },
    Drop { slot: u8 },
    Gc { full: bool },
}

impl Op {
    fn json(&self) -> Value {
        match *self {
            Op::New { kind } => json!({"op": "new", "kind": kind.name()}),
            Op::Store { src, field, dst } => json!({"op": "store", "src": src, "field": field, "dst": if dst == NULL { Value::Null } else { json!(dst) }}),
            Op::StoreNew { src, field, kind } => json!({"op": "store_new", "src": src, "field": field, "kind": kind.name()}),
            Op::Copy { src, dst, range } => json!({"op": "copy", "src": src, "dst": dst, "range": range}),
            Op::CopyNew { dst, range } => json!({"op": "copy_new", "dst": dst, "range": range}),
            Op::Drop { slot } => json!({"op": "drop", "slot": slot}),
            Op::Gc { full } => json!({"op": "gc", "full": full}),
        }
    }
    fn from_json(v: &Value) -> Op {
        let u = |k: &str| v[k].as_u64().unwrap_or(0) as u8;
        let kind = || Kind::from_name(v["kind"].as_str().unwrap_or("leaf"));
        match v["op"].as_str().unwrap_or("") {
            "new" => Op::New { kind: kind() },
            "store" => Op::Store { src: u("src"), field: u("field"), dst: if v["dst"].is_null() { NULL } else { u("dst") } },
            "store_new" => Op::StoreNew { src: u("src"), field: u("field"), kind: kind() },
            "copy" => Op::Copy { src: u("src"), dst: u("dst"), range: u("range") },
            "copy_new" => Op::CopyNew { dst: u("dst"), range: u("range") },
            "drop" => Op::Drop { slot: u("slot") },
            "gc" => Op::Gc { full: v["full"].as_bool().unwrap_or(false) },
            other => machinery_failure(&format!("C05: unknown op {}", other)),
        }
    }
}

fn ops_json(p: &[Op]) -> Value {
    Value::Array(p.iter().map(|o| o.json()).collect())
}

fn ops_from_json(v: &Value) -> Vec<Op> {
    v.as_array().map(|a| a.iter().map(Op::from_json).collect()).unwrap_or_default()
}

// ---------------------------------------------------------------------------------------------
// abstract heap: decides which operations are enabled, which start states are distinct and
// which suffixes create an old->young edge.  Never used for a verdict.

#[derive(Clone, PartialEq, Eq, Hash, Debug)]
struct AObj {
    kind: Kind,
    old: bool,
    f: [i16; 4],
}

#[derive(Clone, Debug)]
struct Abs {
    objs: Vec<AObj>,
    roots: [i16; SLOTS],
    /// a barrier operation stored a reference to a young object into an old object
    created_oy: bool,
}

impl Abs {
    fn new() -> Abs {
        Abs { objs: vec![], roots: [-1; SLOTS], created_oy: false }
    }
    fn alloc(&mut self, kind: Kind, with_child: bool) -> i16 {
        let mut o = AObj { kind, old: false, f: [-1; 4] };
        if kind == Kind::Arr && with_child {
            o.f[3] = self.alloc(Kind::Leaf, false);
        }
        self.objs.push(o);
        (self.objs.len() - 1) as i16
    }
    fn set_field(&mut self, h: i16, i: usize, t: i16) {
        if t >= 0 && self.objs[h as usize].old && !self.objs[t as usize].old {
            self.created_oy = true;
        }
        self.objs[h as usize].f[i] = t;
    }
    fn copy_fields(&mut self, s: i16, d: i16, range: u8) {
        let (so, d_o, len) = RANGES[range as usize];
        for k in 0..len {
            let v = self.objs[s as usize].f[so + k];
            self.set_field(d, d_o + k, v);
        }
    }
    fn apply(&mut self, op: &Op) {
        match *op {
            Op::New { kind } => {
                let id = self.alloc(kind, true);
                let s = self.roots.iter().position(|r| *r < 0).unwrap();
                self.roots[s] = id;
            }
            Op::Store { src, field, dst } => {
                let t = if dst == NULL { -1 } else { self.roots[dst as usize] };
                self.set_field(self.roots[src as usize], field as usize, t);
            }
            Op::StoreNew { src, field, kind } => {
                let t = self.alloc(kind, true);
                self.set_field(self.roots[src as usize], field as usize, t);
            }
            Op::Copy { src, dst, range } => self.copy_fields(self.roots[src as usize], self.roots[dst as usize], range),
            Op::CopyNew { dst, range } => {
                let ya = self.alloc(Kind::Arr, false);
                for k in 0..4 {
                    let l = self.alloc(Kind::Leaf, false);
                    self.objs[ya as usize].f[k] = l;
                }
                self.copy_fields(ya, self.roots[dst as usize], range);
            }
            Op::Drop { slot } => self.roots[slot as usize] = -1,
            Op::Gc { .. } => self.renumber(true),
        }
    }
    /// Drop unreachable objects and renumber the rest in DFS order from the roots; `promote`:
    /// a collection happened — every survivor becomes old.
    fn renumber(&mut self, promote: bool) {
        let mut map: Vec<i16> = vec![-1; self.objs.len()];
        let mut order: Vec<usize> = vec![];
        let mut stack: Vec<i16> = self.roots.iter().rev().cloned().filter(|r| *r >= 0).collect();
        while let Some(x) = stack.pop() {
            if map[x as usize] >= 0 {
                continue;
            }
            map[x as usize] = order.len() as i16;
            order.push(x as usize);
            for t in self.objs[x as usize].f.iter().rev() {
                if *t >= 0 {
                    stack.push(*t);
                }
            }
        }
        let mut objs = vec![];
        for &x in &order {
            let mut o = self.objs[x].clone();
            o.old |= promote;
            for t in o.f.iter_mut() {
                if *t >= 0 {
                    *t = map[*t as usize];
                }
            }
            objs.push(o);
        }
        for r in self.roots.iter_mut() {
            if *r >= 0 {
                *r = map[*r as usize];
            }
        }
        self.objs = objs;
    }
    fn canon(&self) -> (Vec<AObj>, [i16; SLOTS]) {
        let mut c = self.clone();
        c.renumber(false);
        (c.objs, c.roots)
    }
    fn occupied(&self, s: usize) -> bool {
        self.roots[s] >= 0
    }
    fn root_obj(&self, s: usize) -> &AObj {
        &self.objs[self.roots[s] as usize]
    }

    /// Operations offered in this state.  `prefix` = building a start state (no copies, no GCs).
    fn enabled(&self, prefix: bool) -> Vec<Op> {
        let mut v = vec![];
        if (0..SLOTS).any(|s| !self.occupied(s)) {
            v.push(Op::New { kind: Kind::Leaf });
            v.push(Op::New { kind: Kind::Arr });
        }
        for src in 0..SLOTS {
            if !self.occupied(src) {
                continue;
            }
            for field in 0..2u8 {
                v.push(Op::Store { src: src as u8, field, dst: NULL });
                for dst in 0..SLOTS {
                    // the stored reference is to a *young* rooted object (a reference to an old
                    // object is, for the remembered set, the same as null) other than src itself
                    if dst != src && self.occupied(dst) && !self.root_obj(dst).old && self.roots[dst] != self.roots[src] {
                        v.push(Op::Store { src: src as u8, field, dst: dst as u8 });
                    }
                }
                v.push(Op::StoreNew { src: src as u8, field, kind: Kind::Leaf });
                v.push(Op::StoreNew { src: src as u8, field, kind: Kind::Arr });
            }
        }
        if !prefix {
            for dst in 0..SLOTS {
                if !self.occupied(dst) || self.root_obj(dst).kind != Kind::Arr {
                    continue;
                }
                for src in 0..SLOTS {
                    if src != dst && self.occupied(src) && self.root_obj(src).kind == Kind::Arr && self.roots[src] != self.roots[dst] {
                        for range in 0..RANGES.len() as u8 {
                            v.push(Op::Copy { src: src as u8, dst: dst as u8, range });
                        }
                    }
                }
                for range in 0..RANGES.len() as u8 {
                    v.push(Op::CopyNew { dst: dst as u8, range });
                }
            }
        }
        for slot in 0..SLOTS {
            if self.occupied(slot) {
                v.push(Op::Drop { slot: slot as u8 });
            }
        }
        if !prefix {
            v.push(Op::Gc { full: false });
            v.push(Op::Gc { full: true });
        }
        v
    }
}

/// A start state: the operations that build it (ending in the promoting GC; empty = fresh).
#[derive(Clone, Debug)]
struct Start {
    ops: Vec<Op>,
    abs: Abs,
}

/// Fresh + every distinct abstract state reachable by 1..=max_ops prefix operations followed by
/// a promoting collection of either kind (the first, i.e. shortest, builder of each is kept).
fn start_states(max_ops: usize) -> Vec<Start> {
    let mut out = vec![Start { ops: vec![], abs: Abs::new() }];
    let mut seen: HashSet<((Vec<AObj>, [i16; SLOTS]), bool)> = HashSet::new();
    let mut level: Vec<(Vec<Op>, Abs)> = vec![(vec![], Abs::new())];
    for _ in 0..max_ops {
        let mut next = vec![];
        for (p, a) in &level {
            for op in a.enabled(true) {
                let mut a2 = a.clone();
                a2.apply(&op);
                let mut p2 = p.clone();
                p2.push(op);
                next.push((p2, a2));
            }
        }
        for (p, a) in &next {
            if a.roots.iter().all(|r| *r < 0) {
                continue;
            }
            for full in [false, true] {
                let mut g = a.clone();
                g.apply(&Op::Gc { full });
                g.created_oy = false;
                if seen.insert((g.canon(), full)) {
                    let mut ops = p.clone();
                    ops.push(Op::Gc { full });
                    out.push(Start { ops, abs: g });
                }
            }
        }
        level = next;
    }
    out
}

/// Call `f(ordinal, start index, suffix)` for every program: suffix lengths 1..=depth
/// (shortest first), start states in order, free operations in alphabet order; every suffix ends
/// in GC(nursery); only suffixes in which a barrier operation created an old->young edge.
/// Start states whose builder has more than `deep_ops` operations (the promoting GC not counted)
/// get suffixes one shorter (`deep_ops >= ` the builder bound: the same depth for all).
fn for_each_program(starts: &[Start], depth: usize, deep_ops: usize, f: &mut dyn FnMut(u64, usize, &[Op]) -> bool) {
    fn dfs(a: &Abs, left: usize, cur: &mut Vec<Op>, ord: &mut u64, si: usize, f: &mut dyn FnMut(u64, usize, &[Op]) -> bool, stop: &mut bool) {
        if *stop {
            return;
        }
        if left == 0 {
            if a.created_oy {
                cur.push(Op::Gc { full: false });
                if !f(*ord, si, cur) {
                    *stop = true;
                }
                cur.pop();
                *ord += 1;
            }
            return;
        }
        for op in a.enabled(false) {
            let mut a2 = a.clone();
            a2.apply(&op);
            cur.push(op);
            dfs(&a2, left - 1, cur, ord, si, f, stop);
            cur.pop();
            if *stop {
                return;
            }
        }
    }
    let mut ord = 0u64;
    let mut stop = false;
    for len in 1..=depth {
        for (si, s) in starts.iter().enumerate() {
            if s.ops.len() > deep_ops + 1 && len == depth {
                continue;
            }
            let mut cur = vec![];
            dfs(&s.abs, len - 1, &mut cur, &mut ord, si, f, &mut stop);
            if stop {
                return;
            }
        }
    }
}

// ---------------------------------------------------------------------------------------------
// the concrete driver

#[derive(Default, Clone, Debug)]
struct Facts {
    nursery_gcs: u64,
    full_gcs: u64,
    nursery_requests_run_full: u64,
    oy_edges: u64,
    oy_write: u64,
    oy_region: u64,
    oy_los_holder: u64,
    dependents: u64,
    dependents_moved: u64,
    los_dependents: u64,
    nontrivial: bool,
}

/// The shadow heap's view right before an operation that may collect.
struct Snap {
    gcs: u64,
    /// (holder id, field, target id): holder survived >= 1 collection, target none
    oy: Vec<(u64, usize, u64)>,
    /// objects reachable only through old->young edges, with their addresses
    dependents: Vec<(u64, usize)>,
}

struct Driver<'a> {
    w: &'a mut World,
    /// the mutator that allocates and executes the barriers (roots always live in mutator 0's
    /// table); 1 in the `m2` variant until that mutator is destroyed
    m: usize,
    los: bool,
    copying_nursery: bool,
    /// accumulated over the nursery collections of the running program
    oy_slots: HashSet<(u64, usize)>,
    dependents: HashSet<u64>,
    /// which barrier last wrote (holder, field)
    origin: HashMap<(u64, usize), &'static str>,
    facts: Facts,
    /// the running program (for the crash record)
    case: Value,
    exposed: bool,
}

fn mutator(m: usize) -> &'static mut mmtk::Mutator<VerifVM> {
    <VerifVM as ActivePlan<VerifVM>>::mutator(mutator_tls(m))
}

impl<'a> Driver<'a> {
    fn new(w: &'a mut World, los: bool, case: Value) -> Self {
        let copying_nursery = w.cfg.plan != "StickyImmix";
        Driver { w, m: 0, los, copying_nursery, oy_slots: HashSet::new(), dependents: HashSet::new(), origin: HashMap::new(), facts: Facts::default(), case, exposed: false }
    }

    fn alloc(&mut self, slot: usize, kind: Kind, with_child: bool) -> Result<u64, Fail> {
        let m = self.m;
        let r = match kind {
            Kind::Leaf => self.w.alloc_obj(m, slot, LEAF_BYTES, 2, 8, Sem::Default, false)?,
            Kind::Arr if self.los => self.w.alloc_obj(m, slot, LOS_BYTES, 4, 8, Sem::Los, false)?,
            Kind::Arr => self.w.alloc_obj(m, slot, ARR_BYTES, 4, 8, Sem::Default, false)?,
        };
        let Some(id) = r else {
            return Err(("alloc:null".into(), format!("allocation of a {} returned null in a heap with plenty of room", kind.name())));
        };
        if m != 0 {
            // the root goes to mutator 0's table (no allocation, hence no collection, in between)
            self.w.set_root(0, slot, Some(id));
            self.w.set_root(m, slot, None);
        }
        if kind == Kind::Arr && with_child {
            let c = self.alloc(TMP2, Kind::Leaf, false)?;
            self.store(id, 3, Some(c));
            self.w.set_root(0, TMP2, None);
        }
        Ok(id)
    }

    /// holder.field <- target through the plan's write barrier (pre, store, post)
    fn store(&mut self, holder: u64, field: usize, target: Option<u64>) {
        self.w.write_field(self.m, holder, field, target);
        self.origin.insert((holder, field), "write");
    }

    /// Copy `len` reference fields of `src` (from `so`) over fields of `dst` (from `d_o`): the
    /// binding calls `memory_region_copy_pre`, moves the words itself, and calls
    /// `memory_region_copy_post` (src and dst slices as documented, equal sizes).
    fn copy_region(&mut self, src: u64, dst: u64, range: u8) {
        let (so, d_o, len) = RANGES[range as usize];
        let s: ObjectReference = self.w.obj_ref(src);
        let d: ObjectReference = self.w.obj_ref(dst);
        let src_slice = field_addr(s, so)..field_addr(s, so + len);
        let dst_slice = field_addr(d, d_o)..field_addr(d, d_o + len);
        self.w.stats.ops += 1;
        mmtk::memory_manager::memory_region_copy_pre::<VerifVM>(mutator(self.m), src_slice.clone(), dst_slice.clone());
        unsafe { std::ptr::copy(src_slice.start.to_ptr::<usize>(), dst_slice.start.to_mut_ptr::<usize>(), len) };
        mmtk::memory_manager::memory_region_copy_post::<VerifVM>(mutator(self.m), src_slice, dst_slice);
        for k in 0..len {
            let v = self.w.shadow.objs[&src].fields[so + k];
            self.w.shadow.objs.get_mut(&dst).unwrap().fields[d_o + k] = v;
            self.origin.insert((dst, d_o + k), "region");
        }
    }

    fn root(&self, slot: u8) -> u64 {
        self.w.root(0, slot as usize).expect("C05: operation on an empty root (enumerator bug)")
    }

    fn snapshot(&self) -> Snap {
        let sh = &self.w.shadow;
        let age = |id: u64| sh.objs.get(&id).map(|o| o.age).unwrap_or(0);
        let mut roots: Vec<u64> = vec![];
        for r in sh.roots.iter().flatten() {
            roots.extend(r.iter().flatten());
        }
        roots.extend(sh.globals.iter().flatten());
        let walk = |skip_oy: bool| -> BTreeSet<u64> {
            let mut seen = BTreeSet::new();
            let mut stack = roots.clone();
            while let Some(id) = stack.pop() {
                if !seen.insert(id) {
                    continue;
                }
                if let Some(o) = sh.objs.get(&id) {
                    for t in o.fields.iter().flatten() {
                        if skip_oy && o.age >= 1 && age(*t) == 0 {
                            continue;
                        }
                        stack.push(*t);
                    }
                }
            }
            seen
        };
        let all = walk(false);
        let without = walk(true);
        let mut oy = vec![];
        for id in &all {
            let o = &sh.objs[id];
            if o.age >= 1 {
                for (i, t) in o.fields.iter().enumerate() {
                    if let Some(t) = t {
                        if age(*t) == 0 {
                            oy.push((*id, i, *t));
                        }
                    }
                }
            }
        }
        let dependents = all.difference(&without).map(|id| (*id, sh.objs[id].addr)).collect();
        Snap { gcs: self.w.stats.gcs, oy, dependents }
    }

    fn gen(&self) -> &dyn mmtk::Plan<VM = VerifVM> {
        self.w.mmtk.get_plan()
    }

    fn last_gc_was_full(&self) -> bool {
        self.gen().generational().expect("C05 runs generational plans only").last_collection_full_heap()
    }

    /// Bookkeeping after an operation during which collections may have happened; `r` is the
    /// operation's result (the heap comparison of `World::verify_heap` included).
    fn after(&mut self, snap: Snap, requested: Option<bool>, r: Result<(), Fail>) -> Result<(), Fail> {
        let n = self.w.stats.gcs - snap.gcs;
        if n == 0 {
            return r;
        }
        let full = self.last_gc_was_full();
        if full {
            self.facts.full_gcs += n;
            if requested == Some(false) {
                self.facts.nursery_requests_run_full += 1;
            }
        } else {
            self.facts.nursery_gcs += n;
            // this collection needed the remembered set for these
            for (h, i, _) in &snap.oy {
                self.oy_slots.insert((*h, *i));
            }
            for (d, _) in &snap.dependents {
                self.dependents.insert(*d);
            }
        }
        r?;
        // the collection succeeded and the shadow heap adopted the new addresses
        let mmtk: &'static mmtk::MMTK<VerifVM> = self.w.mmtk;
        let plan = mmtk.get_plan().generational().unwrap();
        let mut ids: Vec<u64> = self.w.shadow.objs.keys().cloned().collect();
        ids.sort();
        // debugging aid: VERIF_C05_NO_INTROSPECT=1 leaves only the behavioural oracles (graph
        // comparison, allocation overlap, probe) to show that they, too, expose a lost object
        if std::env::var("VERIF_C05_NO_INTROSPECT").is_ok() {
            ids.clear();
        }
        for id in ids {
            let o = self.w.obj_ref(id);
            // (an object the operation allocated after the collection is rightly young)
            if self.w.shadow.objs[&id].age >= 1 && plan.is_object_in_nursery(o) {
                return Err(("graph:not_promoted".into(), format!("object id {} at {} is reachable after the collection but the plan still considers it a nursery object: it was not traced (its memory is free for reuse)", id, o)));
            }
            #[cfg(feature = "vo_bit")]
            if mmtk::memory_manager::is_mmtk_object(o.to_raw_address()).is_none() {
                return Err(("graph:vo_bit_lost".into(), format!("object id {} at {} is reachable after the collection but is no longer a valid MMTk object (VO bit cleared)", id, o)));
            }
        }
        if !full {
            self.facts.oy_edges += snap.oy.len() as u64;
            for (h, i, _) in &snap.oy {
                match self.origin.get(&(*h, *i)) {
                    Some(&"region") => self.facts.oy_region += 1,
                    _ => self.facts.oy_write += 1,
                }
                if self.w.shadow.objs.get(h).map(|o| o.sem == Sem::Los).unwrap_or(false) {
                    self.facts.oy_los_holder += 1;
                }
            }
            let mut moved = 0;
            for (d, a) in &snap.dependents {
                let o = &self.w.shadow.objs[d];
                if o.addr != *a {
                    moved += 1;
                }
                if o.sem == Sem::Los {
                    self.facts.los_dependents += 1;
                }
            }
            self.facts.dependents += snap.dependents.len() as u64;
            self.facts.dependents_moved += moved;
            if !snap.oy.is_empty() && !snap.dependents.is_empty() && (!self.copying_nursery || moved > 0) {
                self.facts.nontrivial = true;
            }
        }
        Ok(())
    }

    fn step(&mut self, op: &Op) -> Result<(), Fail> {
        let snap = self.snapshot();
        let mut requested = None;
        let r: Result<(), Fail> = (|| {
            match *op {
                Op::New { kind } => {
                    let slot = (0..SLOTS).find(|s| self.w.root(0, *s).is_none()).expect("C05: new with no empty root (enumerator bug)");
                    self.alloc(slot, kind, true)?;
                }
                Op::Store { src, field, dst } => {
                    let t = if dst == NULL { None } else { Some(self.root(dst)) };
                    self.store(self.root(src), field as usize, t);
                }
                Op::StoreNew { src, field, kind } => {
                    let t = self.alloc(TMP, kind, true)?;
                    self.store(self.root(src), field as usize, Some(t));
                    self.w.set_root(0, TMP, None);
                }
                Op::Copy { src, dst, range } => self.copy_region(self.root(src), self.root(dst), range),
                Op::CopyNew { dst, range } => {
                    let ya = self.alloc(TMP, Kind::Arr, false)?;
                    for k in 0..4 {
                        let l = self.alloc(TMP2, Kind::Leaf, false)?;
                        self.store(ya, k, Some(l));
                        self.w.set_root(0, TMP2, None);
                    }
                    self.copy_region(ya, self.root(dst), range);
                    self.w.set_root(0, TMP, None);
                }
                Op::Drop { slot } => self.w.drop_root(0, slot as usize),
                Op::Gc { full } => {
                    requested = Some(full);
                    if !full && !snap.oy.is_empty() && !self.exposed {
                        // from here on a crash of the process is most likely the remembered set's
                        self.exposed = true;
                        self.case["exposed"] = json!(true);
                        set_current_case(&self.case);
                    }
                    self.w.gc(0, full)?;
                }
            }
            Ok(())
        })();
        self.after(snap, requested, r)
    }

    /// Allocate young objects over the memory the last collection reclaimed and compare the heap
    /// again (no collection involved).
    fn probe(&mut self) -> Result<(), Fail> {
        let snap = self.snapshot();
        let r: Result<(), Fail> = (|| {
            for k in 0..16 {
                self.alloc(TMP, Kind::Leaf, false)?;
                if (self.los && k < 3) || (!self.los && k < 6) {
                    self.alloc(TMP, Kind::Arr, false)?;
                }
            }
            self.w.set_root(0, TMP, None);
            self.w.verify_heap(0)
        })();
        self.after(snap, None, r)
    }

    /// The failure class if the failure is the remembered set's, else None (foreign).
    fn classify(&self, sig: &str, msg: &str) -> Option<String> {
        if !(sig.starts_with("graph:") || sig == "alloc:overlap") {
            return None;
        }
        let holder = parse_holder(msg);
        let via_slot = holder.filter(|hs| self.oy_slots.contains(hs));
        let via_dep = parse_ids(msg).iter().any(|i| self.dependents.contains(i));
        if via_slot.is_none() && !via_dep {
            return None;
        }
        let barrier = match via_slot.and_then(|s| self.origin.get(&s)) {
            Some(b) => b.to_string(),
            None => {
                let kinds: BTreeSet<&str> = self.oy_slots.iter().filter_map(|s| self.origin.get(s).cloned()).collect();
                if kinds.len() == 1 {
                    kinds.into_iter().next().unwrap().to_string()
                } else {
                    "mixed".to_string()
                }
            }
        };
        let kind = sig.split(':').nth(1).unwrap_or("failure");
        Some(format!("remset:{}:{}", barrier, kind))
    }
}

/// "field I of object id H [...]" anywhere in a failure message of `World::verify_heap`.
fn parse_holder(msg: &str) -> Option<(u64, usize)> {
    let p = msg.find("field ")?;
    let rest = &msg[p + 6..];
    let (i, rest) = rest.split_once(' ')?;
    let rest = rest.strip_prefix("of object id ")?;
    let h: String = rest.chars().take_while(|c| c.is_ascii_digit()).collect();
    Some((h.parse().ok()?, i.parse().ok()?))
}

/// Every object id a failure message names ("id N").
fn parse_ids(msg: &str) -> Vec<u64> {
    let mut v = vec![];
    let mut rest = msg;
    while let Some(p) = rest.find("id ") {
        rest = &rest[p + 3..];
        let d: String = rest.chars().take_while(|c| c.is_ascii_digit()).collect();
        if let Ok(n) = d.parse() {
            v.push(n);
        }
    }
    v
}

// ---------------------------------------------------------------------------------------------
// programs

#[derive(Clone, Debug)]
enum Prog {
    Seq { start: Vec<Op>, suffix: Vec<Op> },
    /// `n` holders promoted by a (full | nursery) collection; per epoch every `stride`-th holder
    /// receives a fresh unrooted young object by `barrier`; nursery GC after each epoch
    Bulk { n: usize, promote_full: bool, region: bool, stride: usize, epochs: usize },
}

impl Prog {
    fn json(&self) -> Value {
        match self {
            Prog::Seq { start, suffix } => json!({"start": ops_json(start), "suffix": ops_json(suffix)}),
            Prog::Bulk { n, promote_full, region, stride, epochs } => json!({"bulk": {"n": n, "promote_full": promote_full, "region": region, "stride": stride, "epochs": epochs}}),
        }
    }
    fn from_json(v: &Value) -> Prog {
        if let Some(b) = v.get("bulk") {
            Prog::Bulk {
                n: b["n"].as_u64().unwrap_or(1) as usize,
                promote_full: b["promote_full"].as_bool().unwrap_or(false),
                region: b["region"].as_bool().unwrap_or(false),
                stride: b["stride"].as_u64().unwrap_or(1) as usize,
                epochs: b["epochs"].as_u64().unwrap_or(1) as usize,
            }
        } else {
            Prog::Seq { start: ops_from_json(&v["start"]), suffix: ops_from_json(&v["suffix"]) }
        }
    }
}

fn bulk_programs(t: Tier) -> Vec<Prog> {
    let ns: &[usize] = t.pick(&[1, 2, 4096, 4097], &[1, 2, 3, 4095, 4096, 4097, 8192, 8193]);
    let strides: &[usize] = t.pick(&[1], &[1, 2]);
    let epochs_list: &[usize] = t.pick(&[1], &[1, 2]);
    let mut v = vec![];
    for &n in ns {
        for promote_full in [false, true] {
            for region in [false, true] {
                for &stride in strides {
                    for &epochs in epochs_list {
                        v.push(Prog::Bulk { n, promote_full, region, stride, epochs });
                    }
                }
            }
        }
    }
    v
}

/// (No per-operation snapshots here: with thousands of objects they would dominate; only the
/// collections are bracketed.  The heap is sized so that no allocation triggers a collection.)
fn run_bulk(d: &mut Driver, n: usize, promote_full: bool, region: bool, stride: usize, epochs: usize) -> Result<(), Fail> {
    // a list of n holders hanging off root 0 (field 0 = next); arrays for the region barrier
    let kind = if region { Kind::Arr } else { Kind::Leaf };
    let mut holders: Vec<u64> = vec![];
    for _ in 0..n {
        let id = d.alloc(TMP, kind, false)?;
        let head = d.w.root(0, 0);
        d.store(id, 0, head);
        d.w.set_root(0, 0, Some(id));
        d.w.set_root(0, TMP, None);
        holders.push(id);
    }
    d.step(&Op::Gc { full: promote_full })?;
    for _ in 0..epochs {
        for (k, h) in holders.iter().enumerate() {
            if k % stride != 0 {
                continue;
            }
            if region {
                // fresh young array with two fresh leaves in fields 0,1 -> holder fields 2,3
                let ya = d.alloc(TMP, Kind::Arr, false)?;
                for f in 0..2 {
                    let l = d.alloc(TMP2, Kind::Leaf, false)?;
                    d.store(ya, f, Some(l));
                    d.w.set_root(0, TMP2, None);
                }
                d.copy_region(ya, *h, 1);
            } else {
                let l = d.alloc(TMP, Kind::Leaf, false)?;
                d.store(*h, 1, Some(l));
            }
            d.w.set_root(0, TMP, None);
        }
        d.step(&Op::Gc { full: false })?;
    }
    Ok(())
}

fn run_prog(d: &mut Driver, p: &Prog, m2: bool) -> Result<u64, Fail> {
    match p {
        Prog::Seq { start, suffix } => {
            for op in start {
                d.step(op)?;
            }
            if m2 {
                // a second mutator executes the suffix (allocation + barriers) and is destroyed
                // right before the closing nursery collection: `destroy_mutator` must flush its
                // remembered-set buffers ("All mutator state is flushed before it is destroyed")
                d.w.bind(1);
                d.m = 1;
            }
            for (i, op) in suffix.iter().enumerate() {
                if m2 && i + 1 == suffix.len() {
                    d.w.destroy(1);
                    d.m = 0;
                }
                d.step(op)?;
            }
        }
        Prog::Bulk { n, promote_full, region, stride, epochs } => run_bulk(d, *n, *promote_full, *region, *stride, *epochs)?,
    }
    let state = canonical_shadow(d.w);
    d.probe()?;
    Ok(state)
}

// ---------------------------------------------------------------------------------------------
// parent / child plumbing

fn variants(t: Tier) -> Vec<&'static str> {
    let _ = t;
    vec!["def", "los", "m2", "bulk"]
}

/// (max operations of a start-state builder, suffix depth)
/// (max operations of a start-state builder, suffix depth, builder size up to which a start
/// state gets the full suffix depth — larger ones get depth - 1)
fn bounds(variant: &str, t: Tier) -> (usize, usize, usize) {
    match (variant, t) {
        ("def", Tier::Quick) => (3, 3, 2),
        ("los", Tier::Quick) => (2, 3, 1),
        ("m2", Tier::Quick) => (2, 3, 2),
        ("def", Tier::Thorough) => (3, 4, 3),
        ("los", Tier::Thorough) => (2, 4, 2),
        ("m2", Tier::Thorough) => (2, 4, 2),
        _ => (0, 0, 0),
    }
}

fn shards(variant: &str, t: Tier) -> usize {
    match (variant, t) {
        ("bulk", _) => 1,
        ("def", Tier::Quick) => 2,
        (_, Tier::Quick) => 1,
        ("def", Tier::Thorough) => 12,
        (_, Tier::Thorough) => 4,
    }
}

fn boot(plan: &str) -> BootCfg {
    let mut c = BootCfg::new(plan);
    c.heap_bytes = 64 << 20;
    // the defaults, made explicit: a user-requested non-exhaustive collection is a nursery
    // collection; the nursery is bounded by a proportion of the heap (min 25 %: 16 MiB)
    c.options.push(("full_heap_system_gc".into(), "false".into()));
    c.options.push(("nursery".into(), "ProportionalBounded:0.25,1.0".into()));
    c
}

fn timeout_s(t: Tier) -> u64 {
    t.pick(300, 3000)
}

struct Job {
    plan: &'static str,
    variant: &'static str,
    shard: usize,
    shards: usize,
}

impl Job {
    fn label(&self) -> String {
        format!("{}/{}", self.plan, self.variant)
    }
    fn args(&self, tier: Tier, mode: &str) -> Vec<String> {
        vec!["--child".into(), "C05".into(), self.plan.into(), tier.name().into(), mode.into(), self.variant.into(), self.shard.to_string(), self.shards.to_string()]
    }
}

fn absorb(run: &mut Run, labels: &[String], results: Vec<Value>) {
    for (label, r) in labels.iter().zip(results) {
        if r.get("child_crashed").is_some() {
            let crash = r["crash"].as_str().unwrap_or("");
            let (sig, rest) = crash.split_once(' ').unwrap_or((crash, ""));
            let (case_s, detail) = rest.split_once(" ||| ").unwrap_or((rest, ""));
            let case: Value = serde_json::from_str(case_s).unwrap_or(json!({"label": label, "raw": case_s}));
            let loc = detail.split("panicked at ").nth(1).map(panic_slug).unwrap_or_default();
            if case["exposed"].as_bool() == Some(true) || std::env::var("VERIF_OWN_ALL").is_ok() {
                run.violation(
                    format!("remset:crash:{}{}:{}", sig, loc, label),
                    format!("{}: the process died ({}) in or after a nursery collection that depended on the remembered set, program {} {}", label, sig, case["program"], detail),
                    case,
                );
            } else {
                run.assume(&format!("{}: exploration stopped by a crash ({}{}) outside any remembered-set dependent collection: another property's failure class", label, sig, loc));
                run.set("exhaustive", false);
            }
            run.add("children_crashed", 1);
            continue;
        }
        if r.get("child_died").is_some() {
            machinery_failure(&format!("child {} died without a result: {}", label, r));
        }
        run.absorb_child_json(&r);
    }
}

/// Debugging aid (`VERIF_C05_COUNT=1`): print the size of the program space and exit.
fn print_counts() -> ! {
    for t in [Tier::Quick, Tier::Thorough] {
        for v in ["def", "los", "m2"] {
            let (pre, depth, deep) = bounds(v, t);
            let starts = start_states(pre);
            let mut by_len: HashMap<usize, u64> = HashMap::new();
            for_each_program(&starts, depth, deep, &mut |_, _, s| {
                *by_len.entry(s.len()).or_default() += 1;
                true
            });
            let mut l: Vec<_> = by_len.into_iter().collect();
            l.sort();
            println!("{} {}: start states {} (builder <= {} ops), suffix depth {} (builders > {} ops: {}): programs by suffix length {:?}", t.name(), v, starts.len(), pre, depth, deep, depth - 1, l);
        }
    }
    std::process::exit(0);
}

pub fn run(run: &mut Run) {
    if std::env::var("VERIF_C05_COUNT").is_ok() {
        print_counts();
    }
    let mut jobs: Vec<Job> = vec![];
    for plan in PLANS {
        for variant in variants(run.tier) {
            let k = shards(variant, run.tier);
            for shard in 0..k {
                jobs.push(Job { plan, variant, shard, shards: k });
            }
        }
    }
    let args: Vec<Vec<String>> = jobs.iter().map(|j| j.args(run.tier, "run")).collect();
    let results = run_children(args, run.jobs, timeout_s(run.tier));
    let labels: Vec<String> = jobs.iter().map(|j| j.label()).collect();
    absorb(run, &labels, results);
    // the start states are the same set in every shard: report them once per variant
    for v in ["def", "los", "m2"] {
        let (pre, depth, deep) = bounds(v, run.tier);
        let st = start_states(pre);
        run.set(&format!("start_states_{}", v), st.len() as u64);
        run.set(&format!("start_states_{}_with_full_suffix_depth", v), st.iter().filter(|s| s.ops.len() <= deep + 1).count() as u64);
        run.set(&format!("suffix_depth_{}", v), depth as u64);
    }
    run.set("rule", RULE);
    run.set("plans", json!(PLANS));
    run.set("placement", crate::vm::PLACEMENT);
    run.set("features", json!(crate::shadowvm::feature_set()));
    run.assume("one GC worker (deterministic schedule); one mutator (variant m2: a second one that is destroyed before the closing collection)");
    run.assume("binding contract as documented: object_reference_write_pre before and _post after the store, with the new target; memory_region_copy_pre before and _post after the binding's own memmove, src/dst slices of equal size, VMMemorySlice = Range<Address> (object() == None: the plan classifies the destination by address)");
    run.assume("heap 64 MiB, nursery ProportionalBounded:0.25,1.0, full_heap_system_gc=false: every forced non-exhaustive request ran as a nursery collection (counted: nursery_requests_run_full)");
    run.assume("a process crash is attributed to C05 only in or after a nursery collection of the running program that had an old->young edge; other failure classes (graph:, alloc:, nonmoving:, c11:) are C05's only when the failing slot / object depended on the remembered set, else foreign");
}

pub fn replay(case: &Value, run: &mut Run) {
    let plan = PLANS.iter().find(|p| Some(**p) == case["plan"].as_str()).copied().unwrap_or("GenCopy");
    let variant = ["def", "los", "m2", "bulk"].iter().find(|v| Some(**v) == case["variant"].as_str()).copied().unwrap_or("def");
    let job = Job { plan, variant, shard: case["shard"].as_u64().unwrap_or(0) as usize, shards: case["shards"].as_u64().unwrap_or(1) as usize };
    let mut a = job.args(run.tier, "replay");
    a.push(serde_json::to_string(&case["program"]).unwrap());
    let before = run.violations.len();
    let r = run_children(vec![a.clone()], 1, 600);
    absorb(run, &[job.label()], r);
    if run.violations.len() == before {
        // the failure depended on the history: replay the shard's enumeration up to the ordinal
        a.push("prefix".into());
        a.push(case["ordinal"].as_u64().unwrap_or(0).to_string());
        let r = run_children(vec![a], 1, timeout_s(run.tier));
        absorb(run, &[job.label()], r);
    }
}

pub fn child(args: &[String]) -> ! {
    let plan = args[0].clone();
    let tier = if args.get(1).map(|s| s.as_str()) == Some("thorough") { Tier::Thorough } else { Tier::Quick };
    let mode = args.get(2).map(|s| s.as_str()).unwrap_or("run").to_string();
    let variant = args.get(3).cloned().unwrap_or_else(|| "def".into());
    let shard: u64 = args.get(4).and_then(|s| s.parse().ok()).unwrap_or(0);
    let nshards: u64 = args.get(5).and_then(|s| s.parse().ok()).unwrap_or(1);
    let single: Option<Prog> = if mode == "replay" && args.get(7).map(|s| s.as_str()) != Some("prefix") { Some(Prog::from_json(&serde_json::from_str::<Value>(&args[6]).unwrap_or(Value::Null))) } else { None };
    let upto: Option<u64> = if mode == "replay" && args.get(7).map(|s| s.as_str()) == Some("prefix") { args.get(8).and_then(|s| s.parse().ok()) } else { None };

    install_crash_handlers();
    let _ = crate::common::WORKER_PANIC_HANDLER.set(Box::new(worker_panic_to_crash));
    let cfg = boot(&plan);
    set_current_case(&json!({"plan": plan, "variant": variant, "program": "boot"}));
    let mut w = World::boot(cfg.clone());
    let mut sub = Run::new("C05", tier);
    let label = format!("{}/{}", plan, variant);
    let los = variant == "los";

    let mut states: HashSet<u64> = HashSet::new();
    let mut tot = Facts::default();
    let mut nontrivial = 0u64;
    let mut evaluated = 0u64;
    let mut enumerated = 0u64;
    let mut stopped = false;
    let mut max_len = 0usize;

    let mut run_one = |ordinal: u64, p: &Prog, w: &mut World, sub: &mut Run| -> bool {
        let case = json!({"plan": plan, "variant": variant, "shard": shard, "shards": nshards, "ordinal": ordinal, "program": p.json(), "boot": cfg.json()});
        set_current_case(&case);
        let mut d = Driver::new(w, los, case.clone());
        let r = catch(|| {
            let st = run_prog(&mut d, p, variant == "m2")?;
            Ok::<u64, Fail>(st)
        });
        evaluated += 1;
        let failure: Option<Fail> = match r {
            Ok(Ok(st)) => {
                states.insert(st);
                match catch(|| d.w.reset()) {
                    Ok(Ok(())) => None,
                    Ok(Err(e)) => Some(e),
                    Err(pm) => Some((format!("panic{}", panic_slug(&format!("{}:0: {}", crate::common::last_panic_location(), pm))), format!("panic in the closing reset: {}", pm))),
                }
            }
            Ok(Err(e)) => Some(e),
            Err(pm) => Some((format!("panic{}", panic_slug(&format!("{}:0: {}", crate::common::last_panic_location(), pm))), format!("panic at {}: {}", crate::common::last_panic_location(), pm.lines().next().unwrap_or("")))),
        };
        let f = d.facts.clone();
        tot.nursery_gcs += f.nursery_gcs;
        tot.full_gcs += f.full_gcs;
        tot.nursery_requests_run_full += f.nursery_requests_run_full;
        tot.oy_edges += f.oy_edges;
        tot.oy_write += f.oy_write;
        tot.oy_region += f.oy_region;
        tot.oy_los_holder += f.oy_los_holder;
        tot.dependents += f.dependents;
        tot.dependents_moved += f.dependents_moved;
        tot.los_dependents += f.los_dependents;
        if evaluated == 1 || failure.is_some() {
            sub.sample(json!({"plan": plan, "variant": variant, "program": p.json(), "nursery_gcs": f.nursery_gcs, "full_gcs": f.full_gcs, "old_to_young_edges_at_nursery_gc": f.oy_edges, "only_through_remset": f.dependents, "of_them_moved": f.dependents_moved, "failed": failure.as_ref().map(|x| x.0.clone())}));
        }
        if let Some((sig, msg)) = failure {
            let own = d.classify(&sig, &msg).or_else(|| {
                if sig.starts_with("panic") && d.exposed {
                    Some(format!("remset:{}", sig))
                } else if std::env::var("VERIF_OWN_ALL").is_ok() {
                    Some(sig.clone())
                } else {
                    None
                }
            });
            match own {
                Some(class) => sub.violation(format!("{}:{}", class, label), format!("{} program #{} {}: {} [{}]", label, ordinal, p.json(), msg, sig), case),
                None => {
                    sub.assume(&format!("{}: exploration stopped at program #{} by a failure of another property's class ({})", label, ordinal, sig));
                    sub.set("foreign_failures", json!([format!("{}: {} (program {})", sig, msg, p.json())]));
                }
            }
            // the instance is no longer trustworthy
            return false;
        }
        if f.nontrivial {
            nontrivial += 1;
            if nontrivial % 997 == 1 {
                sub.sample(json!({"plan": plan, "variant": variant, "program": p.json(), "nursery_gcs": f.nursery_gcs, "full_gcs": f.full_gcs, "old_to_young_edges_at_nursery_gc": f.oy_edges, "only_through_remset": f.dependents, "of_them_moved": f.dependents_moved}));
            }
        }
        true
    };

    if let Some(p) = single {
        if !run_one(0, &p, &mut w, &mut sub) {
            stopped = true;
        }
        enumerated = 1;
    } else if variant == "bulk" {
        for (i, p) in bulk_programs(tier).iter().enumerate() {
            if let Some(u) = upto {
                if i as u64 > u {
                    break;
                }
            }
            enumerated += 1;
            if !run_one(i as u64, p, &mut w, &mut sub) {
                stopped = true;
                break;
            }
        }
        sub.set("max_bulk_holders", bulk_programs(tier).iter().map(|p| if let Prog::Bulk { n, .. } = p { *n as u64 } else { 0 }).max().unwrap_or(0));
    } else {
        let (pre, depth, deep) = bounds(&variant, tier);
        let starts = start_states(pre);
        // operations of the longest program: start-state builder + promoting GC + suffix
        max_len = pre + 1 + depth;
        for_each_program(&starts, depth, deep, &mut |ord, si, suffix| {
            if ord % nshards != shard {
                return true;
            }
            if let Some(u) = upto {
                if ord > u {
                    return false;
                }
            }
            enumerated += 1;
            let p = Prog::Seq { start: starts[si].ops.clone(), suffix: suffix.to_vec() };
            if !run_one(ord, &p, &mut w, &mut sub) {
                stopped = true;
                return false;
            }
            true
        });
    }
    sub.add("states", states.len() as u64);
    sub.add("transitions", w.stats.ops);
    sub.add("evaluations", evaluated);
    sub.add("traces_validated_against_impl", evaluated);
    sub.add("distinct_nontrivial", nontrivial);
    sub.add("collections", w.stats.gcs);
    sub.add("nursery_collections", tot.nursery_gcs);
    sub.add("full_heap_collections_in_programs", tot.full_gcs);
    sub.add("nursery_requests_run_full", tot.nursery_requests_run_full);
    sub.add("old_to_young_edges_at_nursery_gcs", tot.oy_edges);
    sub.add("old_to_young_edges_by_write_barrier", tot.oy_write);
    sub.add("old_to_young_edges_by_region_barrier", tot.oy_region);
    sub.add("old_to_young_edges_from_los_holders", tot.oy_los_holder);
    sub.add("young_reachable_only_through_remset", tot.dependents);
    sub.add("of_them_moved", tot.dependents_moved);
    sub.add("of_them_in_los", tot.los_dependents);
    sub.add("objects_moved", w.stats.objects_moved);
    sub.add("objects_verified", w.stats.objects_verified);
    sub.set("max_depth", max_len as u64);
    sub.set("exhaustive", !stopped && evaluated == enumerated);
    // (one level of nesting: the parent sums these over the shards of a plan/variant)
    sub.set("programs_per_plan", json!({label.clone(): evaluated}));
    sub.set("nontrivial_per_plan", json!({label.clone(): nontrivial}));
    sub.set("nursery_collections_per_plan", json!({label.clone(): tot.nursery_gcs}));
    sub.set("only_through_remset_per_plan", json!({label.clone(): tot.dependents}));
    emit_child_result(&sub.to_child_json());
}
