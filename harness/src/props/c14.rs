//! C14 — every requested GC completes; workers never deadlock or lose a wake-up (engine `baton`,
//! persistent mode, real `MMTK<VerifVM>`; see `props/sched.rs` for the infrastructure).
//!
//! Scenarios: one collection request (`gc1`) and two consecutive requests where the second is made
//! the moment `block_for_gc` returns, i.e. races with the tail of `on_gc_finished` (`gc2`), each with
//! every spawning pattern of the tier (trees of harness packets injected through the public
//! `add_work_packet` API from `scan_vm_specific_roots`; plus the ephemeron chain of the heap, which
//! re-arms the `VMRefClosure` sentinel).  All interleavings at the monitor / shim / scheduler
//! points with at most the tier's preemption bound, including the `notify_one` waiter choice.
//!
//! Oracle (signatures `sched:`): no deadlock — no state in which unfinished threads exist and none is
//! enabled, which is exactly "every worker waits un-notified while the requesting mutator waits
//! for the collection" (lost wake-up) — no livelock, every request becomes the workers' goal and
//! its collection resumes the mutator, at quiescence all workers wait on the monitor with no goal,
//! no pending request, the request flag clear, no designated work and no packet in an open bucket,
//! and the next execution's request is served again (thousands of consecutive collections on one
//! instance).  Panics of mmtk-core's own assertions in the scheduler are violations too.

use crate::common::{Run, Tier};
use crate::props::sched::{self, all_patterns, ChildCfg, Job, Kind, Pattern, Plan};
use serde_json::Value;

pub fn owns(sig: &str) -> bool {
    sig.starts_with("sched:") && !sig.ends_with(":fork")
}

pub fn plans(tier: Tier, fork: bool) -> Vec<Plan> {
    let thorough = tier == Tier::Thorough;
    let mut out = vec![];
    let plan_names: Vec<&str> = if thorough { vec!["SemiSpace", "MarkSweep", "Immix", "GenCopy"] } else { vec!["SemiSpace", "MarkSweep"] };
    for (pi, plan) in plan_names.iter().enumerate() {
        let main = pi < 2;
        let worker_counts: Vec<usize> = if thorough && main { vec![2, 3] } else { vec![2] };
        for workers in worker_counts {
            let cfg = ChildCfg { plan: plan.to_string(), workers, eph_chain: if thorough && main && workers == 2 { 2 } else { 1 }, refs: false, options: vec![], mutators: 1, bare: false };
            if fork && !thorough && pi == 0 {
                // quick: one 3-worker round trip (a wake-up that reaches only one of two parked
                // workers cannot be seen with 2 workers)
                let cfg3 = ChildCfg { plan: plan.to_string(), workers: 3, eph_chain: 1, refs: false, options: vec![], mutators: 1, bare: false };
                out.push(Plan { cfg: cfg3, jobs: vec![Job { kind: Kind::Fork { rounds: 1, race: true }, pattern: Pattern::empty(), via_worker: false, bound: 1, free_bound: 0, spurious: 0, prog: vec![] }] });
            }
            if fork {
                // a fork round trip costs ~10x a plain collection (thread creation): fewer schedules
                let kinds: Vec<Kind> = if thorough && main && workers == 2 { vec![Kind::Fork { rounds: 1, race: false }, Kind::Fork { rounds: 1, race: true }, Kind::Fork { rounds: 2, race: true }] } else { vec![Kind::Fork { rounds: 1, race: true }] };
                for kind in kinds {
                    let (bound, free_bound) = match (thorough, main && workers == 2, kind) {
                        (true, true, Kind::Fork { rounds: 1, race: true }) => (1, 1),
                        (true, true, Kind::Fork { rounds: 1, race: false }) => (1, 1),
                        _ => (1, 0),
                    };
                    let pr = all_patterns(2).into_iter().find(|p| p.name() == "P(R)").unwrap();
                    // one child per job: the jobs are long
                    out.push(Plan { cfg: cfg.clone(), jobs: vec![Job { kind, pattern: Pattern::empty(), via_worker: false, bound, free_bound, spurious: 0, prog: vec![] }] });
                    if main {
                        out.push(Plan { cfg: cfg.clone(), jobs: vec![Job { kind, pattern: pr, via_worker: false, bound: 1, free_bound: 0, spurious: 0, prog: vec![] }] });
                    }
                }
                continue;
            }
            // spawning patterns, smallest first
            let pats: Vec<Pattern> = if !main {
                all_patterns(2).into_iter().take(4).collect()
            } else if thorough {
                all_patterns(if workers == 2 { 3 } else { 2 })
            } else {
                // the empty pattern, the 5 single packets and 4 two-packet trees
                let all = all_patterns(2);
                let mut v: Vec<Pattern> = all.iter().take(6).cloned().collect();
                for name in ["P(C)", "C(C)", "V(R)", "R(P)"] {
                    v.extend(all.iter().filter(|p| p.name() == name).cloned());
                }
                v
            };
            // shards: one child per (kind, slice of the patterns)
            let shard = if thorough { 24 } else { 5 };
            for kind in [Kind::Gc1, Kind::Gc2] {
                if kind == Kind::Gc2 && !main {
                    continue;
                }
                let list: Vec<Pattern> = if kind == Kind::Gc2 { pats.iter().take(if thorough { 8 } else { 2 }).cloned().collect() } else { pats.clone() };
                for (ci, chunk) in list.chunks(shard).enumerate() {
                    // trees of 3 packets (250 of the 281 patterns): preemptions only
                    let jobs: Vec<Job> = chunk.iter().enumerate().map(|(k, p)| Job { kind, pattern: p.clone(), via_worker: (ci + k) % 2 == 1 && p.len() > 1, bound: 1, free_bound: if p.len() >= 3 { 0 } else { 1 }, spurious: 0, prog: vec![] }).collect();
                    out.push(Plan { cfg: cfg.clone(), jobs });
                }
                if thorough && main && workers == 2 {
                    // the deepest exploration (2 preemptions + 1 free deviation) on the patterns -, P, V,
                    // one child each; one injected spurious wake-up per execution on the four smallest
                    // patterns
                    if kind == Kind::Gc1 {
                        for p in list.iter().filter(|p| ["-", "P", "V"].contains(&p.name().as_str())) {
                            out.push(Plan { cfg: cfg.clone(), jobs: vec![Job { kind, pattern: p.clone(), via_worker: false, bound: 2, free_bound: 1, spurious: 0, prog: vec![] }] });
                        }
                    } else {
                        // two collections per execution: 2 preemptions without free deviations
                        out.push(Plan { cfg: cfg.clone(), jobs: vec![Job { kind, pattern: Pattern::empty(), via_worker: false, bound: 2, free_bound: 0, spurious: 0, prog: vec![] }] });
                    }
                    let jobs: Vec<Job> = list.iter().take(4).map(|p| Job { kind, pattern: p.clone(), via_worker: false, bound: 1, free_bound: 1, spurious: 1, prog: vec![] }).collect();
                    out.push(Plan { cfg: cfg.clone(), jobs });
                } else if main && kind == Kind::Gc1 {
                    // quick: one injected spurious wake-up per execution on the empty pattern
                    out.push(Plan { cfg: cfg.clone(), jobs: vec![Job { kind, pattern: Pattern::empty(), via_worker: false, bound: 1, free_bound: 0, spurious: 1, prog: vec![] }] });
                }
            }
        }
    }
    out
}

pub const RULE: &str = "per (plan, GC worker count, scenario {one request, two consecutive requests, fork round trips}, spawning pattern = tree of harness packets over the target buckets {Unconstrained, Prepare, Closure, VMRefClosure, Release} injected through add_work_packet / GCWorker::add_work, + one ephemeron chain re-arming the VMRefClosure sentinel): every interleaving of the real GC worker threads and the mutator thread of a real MMTK instance at the worker-monitor mutex / condition variable (verif::sync shim, logical blocking, notify_one waiter choice), the worker-group mutex, bucket add / open / close / poll, designated work, sentinels, local queues and the request flag, with at most the stated number of preemptions; executions start and end at scheduler-quiescent points of one persistent instance, the heap is verified after every collection; states = executions, transitions = scheduling steps, non-trivial = executions with a preemption or with harness packets run by different workers";

pub fn finish(run: &mut Run) {
    run.set("rule", RULE);
    run.set("placement", crate::vm::PLACEMENT);
    run.assume("sequentially consistent interleavings at the instrumented points only; crossbeam deques / injectors, the sentinel mutex and all plan-level locks are treated as atomic; spurious condition-variable wake-ups only in the jobs that inject one per execution (it costs a preemption)");
    run.assume("the binding's own waits (stop_all_mutators waiting for the mutator, block_for_gc) are modelled as a mutex + two condition variables; one mutator thread");
}

pub fn run(run: &mut Run) {
    let mut plans = plans(run.tier, false);
    // two mutator threads requesting concurrently (scenario req2: the same children as C11's baton
    // phase; C14 owns their sched: verdicts)
    plans.extend(crate::props::c11b::plans(run.tier));
    // a collection request and a fork request in flight together (scenario forkreq: the children of
    // C16; C14 owns their sched: verdicts -- the request is served, before or after the round trip)
    plans.extend(crate::props::c16::forkreq_plans(run.tier));
    run.set("child_processes", plans.len() as u64);
    sched::run_parent(run, plans, &owns, run.tier.pick(300, 3000));
    finish(run);
}

pub fn replay(case: &Value, run: &mut Run) {
    sched::replay("C14", case, run);
}

pub fn child(args: &[String]) {
    sched::child("C14", args);
}
