//! C32 space descriptors encode and decode their heap range.
//!
//! The real `SpaceDescriptor` (via the `verif::c32` re-export) is driven over every (start, chunk
//! count) pair its encoding admits, under three VM layouts.  The layout is a process global that
//! can be set only once, so every layout (and every shard of it) runs in a child process.
//!
//! * `bit32`  = `VMLayout::new_32bit()` and `comp35` = a compressed-pointer style 64-bit layout
//!   (35-bit address space, `force_use_contiguous_spaces = false`): the mantissa/exponent/size
//!   encoding.  Admitted pairs (the documented field widths): start = m << (18 + e) with m odd,
//!   m < 2^14 (MANTISSA_BITS), 4 <= e <= 31 (EXPONENT_BITS = 5; e >= 4 <=> chunk aligned),
//!   1 <= chunks <= 1023 (SIZE_BITS = 10, `chunks < 1 << SIZE_BITS` is a debug_assert).
//!   Oracle: is_contiguous, is_contiguous_hi <=> end == heap_end, get_start == start,
//!   get_extent == chunks << 22, !is_empty.
//! * `def64`  = the default 64-bit layout (`force_use_contiguous_spaces = true`): the space-index
//!   encoding.  Pairs: chunk-aligned starts in [0, heap_end) x chunk counts that keep the range
//!   inside the start's 2^41 space slot.  Oracle (the reading the module's own unit tests
//!   document): get_start == start aligned down to the slot, get_extent == 2^41 (hence the range
//!   is contained in [get_start, get_start + get_extent)), is_contiguous,
//!   is_contiguous_hi <=> end == heap_end.
//! * discontiguous descriptors (`create_descriptor`): N of them are pairwise distinct, not
//!   contiguous, not contiguous-hi, not empty.

use crate::common::{catch, emit_child_result, last_panic_location, machinery_failure, run_children, Run, Tier};
use mmtk::util::heap::vm_layout::VMLayout;
use mmtk::util::verif::c32::{set_custom_vm_layout, SpaceDescriptor};
use mmtk::util::Address;
use serde_json::{json, Value};

const LOG_CHUNK: usize = 22;
const CHUNK: usize = 1 << LOG_CHUNK;
/// documented field widths of the 32-bit encoding (space_descriptor.rs)
const MANTISSA_BITS: usize = 14;
const EXPONENT_BITS: usize = 5;
const SIZE_BITS: usize = 10;
const BASE_EXPONENT: usize = 32 - MANTISSA_BITS;
const MIN_EXP: usize = LOG_CHUNK - BASE_EXPONENT; // 4: m odd and chunk aligned <=> e >= 4
const MAX_EXP: usize = (1 << EXPONENT_BITS) - 1; // 31
const MAX_CHUNKS: usize = (1 << SIZE_BITS) - 1; // 1023

const LAYOUTS: [&str; 3] = ["bit32", "comp35", "def64"];

fn addr(a: usize) -> Address {
    unsafe { Address::from_usize(a) }
}

fn layout_of(name: &str) -> Option<VMLayout> {
    match name {
        "bit32" => Some(VMLayout::new_32bit()),
        "comp35" => Some(VMLayout {
            log_address_space: 35,
            heap_start: addr(0x4000_0000),
            heap_end: addr(0x8_0000_0000),
            log_space_extent: 31,
            force_use_contiguous_spaces: false,
        }),
        "def64" => None,
        _ => machinery_failure("C32: unknown layout"),
    }
}

/// Install the layout in this process (once, before anything reads it) and return (chunked?,
/// heap_start, heap_end, log_space_extent) as the harness expects them.
fn install(name: &str) -> (bool, usize, usize, usize) {
    if let Some(l) = layout_of(name) {
        if let Err(p) = catch(|| set_custom_vm_layout(l)) {
            machinery_failure(&format!("C32: cannot install layout {}: {}", name, p));
        }
    }
    let l = mmtk::util::heap::vm_layout::vm_layout();
    let expect_chunked = name != "def64";
    if l.force_use_contiguous_spaces == expect_chunked {
        machinery_failure("C32: layout did not take effect");
    }
    (expect_chunked, l.heap_start.as_usize(), l.heap_end.as_usize(), l.log_space_extent)
}

struct Obs {
    contiguous: bool,
    hi: bool,
    empty: bool,
    start: usize,
    extent: usize,
    d: SpaceDescriptor,
}

fn observe(start: usize, end: usize) -> Result<Obs, String> {
    catch(|| {
        let d = SpaceDescriptor::create_descriptor_from_heap_range(addr(start), addr(end));
        Obs {
            contiguous: d.is_contiguous(),
            hi: d.is_contiguous_hi(),
            empty: d.is_empty(),
            start: d.get_start().as_usize(),
            extent: d.get_extent(),
            d,
        }
    })
    .map_err(|p| format!("panic at {}: {}", last_panic_location(), p))
}

/// One pair under the chunked (mantissa/exponent/size) encoding.
fn check_chunked(start: usize, chunks: usize, heap_end: usize) -> Result<(), (String, String)> {
    let end = start + (chunks << LOG_CHUNK);
    let o = observe(start, end).map_err(|m| ("panic".to_string(), m))?;
    let top = end == heap_end;
    if !o.contiguous {
        return Err(("is_contiguous".into(), format!("{:?} is not contiguous", o.d)));
    }
    if o.hi != top {
        return Err(("is_contiguous_hi".into(), format!("{:?} reports hi={} but end==heap_end is {}", o.d, o.hi, top)));
    }
    if o.empty {
        return Err(("is_empty".into(), format!("{:?} is empty", o.d)));
    }
    if o.start != start {
        return Err(("get_start".into(), format!("{:?} decodes start {:#x}, created from {:#x}", o.d, o.start, start)));
    }
    if o.extent != chunks << LOG_CHUNK {
        return Err(("get_extent".into(), format!("{:?} decodes extent {:#x}, created from {:#x} ({} chunks)", o.d, o.extent, chunks << LOG_CHUNK, chunks)));
    }
    Ok(())
}

/// One pair under the space-index encoding of the default 64-bit layout.
fn check_index(start: usize, chunks: usize, heap_end: usize, log_extent: usize) -> Result<(), (String, String)> {
    let end = start + (chunks << LOG_CHUNK);
    let o = observe(start, end).map_err(|m| ("panic".to_string(), m))?;
    let top = end == heap_end;
    let slot = (start as u128 >> log_extent << log_extent) as usize;
    if !o.contiguous {
        return Err(("is_contiguous".into(), format!("{:?} is not contiguous", o.d)));
    }
    if o.hi != top {
        return Err(("is_contiguous_hi".into(), format!("{:?} reports hi={} but end==heap_end is {}", o.d, o.hi, top)));
    }
    if o.empty {
        return Err(("is_empty".into(), format!("{:?} is empty", o.d)));
    }
    if o.start != slot {
        return Err(("get_start".into(), format!("{:?} decodes start {:#x}, range starts at {:#x} in slot {:#x}", o.d, o.start, start, slot)));
    }
    if o.extent != 1usize << log_extent {
        return Err(("get_extent".into(), format!("{:?} decodes extent {:#x}, slot size is {:#x}", o.d, o.extent, 1usize << log_extent)));
    }
    if !(o.start <= start && end as u128 <= o.start as u128 + o.extent as u128) {
        return Err(("containment".into(), format!("{:?}: [{:#x},{:#x}) not inside decoded [{:#x},+{:#x})", o.d, start, end, o.start, o.extent)));
    }
    Ok(())
}

/// All admitted starts of the chunked encoding, simplest first: (e, m).
fn chunked_starts() -> Vec<usize> {
    let mut v = Vec::with_capacity((MAX_EXP - MIN_EXP + 1) << (MANTISSA_BITS - 1));
    for e in MIN_EXP..=MAX_EXP {
        let mut m = 1usize;
        while m < (1 << MANTISSA_BITS) {
            v.push(m << (BASE_EXPONENT + e));
            m += 2;
        }
    }
    v
}

fn quick_counts() -> Vec<usize> {
    let mut v = vec![];
    for k in 0..SIZE_BITS {
        for d in [-1isize, 0, 1] {
            let c = (1isize << k) + d;
            if c >= 1 && c as usize <= MAX_CHUNKS {
                v.push(c as usize);
            }
        }
    }
    v.extend([MAX_CHUNKS - 2, MAX_CHUNKS - 1, MAX_CHUNKS, 0x155, 0x2aa]);
    v.sort();
    v.dedup();
    v
}

fn chunked_nontrivial(start: usize, chunks: usize, top: bool) -> bool {
    // the pair sets the top bit of all three fields (so every field boundary of the word has a set
    // bit on both sides: the mantissa is odd), or is a top-of-heap pair
    let tz = (start >> BASE_EXPONENT).trailing_zeros() as usize;
    let m = start >> (BASE_EXPONENT + tz);
    top || (tz >= 16 && m >= (1 << (MANTISSA_BITS - 1)) && chunks >= (1 << (SIZE_BITS - 1)))
}

fn sig_class_chunked(start: usize, chunks: usize, top: bool) -> String {
    let tz = (start >> BASE_EXPONENT).trailing_zeros() as usize;
    let m = start >> (BASE_EXPONENT + tz);
    format!(
        "{}{}{}{}",
        if top { "top," } else { "" },
        if tz >= 16 { "exp>=16," } else { "exp<16," },
        if m >= (1 << (MANTISSA_BITS - 1)) { "mant>=2^13," } else { "mant<2^13," },
        if chunks >= 512 { "chunks>=512" } else { "chunks<512" }
    )
}

struct Tally {
    inputs: u64,
    nontrivial: u64,
    top_pairs: u64,
    getters: u64,
}

fn run_chunked_shard(run: &mut Run, layout: &str, heap_end: usize, shard: usize, nshards: usize) {
    let starts = chunked_starts();
    let qc = quick_counts();
    let mut t = Tally { inputs: 0, nontrivial: 0, top_pairs: 0, getters: 0 };
    let mut one = |run: &mut Run, start: usize, chunks: usize| {
        let top = start + (chunks << LOG_CHUNK) == heap_end;
        t.inputs += 1;
        t.getters += 5;
        if top {
            t.top_pairs += 1;
        }
        if chunked_nontrivial(start, chunks, top) {
            t.nontrivial += 1;
        }
        if let Err((clause, msg)) = check_chunked(start, chunks, heap_end) {
            run.violation(
                format!("contiguous:{}:{}:{}", layout, clause, sig_class_chunked(start, chunks, top)),
                msg,
                json!({"kind": "contiguous", "layout": layout, "start": start as u64, "chunks": chunks as u64}),
            );
        }
    };
    // every start x (quick: the boundary counts; thorough: every count)
    for (i, &s) in starts.iter().enumerate() {
        if i % nshards != shard {
            continue;
        }
        match run.tier {
            Tier::Quick => {
                for &c in &qc {
                    one(run, s, c);
                }
            }
            Tier::Thorough => {
                for c in 1..=MAX_CHUNKS {
                    one(run, s, c);
                }
            }
        }
    }
    let mut edge = vec![];
    for e in [MIN_EXP, MIN_EXP + 1, 15, 16, MAX_EXP - 1, MAX_EXP] {
        for m in [1usize, 3, (1 << 13) - 1, (1 << 13) + 1, (1 << 14) - 3, (1 << 14) - 1] {
            edge.push(m << (BASE_EXPONENT + e));
        }
    }
    if run.tier == Tier::Quick {
        // every count x the starts at the field limits (shard 0 only)
        if shard == 0 {
            for &s in &edge {
                for c in 1..=MAX_CHUNKS {
                    if !qc.contains(&c) {
                        one(run, s, c);
                    }
                }
            }
        }
    }
    if run.tier == Tier::Quick && shard == 0 {
        // every admitted pair that ends exactly at heap_end
        for c in 1..=MAX_CHUNKS {
            if qc.contains(&c) || heap_end <= c << LOG_CHUNK || edge.contains(&(heap_end - (c << LOG_CHUNK))) {
                continue;
            }
            let s = heap_end - (c << LOG_CHUNK);
            let tz = (s >> BASE_EXPONENT).trailing_zeros() as usize;
            if tz <= MAX_EXP && s >> (BASE_EXPONENT + tz) < (1 << MANTISSA_BITS) {
                one(run, s, c);
            }
        }
    }
    // every pair ending exactly at heap_end is part of the product above when its start is
    // admitted; count how many this shard saw so that the parent can check none was missed
    if shard == 0 {
        run.sample(json!({"layout": layout, "start": format!("{:#x}", starts[0]), "chunks": 1, "decoded_start": format!("{:#x}", observe(starts[0], starts[0] + CHUNK).map(|o| o.start).unwrap_or(0))}));
        let s = heap_end - 3 * CHUNK;
        if let Ok(o) = observe(s, heap_end) {
            run.sample(json!({"layout": layout, "start": format!("{:#x}", s), "chunks": 3, "top_of_heap": true, "descriptor": format!("{:?}", o.d), "hi": o.hi, "decoded_start": format!("{:#x}", o.start), "decoded_extent": format!("{:#x}", o.extent)}));
        }
    }
    run.add("states", t.inputs);
    run.add("evaluations", t.inputs);
    run.add("traces_validated_against_impl", t.inputs);
    run.add("transitions", t.getters);
    run.add("distinct_nontrivial", t.nontrivial);
    run.add(&format!("pairs_{}", layout), t.inputs);
    run.add(&format!("top_of_heap_pairs_{}", layout), t.top_pairs);
}

fn run_index_shard(run: &mut Run, heap_start: usize, heap_end: usize, log_extent: usize, shard: usize, nshards: usize) {
    let slot = 1usize << log_extent;
    let chunks_in_slot = slot >> LOG_CHUNK;
    let total_chunks = heap_end >> LOG_CHUNK;
    let mut t = Tally { inputs: 0, nontrivial: 0, top_pairs: 0, getters: 0 };
    let mut one = |run: &mut Run, start: usize, chunks: usize| {
        let end = start + (chunks << LOG_CHUNK);
        let top = end == heap_end;
        t.inputs += 1;
        t.getters += 5;
        if top {
            t.top_pairs += 1;
        }
        // non-trivial: top-of-heap pair, or the start lies in the last 8 chunks of its slot (an
        // index that rounds to nearest/up instead of down decodes the next slot)
        if top || (start % slot) >> LOG_CHUNK >= chunks_in_slot - 8 {
            t.nontrivial += 1;
        }
        if let Err((clause, msg)) = check_index(start, chunks, heap_end, log_extent) {
            let class = format!("{}{}", if top { "top," } else { "" }, if start % slot == 0 { "slot_aligned" } else { "inside_slot" });
            run.violation(
                format!("contiguous:def64:{}:{}", clause, class),
                msg,
                json!({"kind": "contiguous", "layout": "def64", "start": start as u64, "chunks": chunks as u64}),
            );
        }
    };
    // chunk counts for a start whose chunk index inside its slot is `k`: the range stays in the slot
    let counts_for = |k: usize| -> Vec<usize> {
        let room = chunks_in_slot - k;
        let mut v = vec![1, 2, 3, 1023, 1024, room / 2, room - 1, room];
        v.retain(|&c| c >= 1 && c <= room);
        v.sort();
        v.dedup();
        v
    };
    match run.tier {
        Tier::Thorough => {
            // every chunk-aligned start in [0, heap_end)
            let mut ci = shard;
            while ci < total_chunks {
                let start = ci << LOG_CHUNK;
                for c in counts_for(ci % chunks_in_slot) {
                    one(run, start, c);
                }
                ci += nshards;
            }
        }
        Tier::Quick => {
            if shard == 0 {
                let nslots = heap_end / slot;
                for s in 0..nslots {
                    let mut ks = vec![];
                    for k in 0..8 {
                        ks.push(k);
                        ks.push(chunks_in_slot - 1 - k);
                    }
                    for b in 3..19 {
                        ks.extend([(1 << b) - 1, 1 << b, (1 << b) + 1]);
                    }
                    ks.sort();
                    ks.dedup();
                    for k in ks {
                        let start = s * slot + (k << LOG_CHUNK);
                        for c in counts_for(k) {
                            one(run, start, c);
                        }
                    }
                }
            }
        }
    }
    if shard == 0 {
        let s = heap_start + 5 * CHUNK;
        if let Ok(o) = observe(s, s + 10 * CHUNK) {
            run.sample(json!({"layout": "def64", "start": format!("{:#x}", s), "chunks": 10, "descriptor": format!("{:?}", o.d), "decoded_start": format!("{:#x}", o.start), "decoded_extent": format!("{:#x}", o.extent), "hi": o.hi}));
        }
        if let Ok(o) = observe(heap_end - slot, heap_end) {
            run.sample(json!({"layout": "def64", "start": format!("{:#x}", heap_end - slot), "chunks": chunks_in_slot, "top_of_heap": true, "descriptor": format!("{:?}", o.d), "hi": o.hi}));
        }
    }
    run.add("states", t.inputs);
    run.add("evaluations", t.inputs);
    run.add("traces_validated_against_impl", t.inputs);
    run.add("transitions", t.getters);
    run.add("distinct_nontrivial", t.nontrivial);
    run.add("pairs_def64", t.inputs);
    run.add("top_of_heap_pairs_def64", t.top_pairs);
}

/// `n` discontiguous descriptors: distinct, non-contiguous.  Returns an error (clause, message).
fn check_discontiguous(n: usize) -> Result<(), (String, String)> {
    let r = catch(|| {
        let mut v = Vec::with_capacity(n);
        for i in 0..n {
            let d = SpaceDescriptor::create_descriptor();
            if d.is_contiguous() || d.is_contiguous_hi() {
                return Err(("is_contiguous".to_string(), format!("descriptor #{} {:?} reports contiguous", i, d)));
            }
            if d.is_empty() {
                return Err(("is_empty".to_string(), format!("descriptor #{} {:?} is the uninitialised descriptor", i, d)));
            }
            v.push((d.get_index(), i, d));
        }
        v.sort_by_key(|x| (x.0, x.1));
        for w in v.windows(2) {
            // equal descriptors necessarily have equal index, so only neighbours can be equal
            if w[0].2 == w[1].2 {
                return Err(("distinct".to_string(), format!("descriptors #{} and #{} are both {:?}", w[0].1, w[1].1, w[0].2)));
            }
        }
        Ok(())
    });
    match r {
        Ok(x) => x,
        Err(p) => Err(("panic".to_string(), format!("panic at {}: {}", last_panic_location(), p))),
    }
}

fn run_discontiguous(run: &mut Run, layout: &str, n: usize) {
    if let Err((clause, msg)) = check_discontiguous(n) {
        run.violation(format!("discontiguous:{}", clause), msg, json!({"kind": "discontiguous", "layout": layout, "n": n as u64}));
    }
    run.add("discontiguous_descriptors", n as u64);
    run.add("states", n as u64);
    run.add("evaluations", n as u64);
    run.add("traces_validated_against_impl", n as u64);
    run.add("transitions", 4 * n as u64);
}

/// `--child C32 <layout> <tier> <shard> <nshards>`
pub fn child(args: &[String]) {
    if args.len() != 4 {
        machinery_failure("C32 child: bad arguments");
    }
    let layout = args[0].as_str();
    let tier = if args[1] == "thorough" { Tier::Thorough } else { Tier::Quick };
    let shard: usize = args[2].parse().unwrap_or_else(|_| machinery_failure("C32 child: bad shard"));
    let nshards: usize = args[3].parse().unwrap_or_else(|_| machinery_failure("C32 child: bad nshards"));
    let mut run = Run::new("C32", tier);
    let (chunked, heap_start, heap_end, log_extent) = install(layout);
    if chunked {
        run_chunked_shard(&mut run, layout, heap_end, shard, nshards);
    } else {
        run_index_shard(&mut run, heap_start, heap_end, log_extent, shard, nshards);
    }
    if shard == 0 {
        run_discontiguous(&mut run, layout, tier.pick(1000, 1 << 20));
    }
    emit_child_result(&run.to_child_json());
}

pub fn run(run: &mut Run) {
    let nshards = run.tier.pick(2usize, 8);
    let mut args = vec![];
    for l in LAYOUTS {
        for s in 0..nshards {
            args.push(vec!["--child".to_string(), "C32".to_string(), l.to_string(), run.tier.name().to_string(), s.to_string(), nshards.to_string()]);
        }
    }
    let results = run_children(args, run.jobs, run.tier.pick(60, 900));
    for r in &results {
        if r.get("child_died").is_some() {
            machinery_failure(&format!("C32 child died: {}", r));
        }
        run.absorb_child_json(r);
    }
    // the number of admitted pairs is known in closed form: a missed shard or start is machinery failure
    let nstarts = ((MAX_EXP - MIN_EXP + 1) << (MANTISSA_BITS - 1)) as u64;
    if run.tier == Tier::Thorough {
        for l in ["bit32", "comp35"] {
            if run.get(&format!("pairs_{}", l)) != nstarts * MAX_CHUNKS as u64 {
                machinery_failure("C32: chunked enumeration incomplete");
            }
        }
        // heap_end = 17 slots of 2^19 chunks
        if run.get("states") < 2 * nstarts * MAX_CHUNKS as u64 + 17 * (1 << 19) {
            machinery_failure("C32: def64 enumeration incomplete");
        }
    }
    for l in LAYOUTS {
        if run.get(&format!("top_of_heap_pairs_{}", l)) == 0 {
            machinery_failure("C32: no top-of-heap pair was enumerated");
        }
    }
    run.set("max_depth", 1u64);
    run.set("exhaustive", run.tier == Tier::Thorough);
    run.set(
        "rule",
        match run.tier {
            Tier::Thorough => "layouts bit32 (VMLayout::new_32bit) and comp35 (35-bit, non-contiguous): every start m<<(18+e), m odd < 2^14, 4<=e<=31 (229376 starts) x every chunk count 1..=1023; layout def64 (default): every chunk-aligned start in [0, heap_end) x counts {1,2,3,1023,1024,half/all-but-one/all of the room left in the 2^41 slot}; 2^20 discontiguous descriptors per layout process; non-trivial = pair sets the top bit of the mantissa, of the exponent (e>=16) and of the size field at once, or ends at heap_end (chunked) / start within the last 8 chunks of its slot or range ends at heap_end (def64)".to_string(),
            Tier::Quick => "as thorough but: chunked layouts every start x 33 boundary chunk counts (2^k-1,2^k,2^k+1,1021..1023,0x155,0x2aa) plus 36 field-limit starts x every count plus every admitted pair ending at heap_end; def64: per slot the 16 edge chunks and 2^b-1,2^b,2^b+1 chunk offsets x the same counts; 1000 discontiguous descriptors per layout; exhaustive=false because the full product is only enumerated in thorough".to_string(),
        },
    );
    run.assume("admitted pairs = documented field widths (MANTISSA_BITS 14, EXPONENT_BITS 5, SIZE_BITS 10) and chunk-aligned non-zero start; mantissas wider than 14 bits happen to survive on a 64-bit usize and are not offered");
    run.assume("def64 (space-index encoding): 'same start/extent' is read as the 2^41 slot containing the range, as the module's own unit tests assert; ranges crossing a slot boundary or starting above heap_end are not offered");
    run.assume("the VM layout is a set-once process global: each layout runs in its own child processes");
}

pub fn replay(case: &Value, run: &mut Run) {
    let layout = case["layout"].as_str().unwrap_or("def64").to_string();
    let (chunked, _hs, heap_end, log_extent) = install(&layout);
    match case["kind"].as_str() {
        Some("contiguous") => {
            let start = case["start"].as_u64().unwrap() as usize;
            let chunks = case["chunks"].as_u64().unwrap() as usize;
            let r = if chunked { check_chunked(start, chunks, heap_end) } else { check_index(start, chunks, heap_end, log_extent) };
            if let Err((clause, msg)) = r {
                run.violation(format!("contiguous:{}:{}", layout, clause), msg, case.clone());
            }
        }
        Some("discontiguous") => {
            let n = case["n"].as_u64().unwrap() as usize;
            if let Err((clause, msg)) = check_discontiguous(n) {
                run.violation(format!("discontiguous:{}", clause), msg, case.clone());
            }
        }
        _ => machinery_failure("C32 replay: unknown case kind"),
    }
}
