//! C37 Compressor forwarding addresses pack live objects in order.
//!
//! The real `ForwardingMetadata` (mark bitmap + offset vector of the Compressor) is driven on a
//! mapped 1 MiB `CompressorRegion`: every live object is marked the way
//! `CompressorSpace::trace_mark_object` does it (`test_and_mark` on the first word, then
//! `mark_last_word_of_object`, which reads the size through the VM's object model), the real
//! `calculate_offset_vector(region, cursor)` is run and the real `forward(object start)` is called
//! for every live object.  Oracle (the property, stated directly):
//! `forward(obj) == region start + sum of the sizes of the live objects before obj`.
//!
//! Enumerated: all layouts of a W-word window (compositions of W: a part of 1 word is a dead word,
//! a part of k >= 2 words is a live object; 2^(W-1) layouts, hence dead gaps of every size between
//! objects) at positions that straddle 512-byte block boundaries, at the region start and at the
//! region end; a big object spanning 0..4 whole blocks with every layout of small windows before
//! and after it; a few hand-made whole-region layouts.

use super::c20::init_side_metadata;
use crate::common::{catch, last_panic_location, machinery_failure, Run, Tier};
use crate::vm::VerifVM;
use mmtk::util::metadata::side_metadata::verif_hooks;
use mmtk::util::verif::c37 as hk;
use mmtk::util::{Address, ObjectReference};
use serde_json::{json, Value};
use std::cell::Cell;
use std::collections::BTreeMap;
use std::sync::atomic::{AtomicUsize, Ordering};
use std::sync::Mutex;

const WORD: usize = 8;
const REGION_BYTES: usize = hk::REGION_BYTES;
const REGION_WORDS: u32 = (hk::REGION_BYTES / WORD) as u32;
const BLOCK_WORDS: u32 = (hk::BLOCK_BYTES / WORD) as u32;
const BLOCKS_PER_PAGE: u32 = (4096 / hk::BLOCK_BYTES) as u32;
const PAGE_WORDS: u32 = (4096 / WORD) as u32;
const REGION_PAGES: u32 = REGION_WORDS / PAGE_WORDS;

/// Scratch data: one arena of three regions (previous, the region under test, next) per thread.
const DATA_BASE: usize = 0x4000_0000;
const ARENA_STRIDE: usize = 4 << 20;

/// (first word, size in words), relative to the region start.
type Obj = (u32, u32);

struct Fail {
    sig: String,
    msg: String,
}

struct Arena {
    region: Address,
    fm: hk::ForwardingMetadata<VerifVM>,
    /// touched pages of the current case (sorted, distinct)
    pages: Vec<u32>,
}

#[derive(Clone, Copy, PartialEq, Eq, Debug)]
enum Stage {
    Mark,
    Calculate,
    Forward,
}

impl Arena {
    fn new(slot: usize) -> Arena {
        init_side_metadata();
        let base = DATA_BASE + slot * ARENA_STRIDE;
        let bytes = 3 * REGION_BYTES;
        let p = unsafe {
            libc::mmap(
                base as *mut libc::c_void,
                bytes,
                libc::PROT_READ | libc::PROT_WRITE,
                libc::MAP_PRIVATE | libc::MAP_ANONYMOUS | libc::MAP_NORESERVE | libc::MAP_FIXED_NOREPLACE,
                -1,
                0,
            )
        };
        if p == libc::MAP_FAILED || p as usize != base {
            machinery_failure("C37: cannot map the scratch data arena at its fixed address");
        }
        let base = unsafe { Address::from_usize(base) };
        if !verif_hooks::map_metadata(&[], &[hk::mark_spec(), hk::offset_vector_spec()], base, bytes) {
            machinery_failure("C37: cannot map the Compressor side metadata");
        }
        hk::clear_marks(base, bytes);
        let a = Arena { region: base + REGION_BYTES, fm: hk::ForwardingMetadata::new(), pages: vec![] };
        // neighbours: a live object ending exactly at the start of the region under test and one
        // starting exactly at its end.  They belong to other regions and must never matter.
        a.mark(a.region - 4 * WORD, 4);
        a.mark(a.region + REGION_BYTES, 3);
        a
    }

    /// Mark one live object exactly as `CompressorSpace::trace_mark_object` does (minus the
    /// enqueueing): the size is read from the object through `ObjectModel::get_current_size`.
    fn mark(&self, start: Address, size_words: u32) {
        // VerifVM layout: word 1 = size in bytes (low 32 bits) | nrefs | flags | align
        unsafe { (start + WORD).store::<usize>(size_words as usize * WORD) };
        let o = ObjectReference::from_raw_address(start).unwrap();
        // the body of trace_mark_object
        if hk::test_and_mark::<VerifVM>(o) {
            self.fm.mark_last_word_of_object(o);
        }
    }

    fn poison_value(&self, block: u32) -> usize {
        if block % 2 == 0 {
            (self.region + (REGION_BYTES - WORD)).as_usize() | 1
        } else {
            (self.region + 2 * WORD).as_usize()
        }
    }

    /// Run one layout.  Preconditions of the driven API (checked here, harness errors otherwise):
    /// objects sorted, non-overlapping, >= 2 words, inside [region start, cursor); cursor
    /// page-aligned (RegionPageResource only produces page-aligned cursors) and <= region end.
    /// Returns the forwarding addresses as word offsets from the region start.
    fn run_case(&mut self, objs: &[Obj], cursor_pages: u32, descending: bool, out: &mut Vec<i64>) -> Result<(), Fail> {
        let cursor_words = cursor_pages * PAGE_WORDS;
        let mut prev_end = 0u32;
        for &(s, z) in objs {
            if z < 2 || s < prev_end || s + z > cursor_words || cursor_pages > REGION_PAGES {
                machinery_failure(&format!("C37: driver produced an illegal layout {:?} cursor_pages={}", objs, cursor_pages));
            }
            prev_end = s + z;
        }
        // pages holding objects (+ page 0): their offset-vector entries are poisoned with stale
        // looking values (the Compressor never clears the offset vector between collections), and
        // their mark bits are cleared afterwards
        self.pages.clear();
        self.pages.push(0);
        for &(s, z) in objs {
            let (a, b) = (s / PAGE_WORDS, (s + z - 1) / PAGE_WORDS);
            for p in a..=b {
                if *self.pages.last().unwrap() < p {
                    self.pages.push(p);
                }
            }
        }
        let ov = hk::offset_vector_spec();
        for &p in &self.pages {
            for b in p * BLOCKS_PER_PAGE..(p + 1) * BLOCKS_PER_PAGE {
                ov.store_atomic::<usize>(self.region + (b * BLOCK_WORDS) as usize * WORD, self.poison_value(b), Ordering::Relaxed);
            }
        }
        let stage = Cell::new(Stage::Mark);
        let at = Cell::new(0usize);
        out.clear();
        let this = &*self;
        let res = catch(|| -> Option<Fail> {
            // 1. marking (tracing order is arbitrary: ascending or descending here)
            for k in 0..objs.len() {
                let i = if descending { objs.len() - 1 - k } else { k };
                at.set(i);
                let (s, z) = objs[i];
                this.mark(this.region + s as usize * WORD, z);
            }
            // 2. the offset vector
            stage.set(Stage::Calculate);
            hk::calculate_offset_vector(&this.fm, this.region, this.region + cursor_words as usize * WORD);
            // 3. forwarding addresses of all live objects, in address order as compact_region does
            stage.set(Stage::Forward);
            let mut first: Option<Fail> = None;
            let mut live_before = 0u32;
            let mut straddler_before = false;
            for (i, &(s, z)) in objs.iter().enumerate() {
                at.set(i);
                let got = this.fm.forward(this.region + s as usize * WORD);
                let got_w = (got.as_usize() as i64 - this.region.as_usize() as i64) / WORD as i64;
                let aligned = got.as_usize() % WORD == 0;
                out.push(if aligned { got_w } else { i64::MIN });
                let want_w = live_before as i64;
                if first.is_none() && (!aligned || got_w != want_w) {
                    let kind = if !aligned {
                        "unaligned"
                    } else if got_w > s as i64 {
                        "above_original"
                    } else if got_w < want_w {
                        "overlaps_earlier_object"
                    } else {
                        "not_packed"
                    };
                    let ctx = if straddler_before { "after_block_straddler" } else { "no_straddler_before" };
                    first = Some(Fail {
                        sig: format!("forward:{}:{}", kind, ctx),
                        msg: format!(
                            "forward(object #{} at word {} size {}) = region start {:+} bytes, expected region start + {} bytes = total size of the {} live objects before it",
                            i,
                            s,
                            z,
                            got.as_usize() as i64 - this.region.as_usize() as i64,
                            want_w * WORD as i64,
                            i
                        ),
                    });
                }
                live_before += z;
                if s / BLOCK_WORDS != (s + z - 1) / BLOCK_WORDS {
                    straddler_before = true;
                }
            }
            first
        });
        // clean up whatever happened: release() as CompressorSpace::release, prepare() for the
        // touched pages
        self.fm.release();
        // (one page more than the objects occupy, so that a defect which sets a mark just past an
        // object cannot leak into the next layout and make a failure depend on the history)
        for &p in &self.pages {
            let n = if p + 1 < REGION_PAGES { 2 } else { 1 };
            hk::clear_marks(self.region + p as usize * 4096, n * 4096);
        }
        match res {
            Ok(None) => Ok(()),
            Ok(Some(f)) => Err(f),
            Err(p) => Err(Fail {
                sig: format!("panic:{:?}", stage.get()).to_lowercase(),
                msg: format!("panic during {:?} (object #{}): {} @ {}", stage.get(), at.get(), p, last_panic_location()),
            }),
        }
    }

    /// Harness self-check: after the clean-up no mark bit is left in the region under test, and
    /// the neighbour objects are still marked.
    fn is_clean(&self) -> bool {
        let mut n = 0;
        hk::mark_spec().scan_non_zero_values::<u8>(self.region, self.region + REGION_BYTES, &mut |_| n += 1);
        let d1 = ObjectReference::from_raw_address(self.region - 4 * WORD).unwrap();
        let d2 = ObjectReference::from_raw_address(self.region + REGION_BYTES).unwrap();
        n == 0 && hk::is_marked::<VerifVM>(d1) && hk::is_marked::<VerifVM>(d2)
    }
}

// ---------------------------------------------------------------------------------------------
// the enumerated space

#[derive(Clone, Copy, PartialEq, Eq, Debug)]
enum CursorMode {
    /// the smallest page-aligned cursor at or above the end of the last live object
    Min,
    /// one page more (if the region allows)
    MinPlusPage,
    RegionEnd,
}

impl CursorMode {
    fn pages(self, objs: &[Obj]) -> u32 {
        let end = objs.last().map(|&(s, z)| s + z).unwrap_or(0);
        let min = end.div_ceil(PAGE_WORDS);
        match self {
            CursorMode::Min => min,
            CursorMode::MinPlusPage => (min + 1).min(REGION_PAGES),
            CursorMode::RegionEnd => REGION_PAGES,
        }
    }
}

/// Fixed live objects in front of the windows, so that "the live objects before" is not trivial:
/// at the region start, inside block 0, across the block 0/1 boundary, first word = last word of
/// block 1, across the block 4/5 boundary.
const PREFIX: [Obj; 6] = [(0, 2), (5, 4), (40, 7), (60, 10), (127, 2), (300, 70)];

fn prefix_before(word: u32) -> Vec<Obj> {
    PREFIX.iter().copied().filter(|&(s, z)| s + z <= word).collect()
}

#[derive(Clone, Debug)]
enum Unit {
    /// all layouts `mask` in [lo, hi) of a `w`-word window starting at word `p`
    Window { pos: &'static str, p: u32, w: u32, cursor: CursorMode, lo: u32, hi: u32 },
    /// one big object: first word = block `k` offset `fo`, last word = block `k + m` offset `lo`
    /// for every `lo` of the set; every layout of `wb` words before and of `wa` words after
    Big { k: u32, m: u32, fo: u32, los: Vec<u32>, wb: u32, wa: u32, cursor: CursorMode },
    Special { name: &'static str, objs: Vec<Obj>, cursor: CursorMode },
}

/// Layout number `mask` of a `w`-word window at word `p`: bit i of `mask` = cut between words i
/// and i+1; parts of one word are dead, parts of >= 2 words are live objects.
fn decode_layout(p: u32, w: u32, mask: u32, out: &mut Vec<Obj>) {
    let mut start = 0u32;
    for i in 0..w {
        let cut = i == w - 1 || (mask >> i) & 1 == 1;
        if cut {
            let len = i + 1 - start;
            if len >= 2 {
                out.push((p + start, len));
            }
            start = i + 1;
        }
    }
}

fn window_positions(w: u32) -> Vec<(&'static str, u32, CursorMode)> {
    let h = w / 2;
    vec![
        ("region_start", 0, CursorMode::Min),
        ("first_block_boundary", BLOCK_WORDS - h, CursorMode::Min),
        ("block_3_boundary", 3 * BLOCK_WORDS - h, CursorMode::Min),
        ("page_boundary_block_8", 8 * BLOCK_WORDS - h, CursorMode::Min),
        ("last_block_boundary", REGION_WORDS - BLOCK_WORDS - h, CursorMode::RegionEnd),
        ("region_end", REGION_WORDS - w, CursorMode::RegionEnd),
    ]
}

fn specials() -> Vec<Unit> {
    let rw = REGION_WORDS;
    let mut v = vec![];
    let mut add = |name: &'static str, objs: Vec<Obj>, cursor: CursorMode| v.push(Unit::Special { name, objs, cursor });
    add("nothing_live", vec![], CursorMode::Min);
    add("nothing_live_full_cursor", vec![], CursorMode::RegionEnd);
    add("one_object_whole_region", vec![(0, rw)], CursorMode::RegionEnd);
    add("two_words_then_rest", vec![(0, 2), (2, rw - 2)], CursorMode::RegionEnd);
    add("dead_word_then_rest", vec![(1, rw - 1)], CursorMode::RegionEnd);
    add("two_halves", vec![(0, rw / 2), (rw / 2, rw / 2)], CursorMode::RegionEnd);
    add("rest_then_two_words", vec![(3, rw - 5), (rw - 2, 2)], CursorMode::RegionEnd);
    let blocks: Vec<Obj> = (0..16).map(|b| (b * BLOCK_WORDS, BLOCK_WORDS)).chain([(16 * BLOCK_WORDS, 2)]).collect();
    add("one_object_per_block", blocks, CursorMode::Min);
    let dense: Vec<Obj> = (0..PAGE_WORDS).map(|i| (2 * i, 2)).collect();
    add("dense_two_word_objects_two_pages", dense, CursorMode::Min);
    let alt: Vec<Obj> = (0..PAGE_WORDS / 3).map(|i| (3 * i + 1, 2)).collect();
    add("two_word_objects_one_word_gaps", alt, CursorMode::Min);
    add("whole_page_object", vec![(510, 2), (512, 512), (1024, 2)], CursorMode::Min);
    add("whole_page_object_exact_cursor", vec![(510, 2), (512, 512)], CursorMode::Min);
    let tail: Vec<Obj> = (0..BLOCK_WORDS).map(|i| (rw - 2 * BLOCK_WORDS + 2 * i, 2)).collect();
    add("dense_last_two_blocks", [prefix_before(rw - 2 * BLOCK_WORDS), tail].concat(), CursorMode::RegionEnd);
    v
}

fn units(tier: Tier) -> (Vec<Unit>, Value) {
    let mut v = vec![];
    let w_main: u32 = tier.pick(16, 24);
    let w_cursor: u32 = 16;
    let chunk = 1u32 << 12;
    let push_windows = |v: &mut Vec<Unit>, pos: &'static str, p: u32, w: u32, cursor: CursorMode| {
        let total = 1u32 << (w - 1);
        let mut lo = 0;
        while lo < total {
            let hi = (lo + chunk).min(total);
            v.push(Unit::Window { pos, p, w, cursor, lo, hi });
            lo = hi;
        }
    };
    // positions whose cursor must be the region end cost a 2048-block offset vector per layout:
    // a smaller window there in the thorough tier
    let w_end: u32 = tier.pick(16, 22);
    let mut positions = vec![];
    for (w, at_end) in [(w_main, false), (w_end, true)] {
        for (pos, p, cursor) in window_positions(w) {
            if (cursor == CursorMode::RegionEnd) == at_end {
                push_windows(&mut v, pos, p, w, cursor);
                positions.push(json!({"name": pos, "first_word": p, "words": w, "layouts": 1u64 << (w - 1), "cursor": format!("{:?}", cursor)}));
            }
        }
    }
    // over-approximated cursors (the allocator handed out pages that hold no live object)
    for (pos, p, cursor) in window_positions(w_cursor) {
        if cursor == CursorMode::Min {
            push_windows(&mut v, pos, p, w_cursor, CursorMode::MinPlusPage);
            push_windows(&mut v, pos, p, w_cursor, CursorMode::RegionEnd);
        }
    }
    // unbalanced straddles: 2 words before the boundary / 2 words after it
    for (pos, p) in [("first_block_boundary_minus2", BLOCK_WORDS - 2), ("first_block_boundary_plus2", BLOCK_WORDS + 2 - w_cursor), ("page_boundary_minus1", PAGE_WORDS - 1)] {
        push_windows(&mut v, pos, p, w_cursor, CursorMode::Min);
    }
    // big objects
    let offs: Vec<u32> = match tier {
        Tier::Quick => vec![0, 1, 2, 31, 32, 61, 62, 63],
        Tier::Thorough => (0..BLOCK_WORDS).collect(),
    };
    let offs_end: Vec<u32> = match tier {
        Tier::Quick => offs.clone(),
        Tier::Thorough => (0..8).chain(28..36).chain(56..64).collect(),
    };
    let (wb, wa) = (5, 5);
    let last_block = REGION_WORDS / BLOCK_WORDS - 1;
    for m in 1..=4u32 {
        for (k, cursor) in [(1, CursorMode::Min), (6, CursorMode::Min), (last_block - m, CursorMode::RegionEnd)] {
            let offs = if cursor == CursorMode::RegionEnd { &offs_end } else { &offs };
            for &fo in offs {
                v.push(Unit::Big { k, m, fo, los: offs.clone(), wb, wa, cursor });
            }
        }
    }
    v.extend(specials());
    let desc = json!({
        "window_positions": positions,
        "cursor_sweep_window_words": w_cursor,
        "big_object_first_last_offsets": offs.len(),
        "big_object_first_last_offsets_at_region_end": offs_end.len(),
        "big_object_block_distance": [1, 4],
        "big_object_first_blocks": ["1", "6", "last - m"],
        "big_object_neighbour_windows_words": [wb, wa],
    });
    (v, desc)
}

#[derive(Default, Clone)]
struct Stats {
    cases: u64,
    calls: u64,
    forwards: u64,
    nontrivial: u64,
    max_calls: u64,
    max_objects: u64,
    by_family: BTreeMap<String, u64>,
    /// dead gap (words, capped at 8) between consecutive live objects
    gaps: [u64; 9],
    /// whole blocks strictly inside one object (capped at 5)
    whole_blocks: [u64; 6],
    /// objects whose first word is the last word of a block / whose last word is the first of one
    first_word_is_last_of_block: u64,
    last_word_is_first_of_block: u64,
}

impl Stats {
    fn note(&mut self, family: &str, objs: &[Obj]) {
        self.cases += 1;
        let calls = 2 * objs.len() as u64 + 1 + objs.len() as u64;
        self.calls += calls;
        self.forwards += objs.len() as u64;
        self.max_calls = self.max_calls.max(calls);
        self.max_objects = self.max_objects.max(objs.len() as u64);
        *self.by_family.entry(family.to_string()).or_insert(0) += 1;
        let mut nontrivial = false;
        for (i, &(s, z)) in objs.iter().enumerate() {
            let (fb, lb) = (s / BLOCK_WORDS, (s + z - 1) / BLOCK_WORDS);
            if fb != lb {
                if i + 1 < objs.len() {
                    nontrivial = true;
                }
                let mut whole = lb - fb - 1;
                if s % BLOCK_WORDS == 0 {
                    whole += 1;
                }
                if (s + z) % BLOCK_WORDS == 0 {
                    whole += 1;
                }
                self.whole_blocks[(whole as usize).min(5)] += 1;
            }
            if s % BLOCK_WORDS == BLOCK_WORDS - 1 {
                self.first_word_is_last_of_block += 1;
            }
            if (s + z - 1) % BLOCK_WORDS == 0 {
                self.last_word_is_first_of_block += 1;
            }
            if i > 0 {
                let g = s - (objs[i - 1].0 + objs[i - 1].1);
                self.gaps[(g as usize).min(8)] += 1;
            }
        }
        if nontrivial {
            self.nontrivial += 1;
        }
    }
    fn merge(&mut self, o: &Stats) {
        self.cases += o.cases;
        self.calls += o.calls;
        self.forwards += o.forwards;
        self.nontrivial += o.nontrivial;
        self.max_calls = self.max_calls.max(o.max_calls);
        self.max_objects = self.max_objects.max(o.max_objects);
        for (k, n) in &o.by_family {
            *self.by_family.entry(k.clone()).or_insert(0) += n;
        }
        for i in 0..9 {
            self.gaps[i] += o.gaps[i];
        }
        for i in 0..6 {
            self.whole_blocks[i] += o.whole_blocks[i];
        }
        self.first_word_is_last_of_block += o.first_word_is_last_of_block;
        self.last_word_is_first_of_block += o.last_word_is_first_of_block;
    }
}

fn case_json(objs: &[Obj], cursor_pages: u32, descending: bool) -> Value {
    json!({
        "objects_first_word_and_words": objs.iter().map(|&(s, z)| json!([s, z])).collect::<Vec<_>>(),
        "cursor_pages": cursor_pages,
        "mark_descending": descending,
    })
}

struct Found {
    ordinal: u64,
    sig: String,
    msg: String,
    case: Value,
}

/// Run every case of a unit; report failures through `fail(ordinal within the unit, ...)`.
fn run_unit(a: &mut Arena, u: &Unit, st: &mut Stats, fail: &mut dyn FnMut(u64, Fail, Value)) {
    let mut objs: Vec<Obj> = vec![];
    let mut out: Vec<i64> = vec![];
    let mut one = |a: &mut Arena, st: &mut Stats, family: &str, objs: &[Obj], cursor: CursorMode, n: u64, fail: &mut dyn FnMut(u64, Fail, Value)| {
        let pages = cursor.pages(objs);
        let descending = n % 2 == 1;
        st.note(family, objs);
        if let Err(f) = a.run_case(objs, pages, descending, &mut out) {
            let layout = format!("{} layout {:?} cursor = region start + {} pages: ", family, objs, pages);
            fail(n, Fail { sig: f.sig, msg: layout + &f.msg }, case_json(objs, pages, descending));
        }
    };
    match u {
        Unit::Window { pos, p, w, cursor, lo, hi } => {
            let prefix = prefix_before(*p);
            for mask in *lo..*hi {
                objs.clear();
                objs.extend_from_slice(&prefix);
                decode_layout(*p, *w, mask, &mut objs);
                one(a, st, &format!("window{}:{}:{:?}", w, pos, cursor), &objs, *cursor, (mask - lo) as u64, fail);
            }
        }
        Unit::Big { k, m, fo, los, wb, wa, cursor } => {
            let first = k * BLOCK_WORDS + fo;
            let prefix = prefix_before(first - wb);
            let mut n = 0u64;
            for &lo in los {
                let last = (k + m) * BLOCK_WORDS + lo;
                let wa_eff = (*wa).min(REGION_WORDS - (last + 1));
                for before in 0..1u32 << (wb - 1) {
                    for after in 0..1u32 << wa_eff.saturating_sub(1) {
                        objs.clear();
                        objs.extend_from_slice(&prefix);
                        decode_layout(first - wb, *wb, before, &mut objs);
                        objs.push((first, last - first + 1));
                        if wa_eff > 0 {
                            decode_layout(last + 1, wa_eff, after, &mut objs);
                        }
                        let family = if *k > 6 { "big:region_end" } else if *k == 6 { "big:across_page_boundary" } else { "big:block_1" };
                        one(a, st, family, &objs, *cursor, n, fail);
                        n += 1;
                    }
                }
            }
        }
        Unit::Special { name, objs, cursor } => {
            one(a, st, &format!("special:{}", name), objs, *cursor, 0, fail);
            one(a, st, &format!("special:{}", name), objs, *cursor, 1, fail);
        }
    }
}

pub fn run(run: &mut Run) {
    init_side_metadata();
    let (units, space) = units(run.tier);
    let jobs = run.jobs.clamp(1, 16);
    let next = AtomicUsize::new(0);
    let dirty = AtomicUsize::new(0);
    let total: Mutex<Stats> = Mutex::new(Stats::default());
    let found: Mutex<Vec<Found>> = Mutex::new(vec![]);
    std::thread::scope(|s| {
        for t in 0..jobs {
            let (units, next, total, found, dirty) = (&units, &next, &total, &found, &dirty);
            s.spawn(move || {
                let mut a = Arena::new(t);
                let mut st = Stats::default();
                // first violating execution of every signature seen by this thread
                let mut mine: Vec<Found> = vec![];
                loop {
                    let i = next.fetch_add(1, Ordering::SeqCst);
                    if i >= units.len() {
                        break;
                    }
                    run_unit(&mut a, &units[i], &mut st, &mut |n, f, case| {
                        let ordinal = ((i as u64) << 32) | n;
                        match mine.iter_mut().find(|x| x.sig == f.sig) {
                            Some(x) if x.ordinal <= ordinal => {}
                            Some(x) => *x = Found { ordinal, sig: f.sig, msg: f.msg, case },
                            None => mine.push(Found { ordinal, sig: f.sig, msg: f.msg, case }),
                        }
                    });
                }
                if !a.is_clean() {
                    dirty.fetch_add(1, Ordering::SeqCst);
                }
                total.lock().unwrap().merge(&st);
                found.lock().unwrap().extend(mine);
            });
        }
    });
    let st = total.into_inner().unwrap();
    let mut found = found.into_inner().unwrap();
    // deterministic: the globally first execution of every signature, in enumeration order
    found.sort_by_key(|f| f.ordinal);
    // stray mark bits at the end are the driver's fault only if the code under test behaved
    if dirty.load(Ordering::SeqCst) != 0 && found.is_empty() {
        machinery_failure("C37: mark bits left behind by the driver");
    }
    for f in found {
        run.violation(f.sig, f.msg, f.case);
    }
    // samples: actual executions, re-run on a fresh arena
    let mut a = Arena::new(jobs);
    let mut out = vec![];
    let h = run.tier.pick(16u32, 24u32) / 2;
    let mut samples: Vec<(String, Vec<Obj>, CursorMode)> = vec![];
    let mut o = prefix_before(BLOCK_WORDS - h);
    decode_layout(BLOCK_WORDS - h, 2 * h, 0b0010_0100_1000_0010, &mut o);
    samples.push(("window across the first block boundary".into(), o, CursorMode::Min));
    let mut o = prefix_before(REGION_WORDS - 2 * h);
    decode_layout(REGION_WORDS - 2 * h, 2 * h, 0b0100_0000_0001_0100, &mut o);
    samples.push(("window at the region end".into(), o, CursorMode::RegionEnd));
    samples.push(("big object: first word = last word of block 6, last word = first word of block 9".into(), vec![(0, 2), (5, 4), (6 * 64 + 60, 3), (6 * 64 + 63, 2 * 64 + 2), (9 * 64 + 2, 2)], CursorMode::Min));
    samples.push(("one object = the whole region".into(), vec![(0, REGION_WORDS)], CursorMode::RegionEnd));
    for (what, objs, cursor) in samples {
        let pages = cursor.pages(&objs);
        let r = a.run_case(&objs, pages, false, &mut out);
        run.sample(json!({
            "what": what,
            "live_objects_[first_word,words]": objs.iter().map(|&(s, z)| json!([s, z])).collect::<Vec<_>>(),
            "cursor_pages": pages,
            "forward_word_offsets_from_region_start": out.clone(),
            "as_expected": r.is_ok(),
        }));
    }
    if !a.is_clean() && run.violations.is_empty() {
        machinery_failure("C37: mark bits left behind by the driver (samples)");
    }
    run.set("states", st.cases);
    run.set("transitions", st.calls);
    run.set("evaluations", st.forwards);
    run.set("traces_validated_against_impl", st.cases);
    run.set("distinct_nontrivial", st.nontrivial);
    run.set("exhaustive", true);
    run.set("max_depth", st.max_calls);
    run.set("max_live_objects_in_a_layout", st.max_objects);
    run.set("cases_by_family", json!(st.by_family));
    run.set("space", space);
    run.set(
        "dead_gap_words_between_consecutive_objects",
        json!(st.gaps.iter().enumerate().map(|(i, n)| (if i == 8 { "8+".to_string() } else { i.to_string() }, json!(n))).collect::<serde_json::Map<_, _>>()),
    );
    run.set(
        "whole_blocks_inside_a_block_straddling_object",
        json!(st.whole_blocks.iter().enumerate().map(|(i, n)| (if i == 5 { "5+".to_string() } else { i.to_string() }, json!(n))).collect::<serde_json::Map<_, _>>()),
    );
    run.set("objects_whose_first_word_is_the_last_word_of_a_block", st.first_word_is_last_of_block);
    run.set("objects_whose_last_word_is_the_first_word_of_a_block", st.last_word_is_first_of_block);
    run.set("threads", jobs as u64);
    run.set(
        "rule",
        "states = layouts executed (each on clean mark bits and a poisoned offset vector); transitions = real calls \
         (test_and_mark + mark_last_word_of_object per live object, calculate_offset_vector, forward per live object); \
         evaluations = forward() results compared with region start + total size of the earlier live objects; max_depth = \
         longest call sequence of one layout.  Space: every composition of a W-word window (1-word part = dead word, part of \
         k>=2 words = live object; 2^(W-1) layouts) at the region start, across the first block boundary, the block-3 \
         boundary, the page boundary at block 8, the last block boundary and at the region end (fixed live objects in front \
         of the window), with the minimal page-aligned cursor (region end for the last two, whose window is 22 words in the \
         thorough tier; see space.window_positions); the 16-word windows again with \
         cursor + 1 page and cursor = region end and at unbalanced straddles; one big object with first word at offset fo of \
         block k and last word at offset lo of block k+m (m = 1..4, k = 1, 6, last-m) x every layout of 5 words before and 5 \
         words after it; hand-made whole-region layouts.  Every layout is marked in ascending or descending address order \
         (alternating).  non-trivial = a live object straddles a 512-byte block boundary and at least one live object follows \
         it (the forwarding address of the follower depends on the state encoded at the block start)",
    );
    run.assume("objects are word-aligned, at least two words, non-overlapping, and end at or below the cursor; the cursor is page-aligned (RegionPageResource only produces such cursors) and within the region");
    run.assume("forward() is queried at object starts only (object reference == object start: UNIFIED_OBJECT_REFERENCE_ADDRESS)");
    run.assume("object sizes do not change between marking and forwarding (documented in compact_region)");
}

pub fn replay(case: &Value, run: &mut Run) {
    init_side_metadata();
    let objs: Vec<Obj> = case["objects_first_word_and_words"]
        .as_array()
        .map(|a| a.iter().map(|o| (o[0].as_u64().unwrap() as u32, o[1].as_u64().unwrap() as u32)).collect())
        .unwrap_or_else(|| machinery_failure("C37 replay: no objects"));
    let pages = case["cursor_pages"].as_u64().unwrap_or(REGION_PAGES as u64) as u32;
    let descending = case["mark_descending"].as_bool().unwrap_or(false);
    let mut a = Arena::new(0);
    let mut out = vec![];
    if let Err(f) = a.run_case(&objs, pages, descending, &mut out) {
        run.violation(f.sig, f.msg, case.clone());
    }
}
