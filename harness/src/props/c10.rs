//! C10 — out-of-memory and allocation-option contract.
//!
//! An allocation that cannot be satisfied calls `Collection::out_of_memory` only after at least
//! one collection was attempted for it (except requests larger than the maximum heap, which fail
//! immediately), never when `allow_oom_call` is false, and then returns null; an allocation with
//! `at_safepoint = false` never calls `block_for_gc`; one with `allow_overcommit` may exceed the
//! heap size without blocking; every call returns.
//!
//! Engine `shadowvm`: real plans behind the `VerifVM` binding in a fixed 8 MiB heap, one GC
//! worker.  Exhaustive product per plan: heap pre-state {empty, full of garbage, full of live
//! data} x request, and all ordered *pairs* of requests on the first two pre-states (history
//! dependence through `thrown_oom` / `allocation_success` / the emergency flag), where request =
//! (semantics, size) x all 8 `AllocationOptions`.  Every execution starts from a controlled
//! state: drop all roots + forced full collection, then the pre-state is rebuilt with
//! collections disabled by the binding (`Collection::is_collection_enabled`), so that the heap
//! is filled right up to the point where the next poll asks for a collection.  The oracle is a
//! set of monitors over the binding's upcall log of each request (see `RULE`).
//!
//! The harness thread plays the mutator.  A request that polls for a collection but does not
//! block (not at a safepoint, or over-committing) returns while the collection it triggered is
//! pending: as in a real VM the world is only stopped once the mutator has left the allocation
//! call (the binding's `stop_all_mutators` waits until the harness thread is `BLOCKED`), and the
//! harness thread then waits for that collection at a safepoint of its own (`quiesce`) before its
//! next call.

use crate::common::{catch, emit_child_result, machinery_failure, run_children, Run, Tier};
use crate::shadow_check::panic_slug;
use crate::shadowvm::{install_crash_handlers, set_current_case, worker_panic_to_crash, BootCfg, Fail, Sem, World, ALL_PLANS};
use crate::vm::*;
use mmtk::util::alloc::AllocationOptions;
use mmtk::util::Address;
use serde_json::{json, Value};
use std::sync::atomic::Ordering;

const RULE: &str = "per plan (11; fixed 8 MiB heap, 1 GC worker): heap pre-state {empty (after drop-all + full GC) | full of garbage | full of live data (rooted lists), filled with collections disabled until the plan reports collection_required} x request, request = (semantics, size) in {Default 64 B; Los, Immortal x {64 B, 1 MiB, heap-1 page, heap+1 page, usize::MAX/2 & !7, the largest size the allocator documents as legal}; NonMoving 64 B (plans where live/dead NonMoving objects are not a recorded defect); NoGC and PageProtect (no non-LOS limit): Default x all sizes; NoGC: empty pre-state only, no heap-1 page} x all 8 AllocationOptions {allow_overcommit, at_safepoint, allow_oom_call}; plus ordered pairs of requests: thorough: every first request x every second request with one of the 4 core option combinations on the garbage-full heap (MarkCompact, PageProtect: every first request x 2 probe requests {Default 64 B with default options; Los 1 MiB at a safepoint without the out_of_memory call}) and first x 2 probes on the empty heap; quick: first (4 core option combinations {safepoint without OOM call, default, no safepoint with OOM call, over-committing default}) x 2 probes on the garbage-full heap of SemiSpace, GenImmix, MarkSweep, Immix, and only the 4 core option combinations on the heap full of live data (PageProtect: on both full heaps, without Default above 64 B). Each execution starts from drop-all + forced full GC and a rebuilt pre-state, and its requests are made by a freshly bound second mutator (no thread-local buffer: even 64 B must be acquired from the space); the process is replaced by a fresh one when never-reclaimed memory (Immortal allocations and their 32 KiB buffers; measured as the growth of the reserved pages of the collected empty heap) exceeds 2 MiB. In addition, per collecting plan except ConcurrentImmix, a process booted with gc_trigger=DynamicHeapSize:4 MiB,16 MiB: Los requests of {5 MiB, 12 MiB, 16 MiB - 1 page, 16 MiB + 1 page} x all 8 options on its empty heap (between the current and the maximum heap size / above the maximum; only the out_of_memory / block_for_gc clauses apply there, with 'the heap' = the maximum). Monitors over the upcall log of each request: out_of_memory only if allow_oom_call; out_of_memory only after >= 1 completed collection within the request unless the request exceeds the heap size; a request that exceeds the heap size returns null without block_for_gc; null after out_of_memory; no block_for_gc if !at_safepoint; on the pre-states empty / full of garbage a request of <= heap/8 made at a safepoint succeeds without out_of_memory (it can be satisfied by collecting); allow_overcommit with size <= heap/4 (address space cannot be what runs out: MMTk reserves 2 x heap per space): no block_for_gc, no out_of_memory, and per (plan, full pre-state) at least one such request succeeds beyond the heap budget; a request never blocks for a collection more than 32 times (oom:hang:endless_collections: after the emergency collection the slow path must give up); the call returns (watchdog: 30 s of CPU time without progress inside the call; block_for_gc without a collection is a hang). distinct_nontrivial = executions in which a request could not be satisfied from the current heap (it polled for a collection, blocked, failed or over-committed)";

pub fn owns(sig: &str) -> bool {
    sig.starts_with("oom:")
}

fn own_all() -> bool {
    std::env::var("VERIF_OWN_ALL").is_ok()
}

const HEAP: usize = 8 << 20;
const PAGE: usize = 4096;
const MIB: usize = 1 << 20;
/// never-reclaimed bytes a process may accumulate before it is replaced by a fresh one
const IMMORTAL_BUDGET: usize = 2 * MIB;
const PRE_NAMES: [&str; 4] = ["empty", "full_of_garbage", "full_of_live_data", "empty_dynamic_heap"];
/// Job 3: the empty heap of a process booted with `gc_trigger=DynamicHeapSize:DYN_MIN,DYN_MAX`
/// (the heap starts at DYN_MIN and may grow to DYN_MAX), requests between the current and the
/// maximum heap size: "larger than the maximum heap" must mean the maximum, not the current size.
const DYN_MIN: usize = 4 << 20;
const DYN_MAX: usize = 16 << 20;

#[derive(Clone, Copy, Debug, PartialEq, Eq)]
struct Req {
    sem: Sem,
    size: usize,
    opts: u8, // bit 0 allow_overcommit, bit 1 at_safepoint, bit 2 allow_oom_call
}

impl Req {
    fn options(&self) -> AllocationOptions {
        AllocationOptions { allow_overcommit: self.opts & 1 != 0, at_safepoint: self.opts & 2 != 0, allow_oom_call: self.opts & 4 != 0 }
    }
    fn json(&self) -> Value {
        let o = self.options();
        json!({"sem": self.sem.name(), "size": self.size, "allow_overcommit": o.allow_overcommit, "at_safepoint": o.at_safepoint, "allow_oom_call": o.allow_oom_call})
    }
    fn from_json(v: &Value) -> Req {
        let b = |k: &str| v[k].as_bool().unwrap_or(false);
        Req { sem: Sem::from_name(v["sem"].as_str().unwrap_or("Default")), size: v["size"].as_u64().unwrap_or(64) as usize, opts: (b("allow_overcommit") as u8) | (b("at_safepoint") as u8) << 1 | (b("allow_oom_call") as u8) << 2 }
    }
    fn text(&self) -> String {
        let o = self.options();
        format!("alloc_with_options(size={:#x}, 8, 0, {}, {{allow_overcommit: {}, at_safepoint: {}, allow_oom_call: {}}})", self.size, self.sem.name(), o.allow_overcommit, o.at_safepoint, o.allow_oom_call)
    }
}

/// Whether the allocator behind (plan, sem) has a bump-pointer fast path that adds the size to
/// its cursor before any check (documented: "if overflow happens there, there is nothing we can
/// do about it").
fn has_fast_path(plan: &str, sem: Sem) -> bool {
    match sem {
        Sem::Los => plan == "NoGC",
        Sem::Default => plan != "PageProtect",
        _ => true,
    }
}

/// The largest size the allocator documents as legal: `usize::MAX - page` rounded down to a page
/// for the page-granular large-object allocator (mock_test_issue867: larger sizes overflow in its
/// page rounding); for allocators with a fast path the largest size that cannot overflow
/// `cursor + size` for any address of the 47-bit user address space.
fn largest_legal(plan: &str, sem: Sem) -> usize {
    if has_fast_path(plan, sem) {
        (usize::MAX - (1usize << 48)) & !(PAGE - 1)
    } else {
        (usize::MAX - PAGE) & !(PAGE - 1)
    }
}

fn nonmoving_usable(plan: &str) -> bool {
    matches!(plan, "SemiSpace" | "MarkSweep" | "Immix" | "PageProtect")
}

fn sem_sizes(plan: &str) -> Vec<(Sem, usize)> {
    let all = |sem: Sem| -> Vec<(Sem, usize)> {
        let mut v = vec![64, MIB, HEAP - PAGE, HEAP + PAGE, (usize::MAX / 2) & !7, largest_legal(plan, sem)];
        if plan == "NoGC" {
            // a request that fills the heap makes NoGC request a collection, which it documents as unreachable
            v.retain(|s| *s != HEAP - PAGE);
        }
        v.into_iter().map(|s| (sem, s)).collect()
    };
    let mut v = vec![];
    if plan == "NoGC" || plan == "PageProtect" {
        v.extend(all(Sem::Default));
    } else {
        v.push((Sem::Default, 64));
    }
    v.extend(all(Sem::Los));
    v.extend(all(Sem::Immortal));
    if nonmoving_usable(plan) {
        v.push((Sem::NonMoving, 64));
    }
    v
}

fn requests(plan: &str) -> Vec<Req> {
    let mut v = vec![];
    for (sem, size) in sem_sizes(plan) {
        for opts in 0..8u8 {
            v.push(Req { sem, size, opts });
        }
    }
    v
}

fn prestates(plan: &str) -> Vec<usize> {
    if plan == "NoGC" {
        // (NoGC replaces a dynamic heap by a fixed one)
        vec![0]
    } else if plan == "ConcurrentImmix" {
        // (with a growing heap its concurrent cycles race with the retrying request: the number of
        // pauses one request waits for depends on timing, 2 to 90 observed)
        vec![0, 1, 2]
    } else {
        vec![0, 1, 2, 3]
    }
}

/// The executions of one (plan, pre-state) in their fixed order.
/// Option combinations of the reduced sets: {at_safepoint, no out_of_memory call}, the default,
/// {not at a safepoint, out_of_memory call allowed}, {over-committing default}.
const CORE_OPTS: [u8; 4] = [0b010, 0b110, 0b100, 0b111];

fn cases(plan: &str, pre: usize, tier: Tier) -> Vec<Vec<Req>> {
    if pre == 3 {
        // above the initial (and, on an empty heap, the current) heap size but within the
        // maximum; just below the maximum; above the maximum
        let mut out = vec![];
        for size in [DYN_MIN + MIB, 3 * DYN_MAX / 4, DYN_MAX - PAGE, DYN_MAX + PAGE] {
            for opts in 0..8u8 {
                out.push(vec![Req { sem: Sem::Los, size, opts }]);
            }
        }
        return out;
    }
    let rs = requests(plan);
    let quick = tier == Tier::Quick;
    // quick: on the heap full of live data (the most expensive pre-state) the 4 core option combinations
    // (PageProtect pays two system calls per object: quick uses the core combinations on both
    // full pre-states and leaves out Default above 64 B, which takes the same path as Los there)
    let pp = quick && plan == "PageProtect" && pre > 0;
    let mut out: Vec<Vec<Req>> = rs
        .iter()
        .filter(|r| !(quick && pre == 2) || CORE_OPTS.contains(&r.opts))
        .filter(|r| !pp || (CORE_OPTS.contains(&r.opts) && !(r.sem == Sem::Default && r.size > 64)))
        .map(|r| vec![*r])
        .collect();
    // pairs: thorough on empty and garbage-full heaps; quick on the garbage-full heap of four plans
    let pairs = if quick { pre == 1 && matches!(plan, "SemiSpace" | "GenImmix" | "MarkSweep" | "Immix") } else { pre < 2 };
    if pairs {
        // (MarkCompact collections and PageProtect's per-object mprotect calls are too slow for the full product)
        let full_pairs = tier == Tier::Thorough && plan != "MarkCompact" && plan != "PageProtect" && pre == 1;
        let probes: Vec<Req> = if full_pairs {
            // second request: every (semantics, size) with the 4 core option combinations
            rs.iter().filter(|r| CORE_OPTS.contains(&r.opts)).cloned().collect()
        } else {
            vec![Req { sem: Sem::Default, size: 64, opts: 0b110 }, Req { sem: Sem::Los, size: MIB, opts: 0b010 }]
        };
        for a in rs.iter().filter(|r| !quick || CORE_OPTS.contains(&r.opts)) {
            for b in &probes {
                out.push(vec![*a, *b]);
            }
        }
    }
    out
}

fn never_reclaimed(plan: &str, sem: Sem) -> bool {
    plan == "NoGC" || sem == Sem::Immortal
}

// ---------------------------------------------------------------------------------------------

#[derive(Default)]
struct Obs {
    null: bool,
    ooms: usize,
    blocks: usize,
    gcs_in_call: usize,
    gcs_before_first_oom: usize,
    gcs_after_call: usize,
    beyond_heap: bool,
}

/// The mutator that makes the requests: bound after the pre-state has been built (by mutator 0),
/// so that it owns no thread-local buffer and even a 64-byte request has to go to the space.
const REQUESTER: usize = 1;

fn filler() -> &'static mut mmtk::Mutator<VerifVM> {
    with_state(|s| {
        let r = s.mutators.iter().find(|x| x.tls == MUTATOR_TLS_BASE).expect("mutator 0 not bound");
        unsafe { &mut *r.mutator }
    })
}

fn requester() -> &'static mut mmtk::Mutator<VerifVM> {
    with_state(|s| {
        let r = s.mutators.iter().find(|x| x.tls == MUTATOR_TLS_BASE + REQUESTER).expect("requesting mutator not bound");
        unsafe { &mut *r.mutator }
    })
}

/// The mutator reaches a safepoint outside any MMTk call: if a collection has been requested (by
/// a request that polled but did not block) it runs now, and the harness thread waits for it the
/// way `block_for_gc` does (the binding stops the world only when the harness thread is `BLOCKED`).
fn quiesce(w: &World) {
    let pending = |w: &World| with_state(|s| s.gc_active) || mmtk::util::verif::c03::gc_requested(w.mmtk);
    if !pending(w) {
        return;
    }
    BLOCKED.store(true, Ordering::SeqCst);
    while pending(w) {
        std::thread::sleep(std::time::Duration::from_micros(50));
    }
    BLOCKED.store(false, Ordering::SeqCst);
}

struct Ctx {
    w: World,
    plan: String,
    /// the maximum heap size of this process (HEAP, or DYN_MAX in the dynamic-heap job)
    heap_max: usize,
    dynamic: bool,
    requests_above_current_heap: u64,
    max_blocks_per_request: u64,
    /// reserved pages of the collected, empty heap: at the first case of the process / now
    boot_floor: Option<usize>,
    floor: usize,
    /// never-reclaimed bytes handed out by the requests of the current case so far
    case_immortal: usize,
    case_immortal_before: usize,
    immortal_used: usize,
    requests_made: u64,
    gcs_by_requests: u64,
    oom_calls: u64,
    blocks: u64,
    nulls: u64,
    overcommit_beyond_heap: u64,
    overcommit_null: u64,
    immediate_failures: u64,
    null_without_oom_call_at_safepoint: u64,
    fill_objects: u64,
}

impl Ctx {
    fn reserved_pages(&self) -> usize {
        self.w.mmtk.get_plan().get_reserved_pages()
    }

    /// Fill the heap (collections disabled) until the plan would ask for a collection.
    fn fill(&mut self, live: bool) -> Result<(), Fail> {
        COLLECTION_ENABLED.store(false, Ordering::SeqCst);
        // (PageProtect gives every object its own pages and protects them on release: larger objects)
        let sizes = if self.plan == "PageProtect" { [512usize << 10, 1 << 20, 256 << 10, 768 << 10] } else { [1024usize, 4096, 264, 2048] };
        let mut i = 0usize;
        let r = (|| {
            while !self.w.mmtk.get_plan().collection_required(false, None) && i < 200_000 {
                let (size, sem) = if i % 16 == 15 { (40 << 10, Sem::Los) } else { (sizes[i % 4], Sem::Default) };
                if !live {
                    // garbage: a well-formed unreachable object (descriptor + id words), not in the shadow heap
                    let sem = self.w.effective_sem(size, sem);
                    let a = self.w.alloc_raw(0, size, 8, 0, sem, None)?;
                    if a.is_zero() {
                        return Err(("oom:fill".to_string(), "filling the heap with collections disabled returned null".to_string()));
                    }
                    let id = NEXT_ID.fetch_add(1, Ordering::SeqCst);
                    write_word(a + 8usize, size | (3 << 48));
                    write_word(a + 16usize, id as usize);
                    let obj = mmtk::util::ObjectReference::from_raw_address(a).unwrap();
                    mmtk::memory_manager::post_alloc(filler(), obj, size, sem.to_mmtk());
                    i += 1;
                    crate::props::c03::tick();
                    continue;
                }
                let id = self.w.alloc_obj(0, 2, size, 1, 8, sem, false)?.ok_or(("oom:fill".to_string(), "filling the heap with collections disabled returned null".to_string()))?;
                if live {
                    let list = i % 2;
                    let head = self.w.root(0, list);
                    self.w.write_field(0, id, 0, head);
                    self.w.set_root(0, list, Some(id));
                }
                self.w.set_root(0, 2, None);
                i += 1;
                crate::props::c03::tick();
            }
            Ok(())
        })();
        self.fill_objects += i as u64;
        COLLECTION_ENABLED.store(true, Ordering::SeqCst);
        r
    }

    /// Bytes of the heap budget that nothing can reclaim any more (never-reclaimed allocations
    /// of earlier cases, including the 32 KiB buffers their allocators took), measured as the
    /// growth of the reserved pages of the collected, empty heap since the process started.
    fn lost_bytes(&self) -> usize {
        (self.floor.saturating_sub(self.boot_floor.unwrap_or(self.floor))) * PAGE
    }

    /// Ok(false): the process has used up its budget of never-reclaimed memory.
    fn establish(&mut self, pre: usize) -> Result<bool, Fail> {
        quiesce(&self.w);
        self.w.reset()?;
        self.floor = self.reserved_pages();
        self.case_immortal = 0;
        if self.boot_floor.is_none() {
            self.boot_floor = Some(self.floor);
        }
        if self.lost_bytes() > IMMORTAL_BUDGET {
            return Ok(false);
        }
        match pre {
            1 => self.fill(false)?,
            2 => self.fill(true)?,
            _ => {}
        }
        // (reset destroyed the previous requester)
        self.w.bind(REQUESTER);
        Ok(true)
    }

    /// One request, bracketed so that its upcalls can be told from everything else.
    fn request(&mut self, r: &Req) -> Result<Obs, (String, String, bool)> {
        quiesce(&self.w);
        let _ = take_events();
        note_request_base();
        crate::props::c03::tick();
        let sem = self.w.effective_sem(r.size, r.sem);
        self.case_immortal_before = self.case_immortal;
        let mu = requester();
        let reserved_before = self.reserved_pages();
        if self.dynamic && r.size > mmtk::memory_manager::total_bytes(self.w.mmtk) && r.size <= self.heap_max {
            self.requests_above_current_heap += 1;
        }
        crate::props::c03::watchdog_strict(true);
        let res = catch(|| mmtk::memory_manager::alloc_with_options(mu, r.size, 8, 0, sem.to_mmtk(), r.options()));
        crate::props::c03::watchdog_strict(false);
        let in_call = with_state(|s| s.events.len());
        // a successful allocation becomes a well-formed unreachable object before the mutator
        // reaches its next safepoint (never-reclaimed spaces: it stays unpublished memory)
        if let Ok(a) = &res {
            if !a.is_zero() && a.as_usize() % 8 == 0 && !never_reclaimed(&self.plan, sem) {
                let id = NEXT_ID.fetch_add(1, Ordering::SeqCst);
                write_word(*a + 8usize, r.size | (3 << 48));
                write_word(*a + 16usize, id as usize);
                let obj = mmtk::util::ObjectReference::from_raw_address(*a).unwrap();
                mmtk::memory_manager::post_alloc(mu, obj, r.size, sem.to_mmtk());
            }
        }
        let reserved_after = self.reserved_pages();
        self.requests_made += 1;
        let a = match res {
            Ok(a) => a,
            Err(pm) => {
                let loc = crate::common::last_panic_location();
                return Err((format!("oom:panic{}", panic_slug(&format!("{}:0: {}", loc, pm))), format!("{} panicked at {}: {}", r.text(), loc, pm.lines().next().unwrap_or("")), true));
            }
        };
        // the collection a non-blocking request triggered runs now
        quiesce(&self.w);
        let ev = take_events();
        let mut o = Obs { null: a.is_zero(), ..Default::default() };
        for (i, e) in ev.iter().enumerate() {
            match e {
                VmEvent::ResumeMutators => {
                    if i < in_call {
                        o.gcs_in_call += 1;
                        if o.ooms == 0 {
                            o.gcs_before_first_oom += 1;
                        }
                    } else {
                        o.gcs_after_call += 1;
                    }
                }
                VmEvent::OutOfMemory(..) => o.ooms += 1,
                VmEvent::BlockForGcEnter(_) => o.blocks += 1,
                _ => {}
            }
        }
        self.gcs_by_requests += (o.gcs_in_call + o.gcs_after_call) as u64;
        self.oom_calls += o.ooms as u64;
        self.blocks += o.blocks as u64;
        self.max_blocks_per_request = self.max_blocks_per_request.max(o.blocks as u64);
        if o.null {
            self.nulls += 1;
        }
        if !a.is_zero() {
            if a.as_usize() % 8 != 0 {
                return Err(("alloc:misaligned".into(), format!("{} returned {}", r.text(), a), false));
            }
            if never_reclaimed(&self.plan, sem) {
                self.immortal_used += r.size;
                self.case_immortal += r.size;
            }
            let o2 = r.options();
            if o2.allow_overcommit && reserved_after > self.heap_max / PAGE && reserved_after > reserved_before {
                self.overcommit_beyond_heap += 1;
                o.beyond_heap = true;
            }
        } else if r.options().allow_overcommit {
            self.overcommit_null += 1;
        }
        // heap verification after the collections of this request (failures belong to other properties)
        match catch(|| self.w.after_possible_gc()) {
            Ok(Ok(())) => {}
            Ok(Err((sig, msg))) => return Err((sig, msg, true)),
            Err(pm) => return Err((format!("panic{}", panic_slug(&format!("{}:0: {}", crate::common::last_panic_location(), pm))), pm, true)),
        }
        Ok(o)
    }

    /// The monitors.  Returns (signature class, message) of every rule broken.
    fn judge(&mut self, r: &Req, o: &Obs, pre: usize) -> Vec<(String, String)> {
        let opt = r.options();
        let heap = self.heap_max;
        let exceeds_heap = (r.size >> 12) > heap / PAGE;
        let t = r.text();
        let mut v: Vec<(String, String)> = vec![];
        if o.ooms > 0 && !opt.allow_oom_call {
            v.push(("oom:oom_call_not_allowed".into(), format!("{}: out_of_memory was called {} time(s) although allow_oom_call is false ({} collections completed within the request)", t, o.ooms, o.gcs_in_call)));
        }
        if o.ooms > 0 && !exceeds_heap && o.gcs_before_first_oom == 0 {
            v.push(("oom:oom_before_any_collection".into(), format!("{}: out_of_memory was called before any collection was attempted for the request (size <= maximum heap size {:#x})", t, heap)));
        }
        if o.ooms > 0 && !o.null {
            v.push(("oom:nonnull_after_oom".into(), format!("{}: out_of_memory was called and the call then returned a non-null address", t)));
        }
        if !opt.at_safepoint && o.blocks > 0 {
            v.push(("oom:blocked_not_at_safepoint".into(), format!("{}: block_for_gc was called {} time(s) although at_safepoint is false", t, o.blocks)));
        }
        if exceeds_heap {
            self.immediate_failures += 1;
            if !o.null {
                v.push(("oom:larger_than_heap_succeeded".into(), format!("{}: a request larger than the maximum heap ({:#x}) returned a non-null address", t, heap)));
            }
            if o.blocks > 0 || o.gcs_in_call > 0 {
                v.push(("oom:larger_than_heap_not_immediate".into(), format!("{}: a request larger than the maximum heap ({:#x}) must fail immediately, but block_for_gc was called {} time(s) and {} collection(s) ran within the request", t, heap, o.blocks, o.gcs_in_call)));
            }
        } else if opt.allow_overcommit && r.size <= HEAP / 4 && !self.dynamic {
            // (MMTk reserves 2 x heap of address space per space: a request of up to a quarter
            // of the heap always finds address space, so nothing but the heap budget is in its way)
            if o.blocks > 0 {
                v.push(("oom:overcommit_blocked".into(), format!("{}: block_for_gc was called {} time(s) although the request may over-commit and memory is available", t, o.blocks)));
            }
            if o.ooms > 0 {
                v.push(("oom:overcommit_oom".into(), format!("{}: out_of_memory was called although the request may over-commit and memory is available", t)));
            }
        }
        // "cannot be satisfied": in a heap that holds nothing but garbage a collection frees
        // everything, so a request of at most an eighth of the heap made at a safepoint can be
        // satisfied (unless never-reclaimed allocations of this process have used up the heap)
        if pre < 2 && !self.dynamic && opt.at_safepoint && r.size <= HEAP / 8 && self.lost_bytes() + self.case_immortal_before + r.size <= 3 * MIB && (o.null || o.ooms > 0) {
            v.push(("oom:failed_although_satisfiable".into(), format!("{}: the heap holds only garbage, yet the request returned {} after {} out_of_memory call(s), {} block_for_gc call(s) and {} collection(s) within the request", t, if o.null { "null" } else { "an address" }, o.ooms, o.blocks, o.gcs_in_call)));
        }
        if o.null && opt.at_safepoint && opt.allow_oom_call && o.ooms == 0 {
            self.null_without_oom_call_at_safepoint += 1;
        }
        v
    }
}

/// The class of a request for the purpose of not re-running requests that already hung.
fn hang_class(r: &Req) -> String {
    format!("H:{}:{}", r.opts, (r.size >> 12) > HEAP / PAGE)
}

/// The class of a request for the purpose of not re-running requests that already panicked.
fn panic_class(r: &Req) -> String {
    format!("P:{}:{}:{}", r.sem.name(), r.size, r.opts & 1)
}

fn case_json(plan: &str, tier: Tier, pre: usize, ordinal: usize, reqs: &[Req], at: usize) -> Value {
    json!({"plan": plan, "tier": tier.name(), "pre": pre, "ordinal": ordinal, "requests": reqs.iter().map(|r| r.json()).collect::<Vec<_>>(), "request_running": at})
}

/// args: plan tier run|replay pre from [case-json single|prefix]
pub fn child(args: &[String]) {
    let plan = args[0].clone();
    let tier = if args.get(1).map(|s| s.as_str()) == Some("thorough") { Tier::Thorough } else { Tier::Quick };
    let mode = args.get(2).map(|s| s.as_str()).unwrap_or("run").to_string();
    let pre: usize = args.get(3).and_then(|s| s.parse().ok()).unwrap_or(0);
    let from: usize = args.get(4).and_then(|s| s.parse().ok()).unwrap_or(0);
    install_crash_handlers();
    let _ = crate::common::WORKER_PANIC_HANDLER.set(Box::new(worker_panic_to_crash));
    set_current_case(&json!({"plan": plan, "pre": pre, "phase": "boot"}));
    crate::props::c03::set_watchdog_limit_ms(30_000);
    crate::props::c03::start_watchdog();
    let mut cfg = BootCfg::new(&plan);
    cfg.heap_bytes = HEAP;
    if pre == 3 {
        cfg.heap_bytes = DYN_MAX;
        cfg.options.push(("gc_trigger".to_string(), format!("DynamicHeapSize:{},{}", DYN_MIN, DYN_MAX)));
    }
    let mut w = World::boot(cfg);
    w.monitor_c11 = false;
    let mut c = Ctx { w, plan: plan.clone(), heap_max: if pre == 3 { DYN_MAX } else { HEAP }, dynamic: pre == 3, requests_above_current_heap: 0, max_blocks_per_request: 0, boot_floor: None, floor: 0, case_immortal: 0, case_immortal_before: 0, immortal_used: 0, requests_made: 0, gcs_by_requests: 0, oom_calls: 0, blocks: 0, nulls: 0, overcommit_beyond_heap: 0, overcommit_null: 0, immediate_failures: 0, null_without_oom_call_at_safepoint: 0, fill_objects: 0 };
    let all = cases(&plan, pre, tier);
    let (list, first_ordinal): (Vec<Vec<Req>>, usize) = if mode == "replay" {
        let case: Value = serde_json::from_str(&args[5]).unwrap_or(Value::Null);
        let ord = case["ordinal"].as_u64().unwrap_or(0) as usize;
        if args.get(6).map(|s| s.as_str()) == Some("prefix") {
            // the cases of the process that ran it: from its first ordinal
            let start = case["process_first_ordinal"].as_u64().unwrap_or(0) as usize;
            (all[start.min(all.len())..(ord + 1).min(all.len())].to_vec(), start)
        } else {
            (vec![case["requests"].as_array().map(|a| a.iter().map(Req::from_json).collect()).unwrap_or_default()], ord)
        }
    } else {
        (all[from.min(all.len())..].to_vec(), from)
    };
    // request classes (options, larger-than-heap) that already hung in an earlier process of this job
    let skip: Vec<String> = if mode == "run" {
        args.get(5).and_then(|s| serde_json::from_str::<Value>(s).ok()).and_then(|v| v.as_array().map(|a| a.iter().filter_map(|x| x.as_str().map(|s| s.to_string())).collect())).unwrap_or_default()
    } else {
        vec![]
    };
    let mut skipped = 0u64;
    let mut sub = Run::new("C10", tier);
    let label = format!("{}/{}", plan, PRE_NAMES[pre]);
    let mut next = first_ordinal;
    let mut executed = 0u64;
    let mut nontrivial = 0u64;
    let mut stopped = false;
    let mut pair_cases = 0u64;
    let mut panic_resume: Option<String> = None;
    let mut found: Vec<Value> = vec![];
    'cases: for reqs in &list {
        let ordinal = next;
        if reqs.iter().any(|r| skip.contains(&hang_class(r)) || skip.contains(&panic_class(r))) {
            skipped += 1;
            next += 1;
            continue;
        }
        set_current_case(&json!({"plan": plan, "pre": pre, "ordinal": ordinal, "phase": "prestate", "process_first_ordinal": first_ordinal}));
        match catch(|| c.establish(pre)) {
            Ok(Ok(true)) => {}
            Ok(Ok(false)) => {
                if mode == "run" && executed > 0 {
                    break;
                }
                // (a replay, or a process that cannot even run one case: go on regardless)
                if let Err(e) = catch(|| -> Result<(), Fail> {
                    match pre {
                        1 => c.fill(false)?,
                        2 => c.fill(true)?,
                        _ => {}
                    }
                    c.w.bind(REQUESTER);
                    Ok(())
                }) {
                    sub.assume(&format!("{}: establishing the pre-state of case #{} panicked: {}", label, ordinal, e.lines().next().unwrap_or("")));
                    stopped = true;
                    break;
                }
            }
            Ok(Err((sig, msg))) => {
                sub.assume(&format!("{}: establishing the pre-state of case #{} failed with a failure of another property's class ({}: {})", label, ordinal, sig, msg));
                stopped = true;
                break;
            }
            Err(pm) => {
                sub.assume(&format!("{}: establishing the pre-state of case #{} panicked: {}", label, ordinal, pm.lines().next().unwrap_or("")));
                stopped = true;
                break;
            }
        }
        let mut hard = false;
        for (k, r) in reqs.iter().enumerate() {
            let mut cj = case_json(&plan, tier, pre, ordinal, reqs, k);
            cj["phase"] = json!("request");
            cj["process_first_ordinal"] = json!(first_ordinal);
            let mut with_so_far = cj.clone();
            with_so_far["so_far"] = json!({"executed": executed, "requests": c.requests_made, "nontrivial": nontrivial, "pairs": pair_cases, "violations": found});
            set_current_case(&with_so_far);
            match c.request(r) {
                Ok(o) => {
                    if o.null || o.blocks > 0 || o.gcs_in_call + o.gcs_after_call > 0 || o.beyond_heap {
                        hard = true;
                    }
                    for (sig, msg) in c.judge(r, &o, pre) {
                        let full = format!("{}:{}", sig, plan);
                        if found.len() < 6 && !found.iter().any(|f: &Value| f["signature"] == full.as_str()) {
                            found.push(json!({"signature": full, "message": format!("plan {} pre-state {} case #{}: {}", plan, PRE_NAMES[pre], ordinal, msg).chars().take(500).collect::<String>(), "case": cj}));
                        }
                        sub.violation(format!("{}:{}", sig, plan), format!("plan {} pre-state {} request {} of case #{} {}: {}", plan, PRE_NAMES[pre], k + 1, ordinal, json!(reqs.iter().map(|r| r.text()).collect::<Vec<_>>()), msg), cj.clone());
                    }
                    if executed % 97 == 5 && k + 1 == reqs.len() {
                        sub.sample(json!({"plan": plan, "pre_state": PRE_NAMES[pre], "requests": reqs.iter().map(|r| r.json()).collect::<Vec<_>>(), "last_request": {"returned_null": o.null, "out_of_memory_calls": o.ooms, "block_for_gc_calls": o.blocks, "collections_within_call": o.gcs_in_call, "collections_after_call": o.gcs_after_call}}));
                    }
                }
                Err((sig, msg, _)) => {
                    if owns(&sig) || own_all() {
                        sub.violation(format!("{}:{}", sig, plan), format!("plan {} pre-state {} request {} of case #{}: {}", plan, PRE_NAMES[pre], k + 1, ordinal, msg), cj);
                    } else {
                        sub.assume(&format!("{}: exploration stopped at case #{} by a failure of another property's class ({})", label, ordinal, sig));
                        sub.set("foreign_failures", json!([format!("{}: {} (case #{} {})", sig, msg, ordinal, json!(reqs.iter().map(|r| r.text()).collect::<Vec<_>>()))]));
                    }
                    // the instance is no longer trustworthy
                    stopped = true;
                    if sig.starts_with("oom:panic") {
                        panic_resume = Some(panic_class(r));
                    }
                    next += 1;
                    executed += 1;
                    break 'cases;
                }
            }
        }
        if hard {
            nontrivial += 1;
        }
        if reqs.len() > 1 {
            pair_cases += 1;
        }
        executed += 1;
        next += 1;
    }
    sub.add("states", executed);
    sub.add("transitions", c.requests_made);
    sub.add("evaluations", executed);
    sub.add("traces_validated_against_impl", executed);
    sub.add("distinct_nontrivial", nontrivial);
    sub.add("pair_executions", pair_cases);
    sub.add("collections_caused_by_requests", c.gcs_by_requests);
    sub.add("out_of_memory_upcalls", c.oom_calls);
    sub.add("block_for_gc_upcalls", c.blocks);
    sub.add("requests_returning_null", c.nulls);
    sub.add("requests_larger_than_heap", c.immediate_failures);
    sub.add("overcommit_successes_beyond_heap", c.overcommit_beyond_heap);
    sub.add("overcommit_requests_returning_null", c.overcommit_null);
    sub.add("null_at_safepoint_with_oom_call_allowed_but_not_made", c.null_without_oom_call_at_safepoint);
    sub.add("objects_allocated_to_fill_heaps", c.fill_objects);
    sub.add("collections", c.w.stats.gcs);
    sub.add("processes", 1);
    sub.set("max_block_for_gc_upcalls_of_one_request", c.max_blocks_per_request);
    sub.add("requests_between_current_and_maximum_heap_size", c.requests_above_current_heap);
    sub.add("cases_skipped_after_hang_of_same_request_class", skipped);
    sub.set("max_depth", 2u64);
    let mut out = sub.to_child_json();
    out["next"] = json!(next);
    out["total"] = json!(all.len());
    out["stopped"] = json!(stopped);
    out["panic_resume"] = json!(panic_resume);
    out["overcommit_beyond_heap"] = json!(c.overcommit_beyond_heap);
    emit_child_result(&out);
}

/// Fold a crashed child into the run.  Returns true if the job can continue after the crash case.
fn absorb_crash(run: &mut Run, name: &str, r: &Value) -> Option<(usize, String)> {
    let crash = r["crash"].as_str().unwrap_or("");
    let (sig, rest) = crash.split_once(' ').unwrap_or((crash, ""));
    let (case_s, detail) = rest.split_once(" ||| ").unwrap_or((rest, ""));
    let case: Value = serde_json::from_str(case_s).unwrap_or(json!({"child": name, "raw": case_s}));
    let phase = case["phase"].as_str().unwrap_or("").to_string();
    let phase = phase.as_str();
    let plan = case["plan"].as_str().unwrap_or("").to_string();
    run.add("children_crashed", 1);
    // what the process had done before it died
    let sf = case["so_far"].clone();
    for k in ["states", "evaluations", "traces_validated_against_impl"] {
        run.add(k, sf["executed"].as_u64().unwrap_or(0));
    }
    run.add("transitions", sf["requests"].as_u64().unwrap_or(0));
    run.add("distinct_nontrivial", sf["nontrivial"].as_u64().unwrap_or(0));
    run.add("pair_executions", sf["pairs"].as_u64().unwrap_or(0));
    if let Some(a) = sf["violations"].as_array() {
        for x in a {
            run.violation(x["signature"].as_str().unwrap_or("?").to_string(), x["message"].as_str().unwrap_or("").to_string(), x["case"].clone());
        }
    }
    let mut case = case;
    if let Some(o) = case.as_object_mut() {
        o.remove("so_far");
    }
    if detail.starts_with("HANG") && phase == "request" {
        let k = case["request_running"].as_u64().unwrap_or(0) as usize;
        let r = Req::from_json(&case["requests"][k]);
        let class = if detail.contains("endless_collections") {
            "oom:hang:endless_collections"
        } else if detail.contains("inside block_for_gc: true, collection pending or running: false") {
            "oom:hang:block_for_gc_without_collection"
        } else {
            "oom:hang"
        };
        let ord = case["ordinal"].as_u64().unwrap_or(0) as usize;
        run.violation(format!("{}:{}", class, plan), format!("{} case #{} request {}: {} did not return: {}", name, case["ordinal"], k + 1, r.text(), detail), case);
        return Some((ord, hang_class(&r)));
    } else if sig != "WORKER-PANIC" && phase == "request" {
        run.violation(format!("oom:panic:signal_{}:{}", sig, plan), format!("{} case #{}: the process died with {} inside a request", name, case["ordinal"], sig), case);
    } else if own_all() {
        run.violation(format!("crash:{}:{}", sig, name), format!("{}: {} in phase {} {}", name, sig, phase, detail), case);
    } else {
        run.assume(&format!("{}: exploration stopped by a crash ({} in phase '{}', case #{} of the process started at case #{}) that belongs to another property's failure class: {}", name, sig, phase, case["ordinal"], case["process_first_ordinal"], detail.chars().take(200).collect::<String>()));
    }
    None
}

/// Run the cases of one (plan, pre-state), replacing the process whenever it has used up its
/// budget of never-reclaimed memory.
fn run_job(plan: &str, pre: usize, tier: Tier, timeout: u64) -> (Run, bool) {
    let mut acc = Run::new("C10", tier);
    let name = format!("{}/{}", plan, PRE_NAMES[pre]);
    let mut from = 0usize;
    let mut complete = true;
    let mut beyond = 0u64;
    let mut skip: Vec<String> = vec![];
    loop {
        let skip_s = serde_json::to_string(&skip).unwrap();
        let args = vec!["--child".to_string(), "C10".to_string(), plan.to_string(), tier.name().to_string(), "run".to_string(), pre.to_string(), from.to_string(), skip_s];
        let r = run_children(vec![args], 1, timeout).pop().unwrap();
        if r.get("child_crashed").is_some() {
            complete = false;
            match absorb_crash(&mut acc, &name, &r) {
                // a request that did not return: go on behind it in a fresh process, without
                // re-running requests of the same class (options, larger than the heap)
                Some((ord, class)) if skip.len() < 8 => {
                    skip.push(class);
                    from = ord + 1;
                    continue;
                }
                _ => break,
            }
        }
        if r.get("child_died").is_some() && r["stderr_tail"].as_str().map(|t| t.contains("waited 60 s")).unwrap_or(false) {
            acc.assume(&format!("{}: exploration stopped: the binding gave up waiting for a collection ({})", name, r["stderr_tail"].as_str().unwrap_or("").lines().last().unwrap_or("")));
            acc.add("children_stopped_by_gc_wait_guard", 1);
            complete = false;
            break;
        }
        if r.get("child_died").is_some() {
            // (reported as a machinery failure once every job has finished: no orphans)
            acc.set("machinery_failure", format!("C10 child {} (from case {}) died without a result: {}", name, from, r));
            complete = false;
            break;
        }
        acc.absorb_child_json(&r);
        beyond += r["overcommit_beyond_heap"].as_u64().unwrap_or(0);
        let next = r["next"].as_u64().unwrap_or(0) as usize;
        let total = r["total"].as_u64().unwrap_or(0) as usize;
        if r["stopped"].as_bool().unwrap_or(false) {
            complete = false;
            // a request that panicked: go on behind it in a fresh process without the
            // requests of the same class (semantics, size, allow_overcommit)
            match r["panic_resume"].as_str() {
                Some(class) if skip.len() < 8 && next > from => {
                    skip.push(class.to_string());
                    from = next;
                    continue;
                }
                _ => break,
            }
        }
        if next >= total {
            break;
        }
        if next <= from {
            machinery_failure(&format!("C10 child {} made no progress from case {}", name, from));
        }
        from = next;
    }
    if complete && (pre == 1 || pre == 2) && beyond == 0 {
        acc.violation(format!("oom:overcommit_never_exceeds_heap:{}", plan), format!("{}: no allow_overcommit request ever succeeded beyond the heap budget", name), json!({"plan": plan, "tier": tier.name(), "pre": pre, "ordinal": 0, "requests": [], "aggregate": true}));
    }
    (acc, complete)
}

pub fn run(run: &mut Run) {
    let mut jobs: Vec<(String, usize)> = vec![];
    for pre in [1usize, 0, 2, 3] {
        for p in crate::props::c03::selected_plans() {
            if prestates(p).contains(&pre) {
                jobs.push((p.to_string(), pre));
            }
        }
    }
    let tier = run.tier;
    let timeout = tier.pick(900, 6000);
    let next = std::sync::atomic::AtomicUsize::new(0);
    let results: std::sync::Mutex<Vec<Option<(Run, bool)>>> = std::sync::Mutex::new((0..jobs.len()).map(|_| None).collect());
    std::thread::scope(|s| {
        for _ in 0..run.jobs.max(1).min(jobs.len()) {
            s.spawn(|| loop {
                let i = next.fetch_add(1, Ordering::SeqCst);
                if i >= jobs.len() {
                    break;
                }
                let r = run_job(&jobs[i].0, jobs[i].1, tier, timeout);
                results.lock().unwrap()[i] = Some(r);
            });
        }
    });
    let mut exhaustive = true;
    for r in results.into_inner().unwrap() {
        let (sub, complete) = r.unwrap();
        if let Some(m) = sub.coverage.get("machinery_failure").and_then(|v| v.as_str()) {
            machinery_failure(m);
        }
        exhaustive &= complete;
        run.absorb_child_json(&sub.to_child_json());
    }
    run.set("exhaustive", exhaustive);
    run.set("rule", RULE);
    run.set("plans", json!(crate::props::c03::selected_plans()));
    run.set("heap_bytes", HEAP as u64);
    run.set("placement", PLACEMENT);
    run.set("features", json!(crate::shadowvm::feature_set()));
    run.assume("one mutator, one GC worker; the binding's out_of_memory returns normally; 'a collection was attempted' = a collection completed (resume_mutators) within the request before the upcall");
    run.assume("NonMoving requests only on SemiSpace, MarkSweep, Immix, PageProtect (objects with NonMoving semantics crash or corrupt other plans: recorded under C01); NoGC: empty pre-state and requests that do not fill the heap only (NoGC documents a requested collection as unreachable)");
}

pub fn replay(case: &Value, run: &mut Run) {
    if case["aggregate"].as_bool().unwrap_or(false) {
        let tier = if case["tier"].as_str() == Some("thorough") { Tier::Thorough } else { Tier::Quick };
        let (sub, _) = run_job(case["plan"].as_str().unwrap_or(""), case["pre"].as_u64().unwrap_or(1) as usize, tier, 3000);
        run.absorb_child_json(&sub.to_child_json());
        return;
    }
    let plan = case["plan"].as_str().unwrap_or("SemiSpace").to_string();
    let tier = case["tier"].as_str().unwrap_or(run.tier.name()).to_string();
    let pre = case["pre"].as_u64().unwrap_or(0) as usize;
    let name = format!("{}/{}", plan, PRE_NAMES[pre.min(3)]);
    let base = vec!["--child".to_string(), "C10".to_string(), plan.clone(), tier, "replay".to_string(), pre.to_string(), "0".to_string(), serde_json::to_string(case).unwrap()];
    let mut go = |args: Vec<String>, run: &mut Run| {
        let r = run_children(vec![args], 1, 3000).pop().unwrap();
        if r.get("child_crashed").is_some() {
            let _ = absorb_crash(run, &name, &r);
        } else if r.get("child_died").is_some() {
            machinery_failure(&format!("C10 replay child died: {}", r));
        } else {
            run.absorb_child_json(&r);
        }
    };
    let before = run.violations.len();
    go(base.clone(), run);
    if run.violations.len() == before {
        let mut a = base;
        a.push("prefix".to_string());
        go(a, run);
    }
}
