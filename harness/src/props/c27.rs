//! C27 raw-memory free list growth: every (units, heads, pages_per_block, grain) in a grid that
//! straddles page and block boundaries of the table x every growth composition through a set of
//! interesting intermediate totals, on the real `RawMemoryFreeList` in a reserved window.

use super::c26::{decode, reserve_window, reset_window};
use crate::common::{catch, Run};
use mmtk::util::os::MmapStrategy;
use mmtk::util::verif::{FreeList, RawMemoryFreeList, FREELIST_FAILURE};
use mmtk::util::Address;
use serde_json::{json, Value};
use std::collections::BTreeSet;

const PAGE: usize = 4096;
const UNITS_PER_PAGE: i32 = 512;

struct Probe {
    rd: i32,
    wr: i32,
}

impl Probe {
    fn new() -> Probe {
        let mut fds = [0i32; 2];
        assert_eq!(unsafe { libc::pipe(fds.as_mut_ptr()) }, 0);
        Probe { rd: fds[0], wr: fds[1] }
    }
    /// Is the byte at `a` readable?  (write(2) from an inaccessible buffer fails with EFAULT.)
    fn readable(&self, a: Address) -> bool {
        let n = unsafe { libc::write(self.wr, a.to_ptr::<libc::c_void>(), 1) };
        if n == 1 {
            let mut b = 0u8;
            unsafe { libc::read(self.rd, &mut b as *mut u8 as *mut libc::c_void, 1) };
            true
        } else {
            false
        }
    }
}

impl Drop for Probe {
    fn drop(&mut self) {
        unsafe {
            libc::close(self.rd);
            libc::close(self.wr);
        }
    }
}

#[derive(Clone, Debug)]
struct Case {
    units: i32,
    heads: i32,
    ppb: i32,
    grain: i32,
    /// cumulative totals after each growth step; last == units
    totals: Vec<i32>,
}

fn case_json(c: &Case) -> Value {
    json!({"units": c.units, "heads": c.heads, "pages_per_block": c.ppb, "grain": c.grain, "totals": c.totals})
}

fn run_case(c: &Case, window: Address, window_bytes: usize, probe: &Probe) -> Result<bool, (String, String)> {
    reset_window(window, window_bytes);
    let pages = RawMemoryFreeList::size_in_pages(c.units, c.heads) as usize;
    let limit = window + pages * PAGE;
    assert!(pages * PAGE + PAGE <= window_bytes);
    let mut list = RawMemoryFreeList::new(window, limit, c.ppb, c.units, c.grain, c.heads, MmapStrategy::RAW_MEMORY_FREELIST);
    let mut cur = 0;
    let mut clamped = false;
    for (i, &t) in c.totals.iter().enumerate() {
        let step = t - cur;
        let hw_before = list.verif_high_water();
        let r = catch(|| list.grow_freelist(step));
        match r {
            Err(p) => {
                return Err((
                    "grow:panic".into(),
                    format!("grow_freelist({}) (step {}, {} -> {} of max {}) panicked: {} @ {}", step, i, cur, t, c.units, p, crate::common::last_panic_location()),
                ))
            }
            Ok(false) => return Err(("grow:refused".into(), format!("grow_freelist({}) (step {}, {} -> {} of max {}) returned false", step, i, cur, t, c.units))),
            Ok(true) => {}
        }
        cur = t;
        let hw = list.verif_high_water();
        if hw > limit {
            return Err(("grow:beyond_limit".into(), format!("high water {} beyond limit {} after growing to {}", hw, limit, t)));
        }
        if hw < hw_before {
            return Err(("grow:high_water_decreased".into(), format!("high water went from {} to {}", hw_before, hw)));
        }
        // a block that would have crossed the limit was clamped
        if hw == limit && (hw - window) % (c.ppb as usize * PAGE) != 0 {
            clamped = true;
        }
        // nothing mapped at or beyond the limit; everything below the high water mapped
        if probe.readable(limit) {
            return Err(("grow:mapped_beyond_limit".into(), format!("page at limit {} is mapped after growing to {}", limit, t)));
        }
        let mut a = window;
        while a < hw {
            if !probe.readable(a) {
                return Err(("grow:unmapped_below_high_water".into(), format!("page {} below high water {} is not mapped", a, hw)));
            }
            a += PAGE;
        }
        if list.verif_current_units() != t {
            return Err(("grow:current_units".into(), format!("current units {} after growing to {}", list.verif_current_units(), t)));
        }
        // every unit of [0, t) is on the free list
        let (runs, lists, _) = decode(&list, t, c.heads).map_err(|m| ("grow:table".to_string(), format!("after growing to {}: {}", t, m)))?;
        let free: i32 = runs.values().filter(|(_, f)| *f).map(|(l, _)| *l).sum();
        if free != t || lists[0].len() != runs.len() {
            return Err(("grow:units_lost".into(), format!("after growing to {}: {} units free in {} runs, {} runs linked", t, free, runs.len(), lists[0].len())));
        }
    }
    // beyond the maximum: refused
    match catch(|| list.grow_freelist(1)) {
        Ok(false) => {}
        Ok(true) => return Err(("grow:beyond_max".into(), "grow_freelist(1) beyond the configured maximum returned true".into())),
        Err(p) => return Err(("grow:beyond_max_panic".into(), format!("grow_freelist(1) beyond the maximum panicked: {}", p))),
    }
    // every unit usable by alloc
    let mut seen = BTreeSet::new();
    for k in 0..c.units {
        let u = catch(|| list.alloc(1)).map_err(|p| ("alloc:panic".to_string(), format!("alloc(1) #{} panicked: {}", k, p)))?;
        if u == FREELIST_FAILURE {
            return Err(("alloc:exhausted_early".into(), format!("alloc(1) #{} of {} failed", k, c.units)));
        }
        if u < 0 || u >= c.units || !seen.insert(u) {
            return Err(("alloc:bad_unit".into(), format!("alloc(1) #{} returned {}", k, u)));
        }
    }
    if list.alloc(1) != FREELIST_FAILURE {
        return Err(("alloc:extra".into(), "alloc(1) succeeded after all units were allocated".into()));
    }
    Ok(clamped || c.totals.len() > 1)
}

fn interesting_totals(units: i32, heads: i32, ppb: i32) -> Vec<i32> {
    let upb = ppb * UNITS_PER_PAGE;
    let first = upb - heads - 1;
    let mut s = BTreeSet::new();
    for x in [1, 2, units / 2, units - 1] {
        s.insert(x);
    }
    for b in 0..8 {
        for d in -1..=(heads + 2) {
            s.insert(first + b * upb + d);
        }
    }
    s.into_iter().filter(|x| *x >= 1 && *x < units).collect()
}

fn cases(run: &Run) -> Vec<Case> {
    let thorough = run.tier == crate::common::Tier::Thorough;
    let mut out = vec![];
    let mut unit_counts: BTreeSet<i32> = (1..=if thorough { 40 } else { 12 }).collect();
    // table sizes within +-2 units of every page boundary up to max_pages
    let max_pages = if thorough { 34 } else { 18 };
    for heads in 1..=2 {
        for p in 1..=max_pages {
            for d in -2..=2 {
                let u = p * UNITS_PER_PAGE - heads - 1 + d;
                if u >= 1 {
                    unit_counts.insert(u);
                }
            }
        }
    }
    for &units in &unit_counts {
        for heads in 1..=2 {
            let pages = RawMemoryFreeList::size_in_pages(units, heads);
            let mut ppbs: BTreeSet<i32> = [1, 2, 16, RawMemoryFreeList::default_block_size(units, heads)].into_iter().collect();
            if thorough {
                ppbs.insert(3);
                ppbs.insert(5);
            }
            // a block size larger than the whole table is not offered by any caller
            ppbs.retain(|b| *b <= pages.max(1) || *b == 1);
            for &ppb in &ppbs {
                let mut grains: BTreeSet<i32> = [1, units].into_iter().collect();
                if units % 512 == 0 {
                    grains.insert(512);
                }
                if units % 2 == 0 && units <= 40 {
                    grains.insert(2);
                }
                for &grain in &grains {
                    let pts: Vec<i32> = interesting_totals(units, heads, ppb)
                        .into_iter()
                        // documented precondition of growth: totals <= grain or multiples of grain
                        .filter(|t| grain == 1 || grain == units || *t % grain == 0)
                        .collect();
                    out.push(Case { units, heads, ppb, grain, totals: vec![units] });
                    let pts: Vec<i32> = pts.into_iter().take(if thorough { 16 } else { 12 }).collect();
                    for (i, &a) in pts.iter().enumerate() {
                        out.push(Case { units, heads, ppb, grain, totals: vec![a, units] });
                        if units < if thorough { 3000 } else { 2000 } {
                            for &b in &pts[i + 1..] {
                                out.push(Case { units, heads, ppb, grain, totals: vec![a, b, units] });
                            }
                        }
                    }
                }
            }
        }
    }
    out
}

fn classify(c: &Case) -> &'static str {
    let pages = RawMemoryFreeList::size_in_pages(c.units, c.heads);
    if pages % c.ppb != 0 {
        "partial_last_block"
    } else {
        "whole_blocks"
    }
}

pub fn run(run: &mut Run) {
    let all = cases(run);
    let window_bytes = 80 * PAGE;
    let n = all.len();
    let jobs = run.jobs.max(1);
    let chunks: Vec<Vec<Case>> = (0..jobs).map(|j| all.iter().skip(j).step_by(jobs).cloned().collect()).collect();
    let results: Vec<(u64, u64, Vec<(String, String, Value)>)> = std::thread::scope(|sc| {
        let hs: Vec<_> = chunks
            .iter()
            .map(|chunk| {
                sc.spawn(move || {
                    crate::common::quiet_panics();
                    let window = reserve_window(window_bytes);
                    let probe = Probe::new();
                    let mut nontrivial = 0u64;
                    let mut steps = 0u64;
                    let mut viol = vec![];
                    for c in chunk {
                        steps += c.totals.len() as u64 + c.units as u64;
                        match run_case(c, window, window_bytes, &probe) {
                            Ok(nt) => {
                                if nt {
                                    nontrivial += 1;
                                }
                            }
                            Err((sig, msg)) => viol.push((format!("{}:{}", sig, classify(c)), msg, case_json(c))),
                        }
                    }
                    (nontrivial, steps, viol)
                })
            })
            .collect();
        hs.into_iter().map(|h| h.join().unwrap()).collect()
    });
    let mut nontrivial = 0;
    let mut steps = 0;
    for (nt, st, viol) in results {
        nontrivial += nt;
        steps += st;
        for (sig, msg, case) in viol {
            run.violation(sig, msg, case);
        }
    }
    for c in all.iter().filter(|c| c.totals.len() == 3).take(2).chain(all.iter().filter(|c| classify(c) == "partial_last_block").take(2)) {
        run.sample(case_json(c));
    }
    let distinct_params: BTreeSet<(i32, i32, i32, i32)> = all.iter().map(|c| (c.units, c.heads, c.ppb, c.grain)).collect();
    run.set("states", distinct_params.len() as u64);
    run.set("transitions", steps);
    run.set("evaluations", n as u64);
    run.set("traces_validated_against_impl", n as u64);
    run.set("distinct_nontrivial", nontrivial);
    run.set("partial_last_block_cases", all.iter().filter(|c| classify(c) == "partial_last_block").count() as u64);
    run.set("exhaustive", true);
    run.set("rule", "grid: units 1..N plus every unit count whose table ends within +-2 units of a page boundary (up to the page cap), heads {1,2}, pages_per_block {1,2,16,default(,3,5)}, grain {1, units(,2,512)}; x every growth composition with <=2 intermediate totals drawn from {1,2,units/2,units-1, each block capacity +-1}; limit = base + size_in_pages(units, heads) as Map64 computes it. states = distinct parameter tuples; transitions = growth steps + unit allocations; non-trivial = stepwise growth or a growth that had to clamp the last block to the limit");
    run.assume("growth totals are <= grain or multiples of grain (the precondition asserted by grow_list_by_blocks); growth from a total that is not a multiple of grain to one that is, with grain > 1, is excluded (it leaves the old sentinel unit unusable; callers grow by whole chunks = grain)");
    run.assume("limit = base + size_in_pages(units, heads) pages, block size <= table size, as Map64::create_parent_freelist derives them");
}

pub fn replay(case: &Value, run: &mut Run) {
    let c = Case {
        units: case["units"].as_i64().unwrap() as i32,
        heads: case["heads"].as_i64().unwrap() as i32,
        ppb: case["pages_per_block"].as_i64().unwrap() as i32,
        grain: case["grain"].as_i64().unwrap() as i32,
        totals: case["totals"].as_array().unwrap().iter().map(|v| v.as_i64().unwrap() as i32).collect(),
    };
    let window_bytes = 80 * PAGE;
    let window = reserve_window(window_bytes);
    let probe = Probe::new();
    if let Err((sig, msg)) = run_case(&c, window, window_bytes, &probe) {
        run.violation(sig, msg, case.clone());
    }
}
