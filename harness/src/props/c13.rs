//! C13 — VM weak-reference processing rounds run until the closure is complete:
//! `process_weak_refs` is first called only after the strong transitive closure is complete;
//! whenever it returns true it is called again after the closure of everything it traced is
//! complete (and never again after it returned false); objects it traced survive with updated
//! addresses; plans with a separate forwarding pass call `forward_weak_refs` once, afterwards.
//!
//! The binding keeps an ephemeron table (value reachable iff key reachable) that needs exactly
//! as many extra rounds as its longest chain.  Inside every `process_weak_refs` upcall the
//! binding checks that all objects of the closure stages completed so far are already reached
//! (`is_reachable`), using addresses the harness computed from the shadow heap before the
//! collection.

use crate::common::{Run, Tier};
use crate::progs::{Alphabet, Op, ProgFacts};
use crate::shadow_check::Profile;
use crate::shadowvm::{BootCfg, Sem, COLLECTING_PLANS};
use serde_json::Value;

fn plans(_t: Tier) -> Vec<&'static str> {
    COLLECTING_PLANS.to_vec()
}

/// "" = default options; "noref" = reference types and finalizers disabled by option (the
/// VM-side weak processing must not depend on MMTk's own reference processors being scheduled).
fn variants(_plan: &str, _t: Tier) -> Vec<&'static str> {
    vec!["", "noref"]
}

fn alphabet(_plan: &str, _v: &str, t: Tier) -> Alphabet {
    Alphabet {
        sizes: vec![40],
        sems: vec![Sem::Default],
        gc_kinds: vec![false, true],
        bursts: vec![],
        refused_allocs: false, align_bursts: false, eph_chains: if t == Tier::Thorough { vec![1, 2, 3] } else { vec![1, 3] },
        two_mutators: false,
        pins: false,
        cross_writes: false,
        fields: 1,
    }
}

fn depth(plan: &str, v: &str, t: Tier) -> usize {
    let d = depth_main(plan, t);
    if v == "noref" {
        (d - 1).max(3)
    } else {
        d
    }
}

fn depth_main(plan: &str, t: Tier) -> usize {
    match (plan, t) {
        ("MarkCompact", Tier::Quick) | ("PageProtect", Tier::Quick) => 3,
        (_, Tier::Quick) => 4,
        ("MarkCompact", Tier::Thorough) | ("PageProtect", Tier::Thorough) => 4,
        (_, Tier::Thorough) => 5,
    }
}

fn boot(plan: &str, v: &str, _t: Tier) -> BootCfg {
    let mut c = BootCfg::new(plan);
    if v == "noref" {
        c.options.push(("no_reference_types".to_string(), "true".to_string()));
        c.options.push(("no_finalizer".to_string(), "true".to_string()));
    }
    c
}

pub fn owns(sig: &str) -> bool {
    sig.starts_with("weak:") || sig.contains(":weak_table") || sig.starts_with("graph:") && sig.contains("weak-table")
}

fn nontrivial(f: &ProgFacts) -> bool {
    f.weak_extra_rounds > 0
}

fn filter(_v: &str, p: &[Op]) -> bool {
    p.iter().any(|o| matches!(o, Op::EphChain { .. } | Op::Eph { .. }))
}

fn post(w: &mut crate::shadowvm::World, _p: &[Op]) -> Result<(), crate::shadowvm::Fail> {
    w.expect_weak_stages = true;
    Ok(())
}

pub const PROFILE: Profile = Profile {
    id: "C13",
    plans,
    variants,
    alphabet,
    depth,
    boot,
    owns,
    nontrivial,
    filter,
    rule: "every program of length <= depth over {alloc 40 B, ephemeron chain of length n in {1,3} ({1,2,3} thorough): key in a root + n unrooted values with weak-table entries key->v1->...->vn, weak-table entry root->root (incl. self and cyclic entries), write root.f0, drop root, GC(normal), GC(exhaustive)} containing a weak-table operation, per collecting plan, with default options and (one level shallower) with no_reference_types / no_finalizer set; oracle inside each process_weak_refs upcall: every object of the closure stages completed so far (computed from the shadow heap, by pre-collection address) is_reachable; per collection: rounds numbered 1..n, all but the last returned true, the last false, n == chain depth + 1, forward_weak_refs exactly once after the last round in MarkCompact/Compressor and never elsewhere; after the collection the weak table holds exactly the entries with reachable keys with updated addresses and the graph check follows it. distinct_nontrivial = programs in which some collection needed >= 1 extra round",
    post: Some(post),
    timeout_s: |t| t.pick(300, 3000),
};

pub fn run(run: &mut Run) {
    crate::shadow_check::run(&PROFILE, run);
    run.assume("one GC worker; the weak table is the harness binding's (ephemeron semantics); the schedules quantifier is C14/C15's");
}

pub fn replay(case: &Value, run: &mut Run) {
    crate::shadow_check::replay(&PROFILE, case, run);
}

pub fn child(args: &[String]) {
    crate::shadow_check::child(&PROFILE, args);
}
