//! C12 — ConcurrentImmix: snapshot-at-the-beginning.  Every object that is reachable when
//! concurrent marking starts, and every object allocated during marking, survives the cycle, no
//! matter how the mutator rewires the graph while the marking packets run (engine `baton`,
//! persistent mode, infrastructure and scenario `satb` of `props/sched.rs`).
//!
//! One real `MMTK<VerifVM>` instance with plan ConcurrentImmix per child process.  An execution:
//! (1) the graph root0 -> A -> B -> C, root3 -> D (objects of 4 Immix lines, line-aligned, so that
//! no two of them share a mark / log metadata byte or a line); (2) an allocation burst of large
//! objects until the plan starts a concurrent cycle (initial-mark pause: roots captured, log bits
//! set, SATB barrier armed); (3) the mutator runs a program of <= 2 (thorough 3) ops over
//! {A.f <- null; D.f <- A.f, drop the root of D; E = alloc; E.f <- A.f.f; A.f <- E; R <- A.f}
//! through the real write barrier, while the GC workers run the real concurrent marking packets
//! (if an allocating op finds the marking complete, its poll is the final-mark pause: the rest of
//! such a program lies outside the cycle and only gets the shadow-heap checks);
//! (4) when the marking is done the next poll brings the final-mark pause (mutator buffers
//! flushed, release: unmarked lines are freed); (5) every snapshot object is compared word by
//! word with its content at the end of the program, an allocation burst of line-sized objects
//! fills every line the cycle freed in the block, and the comparison is repeated; (6) a full
//! collection verifies the reachable graph against the shadow heap (`World::verify_heap`), then
//! everything is dropped and collected.
//!
//! Scheduling points: worker monitor / scheduler protocol (packet boundaries), the metadata
//! atomics on the mark and log bits of A..E (barrier: load of the source's log bit, store that
//! logs it; marker: mark-bit compare-exchange), and the boundaries of the mutator's ops.  Explored:
//! every interleaving of the mutator and the workers between the end of the initial-mark pause and
//! the end of the program with at most the tier's preemption bound (by default the program runs
//! before the marking packets; a preemption lets the marking run up to any of its points).
//!
//! Oracle (`satb:<clause>:satb`, `heap:<clause>:satb`): snapshot objects and objects allocated
//! during marking are unchanged right after the final pause and after the line-reusing burst
//! (with feature vo_bit also: still MMTk objects); the shadow-heap check after the pauses and the
//! full collection; engine verdicts (deadlock ...), mmtk-core's own assertions.

use crate::common::{Run, Tier};
use crate::props::sched::{self, satb_programs, ChildCfg, Job, Kind, Pattern, Plan};
use serde_json::Value;

pub fn owns(sig: &str) -> bool {
    sig.ends_with(":satb")
}

pub fn plans(tier: Tier) -> Vec<Plan> {
    let thorough = tier == Tier::Thorough;
    let mut out = vec![];
    let worker_counts: Vec<usize> = if thorough { vec![1, 2] } else { vec![1] };
    for workers in worker_counts {
        let cfg = ChildCfg { plan: "ConcurrentImmix".to_string(), workers, eph_chain: 0, refs: false, options: vec![], mutators: 1, bare: true };
        let progs = satb_programs(if thorough { 3 } else { 2 });
        // measured: 1 worker, 3 ops, 2 preemptions: ~240 executions per program; 2 workers: ~1 570;
        // 2 workers, 1 op, 3 preemptions: ~5 060 (about 10 ms per execution: 3 pauses + 2 full collections)
        let shard = 4;
        for chunk in progs.chunks(shard) {
            let jobs: Vec<Job> = chunk.iter().map(|p| Job { kind: Kind::Satb, pattern: Pattern::empty(), via_worker: false, bound: if thorough && workers == 1 && p.len() <= 2 { 3 } else { 2 }, free_bound: 1, spurious: 0, prog: p.clone() }).collect();
            out.push(Plan { cfg: cfg.clone(), jobs });
        }
    }
    out
}

pub const RULE: &str = "per (GC workers {1; thorough 1, 2}, mutator program of <= 2 (thorough 3) ops over {A.f <- null; D.f <- A.f, drop root of D; E = alloc; E.f <- A.f.f; A.f <- E; R <- A.f} on the graph root -> A -> B -> C, root -> D): one concurrent cycle of a real ConcurrentImmix instance (initial-mark pause triggered by an allocation burst, the program through the real SATB write barrier racing with the real concurrent marking packets, final-mark pause at the next poll, line-reusing allocation burst, full collection); every interleaving of mutator and GC workers at the packet boundaries, the mark / log bit atomics of the five objects and the op boundaries between the end of the initial-mark pause and the end of the program, with at most the stated preemptions; states = executions, non-trivial = executions in which a marking packet ran between the first and the last op of the program or was interrupted by the program";

pub fn run(run: &mut Run) {
    let plans = plans(run.tier);
    run.set("child_processes", plans.len() as u64);
    run.set("programs", satb_programs(run.tier.pick(2, 3)).len() as u64);
    sched::run_parent(run, plans, &owns, run.tier.pick(300, 3000));
    run.set("rule", RULE);
    run.set("placement", crate::vm::PLACEMENT);
    run.assume("sequentially consistent interleavings at the instrumented points only; the marking of other objects, the bulk log-bit operations of the pauses, line / block state and the allocators are atomic steps between them");
    run.assume("outside the window (graph construction, initial-mark pause, final-mark pause, bursts, full collections) the default schedule runs; by default the mutator program runs before the concurrent marking packets");
    run.assume("one mutator; the program's objects are 1 KiB, line-aligned; programs of the stated alphabet only (no weak references, no array copies: memory_region_copy, object_probable_write are not exercised)");
}

pub fn replay(case: &Value, run: &mut Run) {
    sched::replay("C12", case, run);
}

pub fn child(args: &[String]) -> ! {
    sched::child("C12", args)
}
