//! C12 — ConcurrentImmix: snapshot-at-the-beginning.  Every object that is reachable when
//! concurrent marking starts, and every object allocated during marking, survives the cycle, no
//! matter how the mutator rewires the graph while the marking packets run (engine `baton`,
//! persistent mode, infrastructure and scenario `satb` of `props/sched.rs`).
//!
//! One real `MMTK<VerifVM>` instance with plan ConcurrentImmix per child process.  An execution:
//! (1) the graph root0 -> A -> B -> C, root3 -> D (objects of 4 Immix lines, line-aligned, so that
//! no two of them share a mark / log metadata byte or a line); (2) an allocation burst of large
//! objects until the plan starts a concurrent cycle (initial-mark pause: roots captured, log bits
//! set, SATB barrier armed); (3) the mutator runs a program of <= 2 (thorough 3) ops over
//! {A.f <- null; D.f <- A.f, drop the root of D; E = alloc; E.f <- A.f.f; A.f <- E; R <- A.f}
//! through the real write barrier, while the GC workers run the real concurrent marking packets
//! (if an allocating op finds the marking complete, its poll is the final-mark pause: the rest of
//! such a program lies outside the cycle and only gets the shadow-heap checks);
//! (4) when the marking is done the next poll brings the final-mark pause (mutator buffers
//! flushed, release: unmarked lines are freed); (5) every snapshot object is compared word by
//! word with its content at the end of the program, an allocation burst of line-sized objects
//! fills every line the cycle freed in the block, and the comparison is repeated; (6) a full
//! collection verifies the reachable graph against the shadow heap (`World::verify_heap`), then
//! everything is dropped and collected.
//!
//! Scheduling points: worker monitor / scheduler protocol (packet boundaries), the metadata
//! atomics on the mark and log bits of A..E (barrier: load of the source's log bit, store that
//! logs it; marker: mark-bit compare-exchange), and the boundaries of the mutator's ops.  Explored:
//! every interleaving of the mutator and the workers between the end of the initial-mark pause and
//! the end of the program with at most the tier's preemption bound (by default the program runs
//! before the marking packets; a preemption lets the marking run up to any of its points).
//!
//! Scenario `satb2` (two mutators, `sched::Kind::Satb2`, `Child::satb2_execution`): the child has
//! two bound mutators, each with its own `Mutator` (own SATB barrier and buffers).  Graph root0 -> A,
//! A.f -> B -> C, A.g -> G (B, C, G reachable only through A; same size / alignment as above).  After
//! the initial-mark pause mutator 0 (the controller thread) and mutator 1 (a second baton thread
//! created with `Inst::spawn`) each run a program of 1-2 reference stores into the SAME, not yet
//! logged, object A ({A.f <- null; A.g <- null; A.f <- G}; e.g. m0: A.f <- null | m1: A.g <- null,
//! both the same field, one of them two ops: `sched::satb2_programs`) through
//! `memory_manager::object_reference_write_pre` of their own mutator, followed by the store.
//! Scheduling points in addition to the ones above: the two reference fields of A as locations
//! (the store of an op; the field loads of whoever scans A through the binding's `scan_object`: the
//! barrier's slow path on either mutator thread, the marker; `vm::SCAN_SLOT_POINTS`).  The window is
//! open until both programs have ended.  When mutator 1's program has ended its thread ends (the
//! mutator stays bound, at a safepoint); the controller waits for that and for the end of the
//! marking, then its next poll brings the final-mark pause, which visits (flushes) both mutators.
//! In the programs marked `destroy` mutator 1 is destroyed instead, on its own thread and inside the
//! window (`memory_manager::destroy_mutator`, whose flush must hand the barrier's buffer to the
//! collector while the marking is in progress or already complete); the later pauses then see
//! mutator 0 only, and a new mutator 1 is bound when the execution is over.
//! Steps (5), (6) and the oracle are the ones above, over A, B, C, G.
//!
//! Oracle (`satb:<clause>:satb`, `heap:<clause>:satb`; `...:satb2` for the second scenario): snapshot objects and objects allocated
//! during marking are unchanged right after the final pause and after the line-reusing burst
//! (with feature vo_bit also: still MMTk objects); the shadow-heap check after the pauses and the
//! full collection; engine verdicts (deadlock ...), mmtk-core's own assertions.

use crate::common::{Run, Tier};
use crate::props::sched::{self, satb2_programs, satb_programs, ChildCfg, Job, Kind, Pattern, Plan};
use serde_json::Value;

pub fn owns(sig: &str) -> bool {
    sig.ends_with(":satb") || sig.ends_with(":satb2")
}

pub fn plans(tier: Tier) -> Vec<Plan> {
    let thorough = tier == Tier::Thorough;
    let mut out = vec![];
    let worker_counts: Vec<usize> = if thorough { vec![1, 2] } else { vec![1] };
    for workers in worker_counts {
        let cfg = ChildCfg { plan: "ConcurrentImmix".to_string(), workers, eph_chain: 0, refs: false, options: vec![], mutators: 1, bare: true };
        let progs = satb_programs(if thorough { 3 } else { 2 });
        // measured: 1 worker, 3 ops, 2 preemptions: ~240 executions per program; 2 workers: ~1 570;
        // 2 workers, 1 op, 3 preemptions: ~5 060 (about 10 ms per execution: 3 pauses + 2 full collections)
        let shard = 4;
        for chunk in progs.chunks(shard) {
            let jobs: Vec<Job> = chunk.iter().map(|p| Job { kind: Kind::Satb, pattern: Pattern::empty(), via_worker: false, bound: if thorough && workers == 1 && p.len() <= 2 { 3 } else { 2 }, free_bound: 1, spurious: 0, prog: p.clone() }).collect();
            out.push(Plan { cfg: cfg.clone(), jobs });
        }
    }
    // scenario `satb2`: two mutators (own barrier, own buffers) write fields of the same object.
    // Measured (1 worker): <= 1 preemption: ~62 executions per program; <= 2 preemptions without
    // free deviations: ~800-1 100, with them: ~1 700-2 100; 2 workers, <= 2 / <= 2: ~10 700-13 000;
    // about 10 ms per execution (3 pauses + 2 full collections), one child process per program.
    let worker_counts: Vec<usize> = if thorough { vec![1, 2] } else { vec![1] };
    for workers in worker_counts {
        let cfg = ChildCfg { plan: "ConcurrentImmix".to_string(), workers, eph_chain: 0, refs: false, options: vec![], mutators: 2, bare: true };
        for (i, p) in satb2_programs(if thorough { 1 } else { 0 }).into_iter().enumerate() {
            let job = |bound: u32, free_bound: u32| Job { kind: Kind::Satb2, pattern: Pattern::empty(), via_worker: false, bound, free_bound, spurious: 0, prog: p.clone() };
            // quick: (<= 2 preemptions, no free deviation) and (<= 1 preemption, <= 2 free
            // deviations); thorough: <= 2 preemptions and <= 2 free deviations (a superset of both),
            // and for the first two pairs (one op each: different fields, same field) with 1 worker
            // also <= 3 preemptions without free deviations (~15 700 executions, ~3 min each;
            // with <= 2 free deviations it is ~30 500, ~5 min on an idle machine: too long)
            let jobs = if !thorough {
                vec![job(2, 0), job(1, 2)]
            } else if workers == 1 && i < 2 {
                vec![job(3, 0), job(2, 2)]
            } else {
                vec![job(2, 2)]
            };
            out.push(Plan { cfg: cfg.clone(), jobs });
        }
    }
    // the longest children first (the parent starts the children in this order)
    out.sort_by_key(|p| std::cmp::Reverse(p.jobs[0].kind == Kind::Satb2 && p.jobs.iter().any(|j| j.bound >= 3)));
    out
}

pub const RULE: &str = "scenario satb: per (GC workers {1; thorough 1, 2}, mutator program of <= 2 (thorough 3) ops over {A.f <- null; D.f <- A.f, drop root of D; E = alloc; E.f <- A.f.f; A.f <- E; R <- A.f} on the graph root -> A -> B -> C, root -> D): one concurrent cycle of a real ConcurrentImmix instance (initial-mark pause triggered by an allocation burst, the program through the real SATB write barrier racing with the real concurrent marking packets, final-mark pause at the next poll, line-reusing allocation burst, full collection); every interleaving of mutator and GC workers at the packet boundaries, the mark / log bit atomics of the five objects and the op boundaries between the end of the initial-mark pause and the end of the program, with at most the stated preemptions; states = executions, non-trivial = executions in which a marking packet ran between the first and the last op of the program or was interrupted by the program; scenario satb2: per (GC workers {1; thorough 1, 2}, pair of programs of mutator 0 and mutator 1, each 1-2 stores of {A.f <- null; A.g <- null; A.f <- G} into the same unlogged object A of the graph root -> A, A.f -> B -> C, A.g -> G, each through its own mutator's SATB barrier on its own thread): the same cycle; every interleaving of the two mutators and the GC workers at the packet boundaries, the mark / log bit atomics of A, B, C, G, the loads and stores of A's two reference fields and the op boundaries, from the end of the initial-mark pause until both programs have ended, within the stated bounds on preemptions and free deviations; non-trivial = executions in which an op of one mutator began while an op of the other mutator was in progress";

pub fn run(run: &mut Run) {
    let plans = plans(run.tier);
    run.set("child_processes", plans.len() as u64);
    run.set("programs", satb_programs(run.tier.pick(2, 3)).len() as u64);
    run.set("programs_two_mutators", satb2_programs(run.tier.pick(0, 1)).len() as u64);
    sched::run_parent(run, plans, &owns, run.tier.pick(300, 3000));
    run.set("rule", RULE);
    run.set("placement", crate::vm::PLACEMENT);
    run.assume("sequentially consistent interleavings at the instrumented points only; the marking of other objects, the bulk log-bit operations of the pauses, line / block state and the allocators are atomic steps between them");
    run.assume("outside the window (graph construction, initial-mark pause, final-mark pause, bursts, full collections) the default schedule runs; by default the mutator program runs before the concurrent marking packets");
    run.assume("scenario satb2: two mutators, 7 (thorough 13) fixed pairs of programs; bounds: quick (<= 2 preemptions, no free deviation) and (<= 1 preemption, <= 2 free deviations); thorough <= 2 preemptions and <= 2 free deviations, and (<= 3 preemptions, no free deviation) for two pairs with 1 worker; mutator 1 does not allocate and has no roots; its thread ends with its program while the mutator stays bound (the final-mark pause flushes it), or (1 pair, thorough 3) it is destroyed at the end of its program (destroy_mutator on its own thread during the cycle)");
    run.assume("scenario satb: one mutator; the program's objects are 1 KiB, line-aligned; programs of the stated alphabet only (no weak references, no array copies: memory_region_copy, object_probable_write are not exercised)");
}

pub fn replay(case: &Value, run: &mut Run) {
    sched::replay("C12", case, run);
}

pub fn child(args: &[String]) -> ! {
    sched::child("C12", args)
}
